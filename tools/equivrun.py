#!/usr/bin/env python3
"""Run every quick check against the behaviour-preserving refactorings in seeded_equiv/.

usage: tools/equivrun.py [seeded_equiv/<name> ...]      (default: all)

Each patch is applied to /repo (git apply), the twenty quick checks run with the evidence
redirected, and the patch is undone (git checkout -- .).  A refactoring must not produce a
VIOLATION (exit 1) from any check.  Exit 2 (analysis error: "this function has been
restructured since the rule instance was confirmed, I cannot decide") is the honest answer for
the functions that were rewritten, and is reported separately.
"""
import json
import os
import shutil
import subprocess
import sys
import tempfile
from concurrent.futures import ThreadPoolExecutor

HERE = os.path.dirname(os.path.dirname(os.path.abspath(__file__)))
REPO = os.environ.get("VERIF_REPO", "/repo")


def one(pid, evdir):
    env = dict(os.environ, HV_EVIDENCE_DIR=evdir, VERIF_REPO=REPO)
    p = subprocess.run([os.path.join(HERE, "bin", "hv"), pid, "--tier", "quick"], capture_output=True, text=True, env=env, cwd=HERE)
    viol = []
    try:
        with open(os.path.join(evdir, pid + ".json")) as f:
            cov = json.load(f).get("coverage", {})
        viol = ["%s %s" % (v.get("rule"), v.get("instance", "")[:90]) for v in cov.get("new_violations", [])]
    except Exception:
        pass
    return pid, p.returncode, viol


def main():
    args = sys.argv[1:]
    base = os.path.join(HERE, "seeded_equiv")
    if not args:
        args = [os.path.join(base, n) for n in sorted(os.listdir(base)) if os.path.isfile(os.path.join(base, n, "patch.diff"))]
    bad = 0
    for d in args:
        st = subprocess.run(["git", "-C", REPO, "status", "--porcelain", "--untracked-files=no"], capture_output=True, text=True).stdout
        if st.strip():
            sys.exit("refusing: %s has uncommitted changes" % REPO)
        evdir = tempfile.mkdtemp(prefix="hv-equiv-")
        try:
            subprocess.run(["git", "-C", REPO, "apply", os.path.abspath(os.path.join(d, "patch.diff"))], check=True)
            with ThreadPoolExecutor(8) as ex:
                res = list(ex.map(lambda i: one("C%02d" % i, evdir), range(1, 21)))
        finally:
            subprocess.run(["git", "-C", REPO, "checkout", "--", "."], check=True)
            shutil.rmtree(evdir, ignore_errors=True)
        alarms = {pid: v for pid, rc, v in res if rc == 1}
        undecided = [pid for pid, rc, v in res if rc == 2]
        bad += len(alarms)
        print("%s: %s; undecided (exit 2): %s" % (os.path.basename(d.rstrip("/")), "FALSE ALARMS %s" % json.dumps(alarms) if alarms else "no alarm", ",".join(undecided) or "-"))
    return 1 if bad else 0


if __name__ == "__main__":
    sys.exit(main())
