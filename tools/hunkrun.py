import re,sys,os,subprocess,json,tempfile,shutil
from concurrent.futures import ThreadPoolExecutor
HERE='/verif'
# work from a snapshot of the machinery, so that it can be edited while this runs
SNAP=tempfile.mkdtemp(prefix='hv_snap_')
for c in ('bin','hv','reference','fixtures','known_findings.json','properties.jsonl'):
    src=os.path.join('/verif',c)
    if os.path.isdir(src): shutil.copytree(src,os.path.join(SNAP,c),ignore=shutil.ignore_patterns('__pycache__'))
    elif os.path.exists(src): shutil.copy(src,os.path.join(SNAP,c))
HERE=SNAP
import atexit
atexit.register(lambda: shutil.rmtree(SNAP,ignore_errors=True))
def split(patch):
    txt=open(patch).read()
    out=[]
    files=re.split(r'(?m)^(?=diff --git )',txt)
    for f in files:
        if not f.strip(): continue
        m=re.search(r'(?m)^@@',f)
        if not m: continue
        header=f[:m.start()]
        hunks=re.split(r'(?m)^(?=@@ )',f[m.start():])
        for h in hunks:
            if h.strip(): out.append(header+h)
    return out
def run_checks(root):
    ev=tempfile.mkdtemp(prefix='hvh_')
    def one(i):
        pid='C%02d'%i
        env=dict(os.environ,VERIF_REPO=root,HV_EVIDENCE_DIR=ev)
        p=subprocess.run([HERE+'/bin/hv',pid,'--tier','quick'],capture_output=True,text=True,env=env,cwd=HERE)
        v=[]
        if p.returncode==1:
            try:
                cov=json.load(open(os.path.join(ev,pid+'.json')))['coverage']
                v=[(x['rule'],x['instance'][:100]) for x in cov['new_violations']][:3]
            except Exception: pass
        return pid,p.returncode,v
    with ThreadPoolExecutor(10) as ex: res=list(ex.map(one,range(1,21)))
    shutil.rmtree(ev,ignore_errors=True)
    return res
name=sys.argv[1]
patch='/verif/seeded_equiv/%s/patch.diff'%name
hs=split(patch)
print(name,len(hs),'hunks')
for k,h in enumerate(hs):
    tmp=tempfile.mkdtemp(prefix='hvhunk_')
    try:
        subprocess.run('git -C /repo archive HEAD | tar -x -C %s'%tmp,shell=True,check=True)
        pf=os.path.join(tmp,'h.diff'); open(pf,'w').write(h)
        r=subprocess.run(['git','apply','--unsafe-paths','--directory',tmp,pf],capture_output=True,text=True,cwd=tmp)
        if r.returncode!=0:
            r=subprocess.run(['patch','-p1','-s','-d',tmp,'-i',pf],capture_output=True,text=True)
            if r.returncode!=0: print(k,'does not apply'); continue
        c=subprocess.run(['/venv/bin/python','-m','compileall','-q',os.path.join(tmp,'hypnotoad')],capture_output=True,text=True)
        if c.returncode!=0: print(k,'does not compile'); continue
        # a hunk that calls a helper introduced by another hunk is not a program of its own
        import builtins
        added="\n".join(l[1:] for l in h.splitlines() if l.startswith('+') and not l.startswith('+++'))
        removed="\n".join(l[1:] for l in h.splitlines() if l.startswith('-') and not l.startswith('---'))
        called=set(re.findall(r'\b([A-Za-z_]\w*)\s*\(',added))-set(re.findall(r'\b([A-Za-z_]\w*)\s*\(',removed))
        used=set(re.findall(r'\b([A-Za-z_]\w*)\b',added))-set(re.findall(r'\b([A-Za-z_]\w*)\b',removed))
        alltext="\n".join(open(os.path.join(dp,f)).read() for dp,dn,fn in os.walk(os.path.join(tmp,'hypnotoad')) for f in fn if f.endswith('.py'))
        missing=[t for t in sorted(called) if not hasattr(builtins,t) and not re.search(r'\b(def|class)\s+%s\b|\bimport\b.*\b%s\b|\b%s\s*=|\bfor\b[^\n]*\b%s\b[^\n]*\bin\b|\blambda\b[^:\n]*\b%s\b'%(t,t,t,t,t),alltext)
                 and not re.search(r'\.%s\s*\('%t,removed+alltext.replace(added,''))]
        # names read but bound nowhere in the file after the hunk (the binding is in another hunk)
        fpath=os.path.join(tmp,re.search(r'(?m)^\+\+\+ b/(.*)$',h).group(1))
        import ast as _ast, symtable
        try:
            tree=_ast.parse(open(fpath).read())
            bound=set(dir(builtins))
            for n in _ast.walk(tree):
                if isinstance(n,_ast.Name) and isinstance(n.ctx,(_ast.Store,_ast.Del)): bound.add(n.id)
                elif isinstance(n,(_ast.FunctionDef,_ast.ClassDef,_ast.AsyncFunctionDef)): bound.add(n.name)
                elif isinstance(n,_ast.arg): bound.add(n.arg)
                elif isinstance(n,(_ast.Import,_ast.ImportFrom)):
                    for a in n.names: bound.add((a.asname or a.name).split('.')[0])
                elif isinstance(n,_ast.ExceptHandler) and n.name: bound.add(n.name)
            # scope-aware: a name a function reads as a global that the module never binds
            st=symtable.symtable(open(fpath).read(),fpath,'exec')
            modnames={sy.get_name() for sy in st.get_symbols() if sy.is_assigned() or sy.is_imported() or sy.is_namespace()}|set(dir(builtins))
            unbound=set()
            def scan(t):
                for sy in t.get_symbols():
                    if t.get_type()!='module' and sy.is_global() and sy.is_referenced() and sy.get_name() not in modnames: unbound.add(sy.get_name())
                    if t.get_type()=='module' and sy.is_referenced() and not (sy.is_assigned() or sy.is_imported() or sy.is_namespace()) and sy.get_name() not in modnames: unbound.add(sy.get_name())
                for ch in t.get_children(): scan(ch)
            scan(st)
            unbound=sorted(unbound)
            attrs_defined={n.name for n in _ast.walk(tree) if isinstance(n,(_ast.FunctionDef,_ast.ClassDef))}|{n.attr for n in _ast.walk(tree) if isinstance(n,_ast.Attribute) and isinstance(n.ctx,_ast.Store)}
            selfcalls=sorted({n.func.attr for n in _ast.walk(tree) if isinstance(n,_ast.Call) and isinstance(n.func,_ast.Attribute) and isinstance(n.func.value,_ast.Name) and n.func.value.id=='self' and n.func.attr in used and n.func.attr not in attrs_defined and not re.search(r'\bdef\s+%s\b'%n.func.attr,alltext)})
        except Exception as e:
            unbound=[]; selfcalls=[]
        if missing or unbound or selfcalls:
            print(k,'not self-contained (uses %s defined in another hunk)'%(missing+unbound+selfcalls)); continue
        res=run_checks(tmp)
        alarms={p:v for p,rc,v in res if rc==1}
        und=[p for p,rc,v in res if rc==2]
        print(k,'ALARM' if alarms else 'ok', json.dumps(alarms) if alarms else '', 'undecided:'+','.join(und) if und else '')
        if alarms:
            open('/tmp/hunk_%s_%d.diff'%(name,k),'w').write(h)
    finally:
        shutil.rmtree(tmp,ignore_errors=True)
