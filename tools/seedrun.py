#!/usr/bin/env python3
"""Run every quick check against one seeded change.

usage: tools/seedrun.py seeded/<name>            (or: tools/seedrun.py --all)

Applies seeded/<name>/patch.diff to /repo (git apply), runs all twenty quick checks with
the evidence redirected to a scratch directory, prints which checks fired (property, rule,
instance), and undoes the patch (git checkout -- .) whatever happens.  Nothing is written to
/repo's history and nothing under /verif/evidence is touched.
"""
import json
import os
import shutil
import subprocess
import sys
import tempfile
from concurrent.futures import ThreadPoolExecutor

HERE = os.path.dirname(os.path.dirname(os.path.abspath(__file__)))
REPO = os.environ.get("VERIF_REPO", "/repo")
PY = "/venv/bin/python"


def one(pid, evdir):
    env = dict(os.environ, HV_EVIDENCE_DIR=evdir, VERIF_REPO=REPO)
    p = subprocess.run([os.path.join(HERE, "bin", "hv"), pid, "--tier", "quick"],
                       capture_output=True, text=True, env=env, cwd=HERE)
    fired = []
    try:
        with open(os.path.join(evdir, pid + ".json")) as f:
            ev = json.load(f)
        cov = ev.get("coverage", {})
        for v in cov.get("new_violations", []):
            fired.append((v.get("rule"), v.get("instance") or v.get("key"), v.get("site")))
        for e in cov.get("analysis_errors", []):
            fired.append(("analysis-error", str(e)[:120], None))
    except Exception:
        pass
    errs = [l for l in p.stdout.splitlines() if l.startswith("ANALYSIS-ERROR")]
    return pid, p.returncode, fired, errs


def run_seed(d):
    patch = os.path.join(d, "patch.diff")
    st = subprocess.run(["git", "-C", REPO, "status", "--porcelain", "--untracked-files=no"], capture_output=True, text=True).stdout
    if st.strip():
        sys.exit("refusing: %s has uncommitted changes" % REPO)
    evdir = tempfile.mkdtemp(prefix="hv-seed-")
    res = []
    try:
        subprocess.run(["git", "-C", REPO, "apply", os.path.abspath(patch)], check=True)
        with ThreadPoolExecutor(8) as ex:
            res = list(ex.map(lambda i: one("C%02d" % i, evdir), range(1, 21)))
    finally:
        subprocess.run(["git", "-C", REPO, "checkout", "--", "."], check=True)
        shutil.rmtree(evdir, ignore_errors=True)
    out = {"seed": os.path.basename(d.rstrip("/")), "fired": {}, "errors": {}}
    for pid, rc, fired, errs in res:
        if rc == 1 or (rc == 2 and any(r != "analysis-error" for r, _, _ in fired)):
            out["fired"][pid] = ["%s %s" % (r, k) for r, k, _ in fired][:8]
        elif rc != 0:
            out["errors"][pid] = errs[:3] or ["rc=%d" % rc]
    return out


def main():
    args = sys.argv[1:]
    if args == ["--all"]:
        base = os.path.join(HERE, "seeded")
        args = [os.path.join(base, n) for n in sorted(os.listdir(base)) if os.path.isfile(os.path.join(base, n, "patch.diff"))]
    allres = []
    for d in args:
        r = run_seed(d)
        allres.append(r)
        meta = {}
        try:
            meta = json.load(open(os.path.join(d, "meta.json")))
        except Exception:
            pass
        target = meta.get("property")
        verdict = "CAUGHT" if target in r["fired"] else ("caught-by-other" if r["fired"] else "MISSED")
        print("%s target=%s %s fired=%s errors=%s" % (r["seed"], target, verdict, json.dumps(r["fired"]), json.dumps(r["errors"])))
    return 0


if __name__ == "__main__":
    sys.exit(main())
