#!/usr/bin/env python3
"""Mutation scan of the checkers (development aid, not a registered check).

Generates single-site AST mutants of /repo's library code on scratch copies, runs all twenty
quick checks on each and records which rules fire.  Survivors in property-relevant functions
are the worklist for new rule instances.  usage:

  tools/mutscan.py --out /tmp/mutscan.jsonl [--files a.py,b.py] [--max N] [--jobs 16] [--seed 1]
"""
import argparse
import ast
import copy
import json
import os
import random
import shutil
import subprocess
import sys
import tempfile
from concurrent.futures import ThreadPoolExecutor

HERE = os.path.dirname(os.path.dirname(os.path.abspath(__file__)))
REPO = os.environ.get("VERIF_REPO", "/repo")
FILES = [
    "hypnotoad/core/mesh.py", "hypnotoad/core/equilibrium.py", "hypnotoad/cases/tokamak.py", "hypnotoad/cases/circular.py",
    "hypnotoad/utils/critical.py", "hypnotoad/utils/polygons.py", "hypnotoad/utils/parallel_map.py", "hypnotoad/utils/dct_interpolation.py",
    "hypnotoad/geqdsk/_geqdsk.py", "hypnotoad/geqdsk/_fileutils.py", "hypnotoad/core/multilocationarray.py",
]
WORD_SWAPS = [("lower", "upper"), ("inner", "outer"), ("start", "end"), ("Start", "End"), ("min", "max"), ("sin", "cos"), ("xlow", "ylow"), ("centre", "ylow"),
              ("corners", "xlow"), ("first", "last"), ("left", "right"), ("_R", "_Z"), ("dR", "dZ"), ("nx", "ny"), ("Rxy", "Zxy"), ("ixseps1", "ixseps2"),
              ("jyseps1", "jyseps2"), ("psi_sep[0]", "psi_sep[1]")]


def swap_word(name):
    for a, b in WORD_SWAPS:
        if a in name:
            return name.replace(a, b, 1)
        if b in name:
            return name.replace(b, a, 1)
    return None


def sites(tree):
    """yield (node, kind, description, mutate(node_copy_in_new_tree)) for every mutation site"""
    out = []
    funcs = {}
    for f in ast.walk(tree):
        if isinstance(f, (ast.FunctionDef, ast.AsyncFunctionDef)):
            for n in ast.walk(f):
                funcs.setdefault(id(n), f.name)
    idx = 0
    for n in ast.walk(tree):
        n._mid = idx
        idx += 1
    for n in ast.walk(tree):
        fn = funcs.get(id(n))
        if fn is None:
            continue
        if isinstance(n, ast.BinOp):
            sw = {ast.Add: ast.Sub, ast.Sub: ast.Add, ast.Mult: ast.Div, ast.Div: ast.Mult}.get(type(n.op))
            if sw:
                out.append((n._mid, fn, n.lineno, "binop", "%s -> %s" % (type(n.op).__name__, sw.__name__), ("op", sw)))
        elif isinstance(n, ast.Compare) and len(n.ops) == 1:
            sw = {ast.Lt: ast.LtE, ast.LtE: ast.Lt, ast.Gt: ast.GtE, ast.GtE: ast.Gt, ast.Eq: ast.NotEq, ast.NotEq: ast.Eq, ast.Is: ast.IsNot, ast.IsNot: ast.Is}.get(type(n.ops[0]))
            if sw:
                out.append((n._mid, fn, n.lineno, "cmp", "%s -> %s" % (type(n.ops[0]).__name__, sw.__name__), ("cmp", sw)))
            sw2 = {ast.Lt: ast.Gt, ast.Gt: ast.Lt, ast.LtE: ast.GtE, ast.GtE: ast.LtE}.get(type(n.ops[0]))
            if sw2:
                out.append((n._mid, fn, n.lineno, "cmpflip", "%s -> %s" % (type(n.ops[0]).__name__, sw2.__name__), ("cmp", sw2)))
        elif isinstance(n, ast.Constant) and isinstance(n.value, int) and not isinstance(n.value, bool) and -3 <= n.value <= 8:
            out.append((n._mid, fn, n.lineno, "const", "%d -> %d" % (n.value, n.value + 1), ("const", n.value + 1)))
            if n.value != 0:
                out.append((n._mid, fn, n.lineno, "const", "%d -> %d" % (n.value, n.value - 1), ("const", n.value - 1)))
        elif isinstance(n, ast.UnaryOp) and isinstance(n.op, ast.USub) and not isinstance(n.operand, ast.Constant):
            out.append((n._mid, fn, n.lineno, "neg", "drop unary minus", ("dropneg", None)))
        elif isinstance(n, ast.UnaryOp) and isinstance(n.op, ast.Not):
            out.append((n._mid, fn, n.lineno, "not", "drop not", ("dropneg", None)))
        elif isinstance(n, ast.Name) and isinstance(n.ctx, ast.Load):
            w = swap_word(n.id)
            if w:
                out.append((n._mid, fn, n.lineno, "name", "%s -> %s" % (n.id, w), ("name", w)))
        elif isinstance(n, ast.Attribute) and isinstance(n.ctx, ast.Load):
            w = swap_word(n.attr)
            if w:
                out.append((n._mid, fn, n.lineno, "attr", ".%s -> .%s" % (n.attr, w), ("attr", w)))
        elif isinstance(n, ast.Constant) and isinstance(n.value, str) and 2 < len(n.value) < 30:
            w = swap_word(n.value)
            if w:
                out.append((n._mid, fn, n.lineno, "str", "%r -> %r" % (n.value, w), ("str", w)))
        elif isinstance(n, ast.Call) and len(n.args) >= 2 and all(isinstance(a, (ast.Name, ast.Attribute, ast.Subscript)) for a in n.args[:2]):
            out.append((n._mid, fn, n.lineno, "argswap", "swap first two arguments of %s" % ast.unparse(n.func)[:30], ("argswap", None)))
        elif isinstance(n, ast.Expr) and isinstance(n.value, ast.Call):
            out.append((n._mid, fn, n.lineno, "delcall", "delete statement %s" % ast.unparse(n)[:50], ("delstmt", None)))
        elif isinstance(n, ast.Assign) and isinstance(n.targets[0], (ast.Attribute, ast.Subscript)) and len(n.targets) == 1:
            out.append((n._mid, fn, n.lineno, "delstore", "delete store %s" % ast.unparse(n.targets[0])[:50], ("delstmt", None)))
        elif isinstance(n, ast.Slice):
            if n.lower is not None and n.upper is not None:
                out.append((n._mid, fn, n.lineno, "slice", "swap slice bounds", ("sliceswap", None)))
        elif isinstance(n, ast.If) and n.orelse and not isinstance(n.orelse[0], ast.If):
            out.append((n._mid, fn, n.lineno, "ifswap", "swap if/else arms", ("ifswap", None)))
    return out


class Apply(ast.NodeTransformer):
    def __init__(self, mid, action):
        self.mid, self.action = mid, action
        self.done = False

    def generic_visit(self, node):
        if getattr(node, "_mid", None) == self.mid and not self.done:
            kind, arg = self.action
            self.done = True
            if kind == "op":
                node.op = arg()
            elif kind == "cmp":
                node.ops = [arg()]
            elif kind == "const":
                return ast.copy_location(ast.Constant(value=arg), node)
            elif kind == "dropneg":
                return node.operand
            elif kind == "name":
                node.id = arg
            elif kind == "attr":
                node.attr = arg
            elif kind == "str":
                return ast.copy_location(ast.Constant(value=arg), node)
            elif kind == "argswap":
                node.args[0], node.args[1] = node.args[1], node.args[0]
            elif kind == "delstmt":
                return ast.copy_location(ast.Pass(), node)
            elif kind == "sliceswap":
                node.lower, node.upper = node.upper, node.lower
            elif kind == "ifswap":
                node.body, node.orelse = node.orelse, node.body
            return node
        return super().generic_visit(node)


def run_mutant(rel, src, site):
    mid, fn, lineno, kind, desc, action = site
    tree = ast.parse(src)
    i = 0
    for n in ast.walk(tree):
        n._mid = i
        i += 1
    ap = Apply(mid, action)
    new = ap.visit(tree)
    if not ap.done:
        return None
    try:
        text = ast.unparse(ast.fix_missing_locations(new)) + "\n"
        compile(text, rel, "exec")
    except Exception as e:
        return {"file": rel, "function": fn, "line": lineno, "kind": kind, "desc": desc, "status": "invalid", "why": repr(e)}
    tmp = tempfile.mkdtemp(prefix="hvmut_")
    try:
        for c in ("hypnotoad", "examples", "doc", "integrated_tests", "geqdsk_cdn.yaml", "geqdsk_ldn.yaml", "README.md"):
            s = os.path.join(REPO, c)
            if os.path.isdir(s):
                shutil.copytree(s, os.path.join(tmp, c), ignore=shutil.ignore_patterns("__pycache__", "*.pyc", "*.nc", "*.png", "test_suite"))
            elif os.path.exists(s):
                shutil.copy(s, os.path.join(tmp, c))
        with open(os.path.join(tmp, rel), "w") as f:
            f.write(text)
        env = dict(os.environ, VERIF_REPO=tmp, HV_EVIDENCE_DIR=os.path.join(tmp, "_ev"), HV_NO_SELFTEST="1")
        p = subprocess.run([os.path.join(HERE, "bin", "hv"), "all", "--tier", "quick"], capture_output=True, text=True, env=env, timeout=900, cwd=HERE)
        fired, errors = {}, {}
        for pid in ["C%02d" % k for k in range(1, 21)]:
            try:
                with open(os.path.join(tmp, "_ev", pid + ".json")) as f:
                    ev = json.load(f)
            except Exception:
                errors[pid] = "no evidence"
                continue
            cov = ev.get("coverage", {})
            nv = cov.get("new_violations", [])
            if nv:
                fired[pid] = sorted({v["rule"] for v in nv})
            if cov.get("analysis_errors"):
                errors[pid] = str(cov["analysis_errors"][0])[:120]
        return {"file": rel, "function": fn, "line": lineno, "kind": kind, "desc": desc, "status": "killed" if fired else ("error" if errors else "survived"),
                "fired": fired, "errors": errors}
    finally:
        shutil.rmtree(tmp, ignore_errors=True)


def main():
    ap = argparse.ArgumentParser()
    ap.add_argument("--out", required=True)
    ap.add_argument("--files", default=",".join(FILES))
    ap.add_argument("--max", type=int, default=400)
    ap.add_argument("--jobs", type=int, default=14)
    ap.add_argument("--seed", type=int, default=1)
    ap.add_argument("--functions", default="")
    a = ap.parse_args()
    rnd = random.Random(a.seed)
    work = []
    for rel in a.files.split(","):
        with open(os.path.join(REPO, rel)) as f:
            src = f.read()
        ss = sites(ast.parse(src))
        if a.functions:
            want = set(a.functions.split(","))
            ss = [s for s in ss if s[1] in want]
        for s in ss:
            work.append((rel, src, s))
    rnd.shuffle(work)
    work = work[: a.max]
    print("mutation sites selected: %d" % len(work), flush=True)
    with open(a.out, "a") as out, ThreadPoolExecutor(a.jobs) as ex:
        for r in ex.map(lambda w: run_mutant(*w), work):
            if r is not None:
                out.write(json.dumps(r) + "\n")
                out.flush()


if __name__ == "__main__":
    main()
