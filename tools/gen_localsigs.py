#!/usr/bin/env python3
"""Regenerate reference/locals.json: the local-variable site signatures of every function of
the tree the rules were written against (run on a tree where every check is green).
The runtime pass hv/derename.py uses it to undo pure renames of locals."""
import ast
import json
import os
import sys

HERE = os.path.dirname(os.path.dirname(os.path.abspath(__file__)))
sys.path.insert(0, HERE)
from hv import derename  # noqa: E402
from hv.model import Program, normalise_tree  # noqa: E402

os.environ["HV_NO_DERENAME"] = "1"
prog = Program()
out = {}
for rel, m in sorted(prog.modules.items()):
    tree = normalise_tree(ast.parse(m.source))
    r = derename.reference_of_tree(tree)
    if r:
        out[rel] = r
os.makedirs(os.path.join(HERE, "reference"), exist_ok=True)
with open(os.path.join(HERE, "reference", "locals.json"), "w") as f:
    json.dump(out, f, indent=0, sort_keys=True)
print("functions with locals: %d, locals: %d" % (sum(len(v) for v in out.values()), sum(len(x) for v in out.values() for x in v.values())))

# statement-shape reference (hv/shape.py), on the normalised and de-renamed tree
os.environ.pop("HV_NO_DERENAME", None)
from hv import shape  # noqa: E402
prog2 = Program()
with open(os.path.join(HERE, "reference", "shapes.json"), "w") as f:
    json.dump(shape.build_reference(prog2), f, indent=0, sort_keys=True)
print("shape reference: %d modules, %d functions" % (len(prog2.modules), sum(len(m.funcs) for m in prog2.modules.values())))
