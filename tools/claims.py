CLAIMS = {
}
