CLAIMS = {
 "C02": dict(claimed=True, engine="E3-alg + extract + E4b-locsets",
   technique="algebraic normal-form identities over the extracted metric formulas; location-set dataflow",
   text="Proves, as polynomial identities over the source expressions of the metric method (both arms of `orthogonal`), that g^ij and g_ij are inverse, J=hy/Bpxy with J^2 det(g^ij)=1, the closed forms of the statement, that the two arms agree at beta=0, that g_23 = g_33*hy*(zShift integrand) on every non-raising sign path, and the beta relations; plus a dataflow (E4b) that every metric field has computed data at centre/xlow/ylow. The identities hold for all values of the symbols (any equilibrium, both signs of Bp), which no finite test sample gives. It decides the formulas, not the numbers.",
   note="Trusted: numpy elementwise semantics, MultiLocationArray ufunc protocol as modelled in hv/locsets.py, sign(Bpxy)=bpsign (proved structurally in C03.R4). Not decided: covariant components vs actual displacements, accuracy of beta."),
 "C18": dict(claimed=True, engine="E3-alg + extract",
   technique="formal differentiation of extracted source expressions; structural copy-paste rule",
   text="Proves by formal differentiation that the helper chain (Bzeta, B2, dBzetadR..dBdZ) consists of the exact R/Z derivatives of Bp_R=psi_Z/R, Bp_Z=-psi_R/R, Bzeta=fpol(psi)/R, B2 and sqrt(B2), that div B=0, that each interpolant arm (spline, dct) defines the same nine functions with their defining relations, that DCT_2D's derivative summands are the derivatives of its interpolation summand and its coefficient normalisation is the DCT-II/III inversion, that the per-location fan-out blocks are consistent, and that fpolprime=d fpol/dpsi in all three Equilibrium implementations. Identities cover all psi arrays; tests sample three.",
   note="Trusted: RectBivariateSpline dx/dy semantics, scipy dct type-II default, numpy.clip identity inside the domain. Not decided: interpolation error, node reproduction numerics."),
 "C07": dict(claimed=True, engine="E3-alg + extract + E4b-locsets",
   technique="formal differentiation and algebraic normal form over the extracted curvature formulas",
   text="Proves as identities (both interpolant arms, both values of orthogonal, both sign paths of Bp) that the three local curl components are the cylindrical curl of B/B^2, that curl_x, curl_y, curl_z are its projections on grad psi, the stated grad y and grad z, that |grad y|=1/(hy cosBeta), and bxcv=Bxy/2*curl; for the x-y form only that referenced fields exist and non-orthogonal use is refused.",
   note="Trusted: cylindrical curl formula with d/dzeta=0. Not decided: agreement of the two curvature formulations to discretisation error, smoothing."),
}
