CLAIMS = {
 "C02": dict(claimed=True, engine="E3-alg + extract + E4b-locsets",
   technique="algebraic normal-form identities over the extracted metric formulas; location-set dataflow",
   text="Proves, as polynomial identities over the source expressions of the metric method (both arms of `orthogonal`), that g^ij and g_ij are inverse, J=hy/Bpxy with J^2 det(g^ij)=1, the closed forms of the statement, that the two arms agree at beta=0, that g_23 = g_33*hy*(zShift integrand) on every non-raising sign path, and the beta relations; plus a dataflow (E4b) that every metric field has computed data at centre/xlow/ylow. The identities hold for all values of the symbols (any equilibrium, both signs of Bp), which no finite test sample gives. It decides the formulas, not the numbers.",
   note="Trusted: numpy elementwise semantics, MultiLocationArray ufunc protocol as modelled in hv/locsets.py, sign(Bpxy)=bpsign (proved structurally in C03.R4). Not decided: covariant components vs actual displacements, accuracy of beta."),
}
