#!/usr/bin/env python3
"""Regenerates MANIFEST.json from the table below (claimed checks = modules under hv/props)."""
import json, os
HERE = os.path.dirname(os.path.dirname(os.path.abspath(__file__)))
CLAIMS = {}
exec(open(os.path.join(HERE, "tools", "claims.py")).read())
props = [json.loads(l) for l in open(os.path.join(HERE, "properties.jsonl"))]
checks, na = [], []
for p in props:
    pid = p["id"]
    c = CLAIMS.get(pid)
    if c and c.get("claimed") and os.path.exists(os.path.join(HERE, "hv", "props", pid.lower() + ".py")):
        checks.append({
            "property_id": pid,
            "quick_cmd": "bin/hv %s --tier quick" % pid,
            "thorough_cmd": "bin/hv %s --tier thorough" % pid,
            "evidence_file": "evidence/%s.json" % pid,
            "replay_cmd_template": "bin/hv replay {path}",
            "engine": c["engine"],
            "level_claimed": {"category": "other", "text": c["text"], "design_ref": "DESIGN.md section 2, " + pid},
            "level_note": c["note"],
            "technique": c["technique"],
        })
    else:
        na.append({"property_id": pid, "reason": (c or {}).get("na", "static check not built yet; see DESIGN.md section 2 for the planned structural clauses")})
m = {
    "version": 1,
    "setup_cmd": "/venv/bin/python -B -c \"import ast,sys; sys.path.insert(0,'.'); import hv.main\"",
    "hooks": {"guard": "BOUTPROJECT_HYPNOTOAD_VERIF", "enable": "none needed: the checks parse /repo's sources with ast and never import or run hypnotoad", 
              "baseline_off_cmd": "cd /repo && /venv/bin/python -m pytest -ra -q -p no:cacheprovider --timeout=900 --continue-on-collection-errors",
              "source_commits": [], "add_only": True},
    "engines": [
        {"name": "E1-model", "path": "hv/model.py", "serves_properties": [c["property_id"] for c in checks], "kind_free_text": "AST program model, anchors by observable names"},
        {"name": "E3-alg", "path": "hv/alg.py", "serves_properties": ["C02","C03","C04","C06","C07","C09","C10","C11","C16","C18","C19","C20"], "kind_free_text": "rational-function normal form with formal differentiation (deterministic rewriting, no solver)"},
        {"name": "stores", "path": "hv/stores.py", "serves_properties": ["C01","C05","C08","C09","C10","C11","C12","C15","C17","C19"], "kind_free_text": "guarded effects of a function with the control-flow spelling normalised away (guard clauses, unrolled literal loops, folded names, spliced helpers)"},
        {"name": "elements", "path": "hv/elements.py", "serves_properties": ["C01","C17"], "kind_free_text": "index-aligned element semantics of zip/enumerate/range/comprehension iterables"},
        {"name": "shape", "path": "hv/shape.py", "serves_properties": [c["property_id"] for c in checks], "kind_free_text": "statement-multiset distance of a function to the tree the rule instances were confirmed on; a structural rule failing inside a restructured function is reported undecided (exit 2), never for algebraic residuals"},
        {"name": "extract", "path": "hv/extract.py", "serves_properties": ["C02","C03","C06","C07","C09","C10","C18","C20"], "kind_free_text": "abstract evaluator: conditional constant propagation of source expressions into the E3 domain"},
    ],
    "checks": checks,
    "not_applicable": na,
    "notes": "Static analysis only. Every check reads /repo (or $VERIF_REPO) sources on each run; exit 0/1/2 = holds / violation / analysis error. Known findings: known_findings.json.",
}
json.dump(m, open(os.path.join(HERE, "MANIFEST.json"), "w"), indent=1)
print("checks:", [c["property_id"] for c in checks], "na:", len(na))
