#!/usr/bin/env python3
"""Regenerate reference/obligation_counts.json: the number of obligations each rule of each
check files on the current tree (quick tier).  Run after rule instances were (re-)confirmed by
reading - like tools/gen_localsigs.py.  The run-time comparison is in hv/report.py."""
import json
import os
import subprocess
import sys
import tempfile
from concurrent.futures import ThreadPoolExecutor

HERE = os.path.dirname(os.path.dirname(os.path.abspath(__file__)))


def one(pid, ev):
    env = dict(os.environ, HV_EVIDENCE_DIR=ev, HV_NO_COUNTS="1")
    p = subprocess.run([os.path.join(HERE, "bin", "hv"), pid, "--tier", "quick"], capture_output=True, text=True, env=env, cwd=HERE)
    with open(os.path.join(ev, pid + ".json")) as f:
        cov = json.load(f)["coverage"]
    if p.returncode != 0:
        sys.exit("%s does not pass on this tree (exit %d): counts not regenerated" % (pid, p.returncode))
    return pid, cov["rule_counts"]


def main():
    ev = tempfile.mkdtemp(prefix="hv-counts-")
    with ThreadPoolExecutor(8) as ex:
        res = dict(ex.map(lambda i: one("C%02d" % i, ev), range(1, 21)))
    out = os.path.join(HERE, "reference", "obligation_counts.json")
    with open(out, "w") as f:
        json.dump(res, f, indent=1, sort_keys=True)
    import shutil
    shutil.rmtree(ev, ignore_errors=True)
    print("rules:", sum(len(v) for v in res.values()), "obligations:", sum(sum(v.values()) for v in res.values()))


if __name__ == "__main__":
    main()
