"""F21: the poloidal spacing function of an X.wall leg with both end spacings prescribed is not the
reflection of the function of the mirror-image wall.X leg in the guard cells beyond the wall.

s_Xwall(i) (a_lower, b_lower at the X-point end; b_upper at the wall) must equal
L - s_wallX(N - i) (b_lower at the wall; a_upper, b_upper at the X-point end) for all i, including
the extrapolated guard indices i > N (X.wall) <-> i < 0 (wall.X).  Prints PASS/FAIL."""
import sys, types
import numpy
from hypnotoad.core.equilibrium import EquilibriumRegion

stub = types.SimpleNamespace(user_options=types.SimpleNamespace(sfunc_checktol=1.0e-13))
f = EquilibriumRegion.getSqrtPoloidalDistanceFunc
L, N, N_norm = 1.0, 16, 40
worst = 0.0
for a_x, b_x, b_w in ((0.1, 0.05, 3.0), (0.3, 0.1, 2.0), (0.05, 0.5, 4.0)):
    s_xw = f(stub, L, N, N_norm, a_lower=a_x, b_lower=b_x, b_upper=b_w)            # X-point at i=0, wall at i=N
    s_wx = f(stub, L, N, N_norm, b_lower=b_w, a_upper=a_x, b_upper=b_x)            # wall at i=0, X-point at i=N
    i_in = numpy.linspace(0.0, N, 33)
    i_guard = N + numpy.array([0.5, 1.0, 2.0, 3.0, 4.0])                           # 2 guard cells = 4 half-steps
    e_in = numpy.max(numpy.abs(s_xw(i_in) - (L - s_wx(N - i_in))))
    e_g = numpy.max(numpy.abs(s_xw(i_guard) - (L - s_wx(N - i_guard))))
    print("a_x=%g b_x=%g b_wall=%g: max |s_Xwall(i) - (L - s_wallX(N-i))| interior %.3e, guard cells %.3e" % (a_x, b_x, b_w, e_in, e_g))
    worst = max(worst, e_in, e_g)
print("PASS" if worst < 1e-12 else "FAIL")
sys.exit(0 if worst < 1e-12 else 1)
