#!/usr/bin/env python
"""
C08 demo: the points on an edge shared by two radially adjacent blocks must coincide.

A small, slightly up-down asymmetric *connected* double-null equilibrium is gridded
with a NON-ORTHOGONAL grid (orthogonal=False).  Every poloidal region is split
radially at the separatrix into segment 0 (core / private flux) and segment 1 (SOL).
The separatrix PsiContour is the x-edge shared by the two blocks, so the grid points
that block (name, 0) puts on its last contour must be the same points that block
(name, 1) puts on its first contour.  These are the points that end up in the grid
file as the Rxy/Zxy corner and xlow arrays either side of ixseps1.

Prints PASS and exits 0 if all shared separatrix edges coincide, otherwise prints FAIL
and exits 1.
"""
import io
import sys
import contextlib

import numpy as np

from hypnotoad.cases import tokamak
from hypnotoad.core.mesh import BoutMesh


def make_equilibrium(settings, nonorthogonal_settings):
    nx = 65
    ny = 65

    r1d = np.linspace(1.2, 1.8, nx)
    z1d = np.linspace(-0.5, 0.5, ny)
    r2d, z2d = np.meshgrid(r1d, z1d, indexing="ij")

    r0 = 1.5
    z0 = 0.3

    # Two X-points. The upper one is displaced very slightly, so the two separatrices
    # have slightly different psi (as in any real "connected" double-null
    # equilibrium) and the lower X-point is the primary one.
    def psi_func(R, Z):
        return (
            np.exp(-((R - r0) ** 2 + Z**2) / 0.3**2)
            + np.exp(-((R - r0) ** 2 + (Z + 2 * z0) ** 2) / 0.3**2)
            + np.exp(-((R - r0) ** 2 + (Z - 2 * z0 - 0.002) ** 2) / 0.3**2)
        )

    return tokamak.TokamakEquilibrium(
        r1d,
        z1d,
        psi_func(r2d, z2d),
        psi_func(np.linspace(1.6, 2.0, nx), np.zeros(nx)),  # psi1d
        np.linspace(0.0, 1.0, nx),  # fpol1d
        wall=[(1.25, -0.42), (1.75, -0.42), (1.75, 0.42), (1.25, 0.42)],
        make_regions=True,
        settings=settings,
        nonorthogonal_settings=nonorthogonal_settings,
    )


def main():
    settings = {
        "orthogonal": False,
        "nx_core": 2,
        "nx_pf": 2,
        "nx_sol": 2,
        "nx_inter_sep": 2,
        "ny_inner_divertor": 3,
        "ny_outer_divertor": 3,
        "ny_sol": 8,
        "y_boundary_guards": 0,
        "finecontour_Nfine": 200,
    }

    # Typical (non-default) ranges over which the spacing near the X-points follows the
    # direction of the neighbouring contours' end points
    nonorthogonal_settings = {
        "nonorthogonal_xpoint_poloidal_spacing_range": 0.03,
        "nonorthogonal_xpoint_poloidal_spacing_range_inner": 0.05,
        "nonorthogonal_xpoint_poloidal_spacing_range_outer": 0.05,
    }

    quiet = io.StringIO()
    with contextlib.redirect_stdout(quiet):
        eq = make_equilibrium(settings, nonorthogonal_settings)
        mesh = BoutMesh(eq, settings)
        mesh.calculateRZ()

    print("topology regions:", list(eq.regions))
    print("psi_sep:", list(eq.psi_sep))
    rel = abs((eq.psi_sep[1] - eq.psi_sep[0]) / eq.psi_sep[0])
    print(f"relative difference of the two separatrix psi values: {rel:.3e}")

    tol = 1.0e-6
    worst = 0.0
    ok = True
    for name in eq.regions:
      nseg = len([k for k in mesh.region_lookup if k[0] == name])
      for seg in range(nseg - 1):
        inner = mesh.regions[mesh.region_lookup[(name, seg)]]
        outer = mesh.regions[mesh.region_lookup[(name, seg + 1)]]
        assert inner.connections["outer"] == outer.myID
        dR_c = inner.Rxy.corners[-1, 1:-1] - outer.Rxy.corners[0, 1:-1]
        dZ_c = inner.Zxy.corners[-1, 1:-1] - outer.Zxy.corners[0, 1:-1]
        dR_x = inner.Rxy.xlow[-1, :] - outer.Rxy.xlow[0, :]
        dZ_x = inner.Zxy.xlow[-1, :] - outer.Zxy.xlow[0, :]
        d = max(np.max(np.sqrt(dR_c**2 + dZ_c**2)), np.max(np.sqrt(dR_x**2 + dZ_x**2)))
        worst = max(worst, d)
        status = "ok" if d < tol else "MISMATCH"
        print(f"  {name:22s} segments {seg}|{seg+1} (psi of shared contour {inner.contours[-1].psival:.6f}) max distance = {d:.3e} {status}")
        if d >= tol:
            ok = False

    print(f"largest mismatch on a shared separatrix edge: {worst:.3e} m (tol {tol:.0e})")
    if ok:
        print("PASS")
        return 0
    else:
        print("FAIL")
        return 1


if __name__ == "__main__":
    sys.exit(main())
