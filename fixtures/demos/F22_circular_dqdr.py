"""F22: CircularEquilibrium.dqdr is not the derivative of q for more than one q coefficient, so
d2psi/dr2 (and every second derivative of psi built from it) disagrees with the derivative of
dpsi/dr.  Prints PASS/FAIL."""
import sys, io, contextlib
import numpy as np
from hypnotoad.cases.circular import CircularEquilibrium

worst = 0.0
for coefs in ([3.0], [2.0, 3.0], [1.5, 2.0, 4.0]):
    with contextlib.redirect_stdout(io.StringIO()):
        eq = CircularEquilibrium({"q_coefficients": coefs, "number_of_processors": 1}, {}) if False else None
    # the profile functions only need user_options: build without making regions
    eq = CircularEquilibrium.__new__(CircularEquilibrium)
    eq.user_options = CircularEquilibrium.user_options_factory.create({"q_coefficients": coefs})
    r = np.linspace(0.05, 0.3, 6)
    h = 1e-6
    fd_q = (eq.q(r + h) - eq.q(r - h)) / (2 * h)
    e_q = np.max(np.abs(eq.dqdr(r) - fd_q) / (np.abs(fd_q) + 1e-30)) if len(coefs) > 1 else float(np.max(np.abs(eq.dqdr(r))))
    print("q_coefficients=%s: max relative |dqdr - d q/dr (central difference)| = %.3e" % (coefs, e_q))
    if len(coefs) <= 2:
        fd_p = (eq.dpsidr_r(r + h) - eq.dpsidr_r(r - h)) / (2 * h)
        e_p = np.max(np.abs(eq.d2psidr2_r(r) - fd_p) / np.abs(fd_p))
        print("                   max relative |d2psidr2_r - d(dpsidr_r)/dr|            = %.3e" % e_p)
        worst = max(worst, e_p)
    worst = max(worst, e_q)
print("PASS" if worst < 1e-6 else "FAIL")
sys.exit(0 if worst < 1e-6 else 1)
