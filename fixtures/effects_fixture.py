"""Positive fixture for the zero-count effect rules: every construct below MUST be reported
by hv.effects on every run (a rule matching nothing must not pass vacuously)."""
import numpy

_CACHE = {}
_LIST = []


class Holder:
    shared = []
    counter = 0

    def remember(self, x):
        self.shared.append(x)  # class-level container mutated through self

    def bump(self):
        Holder.counter = Holder.counter + 1  # store to class attribute


def cached(key, value):
    _CACHE[key] = value  # module-level container store
    _LIST.append(value)  # mutating call on module-level container


def uses_global(v):
    global _STATE
    _STATE = v


def default_arg(x, acc=[]):
    acc.append(x)
    return acc


def mutates_input(arr, other):
    arr *= -1.0
    other[0] = 3
    return arr


def fresh_then_mutate(arr):
    arr = arr.copy()
    arr *= -1.0  # fine: arr is a private copy
    return arr


def make_closures(items):
    out = {}
    for k, v in items:
        out[k] = lambda x: x + v  # late binding of v
    return out
