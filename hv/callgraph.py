"""E1 call graph (name-based resolution with a small field-type table).

`self.m()` resolves within the class hierarchy; `<expr>.m()` resolves to every method
named m of the classes the receiver may have according to FIELD_TYPES (confirmed by
reading) or, failing that, of any class in the analysed core modules (over-approximation).
Constructor calls `C(...)` resolve to C.__init__ and are marked as `fresh` edges.
"""
import ast

from .model import dotted, walk_own

CORE = ("hypnotoad/core/mesh.py", "hypnotoad/core/equilibrium.py", "hypnotoad/cases/tokamak.py", "hypnotoad/cases/circular.py", "hypnotoad/cases/torpex.py",
        "hypnotoad/utils/parallel_map.py")
FIELD_TYPES = {
    "meshParent": ["Mesh", "BoutMesh"],
    "equilibriumRegion": ["EquilibriumRegion"],
    "equilibrium": ["Equilibrium", "TokamakEquilibrium", "CircularEquilibrium", "TORPEXMagneticField"],
    "contours": ["PsiContour"],
    "_fine_contour": ["FineContour"],
    "parentContour": ["PsiContour", "EquilibriumRegion"],
    "regions": ["MeshRegion", "EquilibriumRegion"],
}
NAME_TYPES = {"region": ["MeshRegion", "EquilibriumRegion"], "contour": ["PsiContour", "EquilibriumRegion"], "c": ["PsiContour", "EquilibriumRegion"],
              "fine_contour": ["FineContour"], "new_contour": ["PsiContour"], "eq_region": ["EquilibriumRegion"], "next_region": ["MeshRegion"]}


class CallGraph:
    def __init__(self, prog):
        self.prog = prog
        self.funcs = {}
        self.by_name = {}
        self.classes = {}
        for rel in CORE:
            m = prog.modules.get(rel)
            if m is None:
                continue
            for qn, f in m.funcs.items():
                key = rel + "::" + qn
                self.funcs[key] = f
                self.by_name.setdefault(f.name, []).append(key)
            for c, node in m.classes.items():
                self.classes[c.split(".")[-1]] = (m, node)
        self.edges = {}
        self.resolved = 0
        self.unresolved = 0
        for key, f in self.funcs.items():
            self.edges[key] = self._edges(key, f)

    def _bases(self, cname):
        out = [cname]
        ent = self.classes.get(cname)
        if ent:
            for b in ent[1].bases:
                bn = b.id if isinstance(b, ast.Name) else getattr(b, "attr", None)
                if bn:
                    out += self._bases(bn)
        return out

    def _subclasses(self, cname):
        out = [cname]
        for c, (m, node) in self.classes.items():
            for b in node.bases:
                bn = b.id if isinstance(b, ast.Name) else getattr(b, "attr", None)
                if bn == cname:
                    out += self._subclasses(c)
        return out

    def _methods_of(self, classes, name):
        out = []
        for c in classes:
            for cc in set(self._bases(c) + self._subclasses(c)):
                for key in self.by_name.get(name, []):
                    f = self.funcs[key]
                    if f.cls and f.cls.split(".")[-1] == cc and f.qualname == f.cls + "." + name:
                        out.append(key)
        return sorted(set(out))

    def _edges(self, key, f):
        out = []
        nodes = list(walk_own(f.node))
        # nested functions/lambdas run as part of their parent for reachability purposes
        for n in ast.walk(f.node):
            if isinstance(n, ast.Call):
                tgt = self.resolve(f, n)
                out.extend(tgt)
        return sorted(set(out))

    def resolve(self, f, call):
        fn = call.func
        res = []
        if isinstance(fn, ast.Name):
            nm = fn.id
            if nm in self.classes:
                for k in self._methods_of([nm], "__init__"):
                    res.append((k, "fresh"))
            else:
                for k in self.by_name.get(nm, []):
                    g = self.funcs[k]
                    if g.cls is None and (g.parent is None or g.parent is f or g.module is f.module):
                        res.append((k, "call"))
            # functions passed as values to parallel_map / func_timeout are called
        elif isinstance(fn, ast.Attribute):
            nm = fn.attr
            recv = fn.value
            classes = None
            if isinstance(recv, ast.Name) and recv.id == "self" and f.cls:
                classes = [f.cls.split(".")[-1]]
            elif isinstance(recv, ast.Call) and isinstance(recv.func, ast.Name) and recv.func.id == "super" and f.cls:
                classes = self._bases(f.cls.split(".")[-1])[1:]
            elif isinstance(recv, ast.Attribute) and recv.attr in FIELD_TYPES:
                classes = FIELD_TYPES[recv.attr]
            elif isinstance(recv, ast.Subscript) and isinstance(recv.value, ast.Attribute) and recv.value.attr in FIELD_TYPES:
                classes = FIELD_TYPES[recv.value.attr]
            elif isinstance(recv, ast.Name) and recv.id in NAME_TYPES:
                classes = NAME_TYPES[recv.id]
            elif isinstance(recv, ast.Name) and recv.id in self.classes:
                classes = [recv.id]
            if classes is not None:
                ks = self._methods_of(classes, nm)
            else:
                ks = [k for k in self.by_name.get(nm, []) if self.funcs[k].cls]
            for k in ks:
                res.append((k, "call"))
        # function values as arguments (parallel_map(F, ...), func_timeout(t, F, ...))
        for a in list(call.args) + [k.value for k in call.keywords]:
            d = dotted(a)
            if d and "." in d and d.split(".")[0] in self.classes:
                for k in self._methods_of([d.split(".")[0]], d.split(".")[1]):
                    res.append((k, "call"))
            elif isinstance(a, ast.Name):
                for k in self.by_name.get(a.id, []):
                    g = self.funcs[k]
                    if g.cls is None and g.module is f.module:
                        res.append((k, "call"))
        if res:
            self.resolved += 1
        else:
            self.unresolved += 1
        return res

    def reachable(self, roots, through_fresh=False):
        """keys reachable from roots; constructor edges are followed only when asked"""
        seen = set()
        stack = list(roots)
        while stack:
            k = stack.pop()
            if k in seen or k not in self.edges:
                continue
            seen.add(k)
            for (t, kind) in self.edges[k]:
                if kind == "fresh" and not through_fresh:
                    continue
                stack.append(t)
        return seen

    def key(self, rel, qualname):
        return rel + "::" + qualname
