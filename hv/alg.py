"""E3: exact rational-function normal form with formal differentiation.

Values are rational functions num/den with num, den polynomials over Q in *atoms*.
Atoms are named leaves or applied functions (sqrt, abs, exp, log, sin, cos, erf, sign,
and opaque user functions such as psi(R,Z)) interned by the normal form of their
arguments.  Zero-testing is by canonical polynomial form of the numerator modulo a table
of power-rewrite relations (atom**p -> replacement).  No search, no solver: deterministic
rewriting only.

Pure stdlib.
"""
from fractions import Fraction
import itertools
import math


class AlgError(Exception):
    """Construct not representable in the domain -> ANALYSIS-ERROR for the obligation."""


# ---------------------------------------------------------------------------------
# Atoms
# ---------------------------------------------------------------------------------
class Atom:
    __slots__ = ("id", "name", "fname", "args", "meta")

    def __init__(self, id, name, fname=None, args=(), meta=None):
        self.id = id
        self.name = name
        self.fname = fname
        self.args = args
        self.meta = meta

    def __repr__(self):
        return self.name


class Context:
    """Owns the atom table, derivative declarations and rewrite relations."""

    def __init__(self):
        self.atoms = []
        self._leaf = {}
        self._func = {}  # fname -> list of atoms
        # derivative declarations for leaves: leaf name -> {var name: Rat or callable}
        self.leaf_deriv = {}
        # derivative declarations for opaque functions:
        #   fname -> tuple of partial-derivative function names (one per argument)
        self.func_partials = {}
        # relations: atom id -> (power p, replacement Rat)
        self.relations = {}
        self.relation_notes = []
        # parity declarations for opaque function names (used by C16)
        self.func_meta = {}

    # -- atoms -------------------------------------------------------------------
    def leaf(self, name):
        a = self._leaf.get(name)
        if a is None:
            a = Atom(len(self.atoms), name)
            self.atoms.append(a)
            self._leaf[name] = a
        return a

    def sym(self, name):
        return Rat.from_atom(self, self.leaf(name))

    def func_atom(self, fname, args):
        """Intern f(args) semantically: equal arguments (zero-tested) give the same atom."""
        args = tuple(args)
        for a in self._func.get(fname, ()):
            if len(a.args) == len(args) and all(
                (x - y).is_zero() for x, y in zip(a.args, args)
            ):
                return a
        nm = "%s(%s)" % (fname, ", ".join(x.show() for x in args))
        a = Atom(len(self.atoms), nm, fname, args)
        self.atoms.append(a)
        self._func.setdefault(fname, []).append(a)
        return a

    def const(self, v):
        return Rat.const(self, v)

    # -- relations ---------------------------------------------------------------
    def add_relation(self, atom, power, replacement, note):
        """atom**power == replacement (a Rat not containing atom at >= power)."""
        if isinstance(atom, Rat):
            atom = atom.as_atom()
        self.relations[atom.id] = (power, replacement)
        self.relation_notes.append("%s**%d -> %s  [%s]" % (atom.name, power, replacement.show(), note))

    def declare_leaf_deriv(self, leaf_name, var_name, value):
        self.leaf_deriv.setdefault(leaf_name, {})[var_name] = value

    def declare_func(self, fname, partial_names):
        self.func_partials[fname] = tuple(partial_names)

    # -- builtin function constructors with rewrite rules --------------------------
    def call(self, fname, *args):
        args = [self.rat(a) for a in args]
        h = getattr(self, "_f_" + fname, None)
        if h is not None:
            return h(*args)
        return Rat.from_atom(self, self.func_atom(fname, args))

    def rat(self, v):
        if isinstance(v, Rat):
            return v
        if isinstance(v, bool) or not isinstance(v, (int, float, Fraction)):
            raise AlgError("non-numeric value %r" % (v,))
        return Rat.const(self, v)

    def _f_sqrt(self, u):
        c = u.as_const()
        if c is not None:
            if c < 0:
                raise AlgError("sqrt of negative constant")
            r = _exact_sqrt(c)
            if r is not None:
                return self.const(r)
        if u.num:
            lm = _lead(u.num)
            cc = abs(u.num[lm])
            if cc != 1:
                r = _exact_sqrt(cc)
                if r is not None:
                    return self._f_sqrt(u / cc) * r
        # sqrt(v**2 * w) is NOT simplified (sign of v unknown) except for perfect
        # square monomials of atoms declared positive -- not needed; keep atom.
        # sqrt(n/d) = sqrt(n*d)/|d| needs a sign too, so keep the argument whole.
        a = self.func_atom("sqrt", [u])
        if a.id not in self.relations:
            self.relations[a.id] = (2, u)
        return Rat.from_atom(self, a)

    def _f_abs(self, u):
        c = u.as_const()
        if c is not None:
            return self.const(abs(c))
        # abs(-u) == abs(u): normalise sign by leading coefficient
        if u.leading_sign() < 0:
            u = -u
        a = self.func_atom("abs", [u])
        if a.id not in self.relations:
            self.relations[a.id] = (2, u * u)
        return Rat.from_atom(self, a)

    def _f_sign(self, u):
        c = u.as_const()
        if c is not None:
            return self.const((c > 0) - (c < 0))
        neg = u.leading_sign() < 0
        if neg:
            u = -u
        a = self.func_atom("sign", [u])
        if a.id not in self.relations:
            self.relations[a.id] = (2, self.const(1))
        r = Rat.from_atom(self, a)
        return -r if neg else r

    def _f_exp(self, u):
        if u.is_zero():
            return self.const(1)
        return Rat.from_atom(self, self.func_atom("exp", [u]))

    def _f_log(self, u):
        if (u - self.const(1)).is_zero():
            return self.const(0)
        # log(1/v) = -log(v): keep the orientation whose numerator is the larger polynomial
        n, d = u.num, u.den
        def key(p):
            items = sorted(p.items())
            s0 = 1 if items[0][1] > 0 else -1
            return (len(p), [m for m, _ in items], [s0 * (1 if c > 0 else -1) for _, c in items])

        flip = key(n) < key(d)
        if flip:
            return -self._f_log(u.inv())
        return Rat.from_atom(self, self.func_atom("log", [u]))

    def _f_erf(self, u):
        if u.is_zero():
            return self.const(0)
        if u.leading_sign() < 0:
            return -Rat.from_atom(self, self.func_atom("erf", [-u]))
        return Rat.from_atom(self, self.func_atom("erf", [u]))

    def _trig_special(self, u):
        """If u == q*pi with q rational return q else None."""
        pi = self.leaf("pi")
        q = u / Rat.from_atom(self, pi)
        return q.as_const()

    def _pi_shift(self, u):
        """u = v + k*pi with v syntactically smaller: return (v, k) else (u, 0)"""
        if "pi" not in self._leaf:
            return u, 0
        pi = Rat.from_atom(self, self._leaf["pi"])
        best = (u, 0)
        for k in (1, -1, 2, -2):
            v = u - k * pi
            if len(v.num) < len(best[0].num):
                best = (v, k)
        return best

    def _f_sin(self, u):
        if u.is_zero():
            return self.const(0)
        v, k = self._pi_shift(u)
        if k:
            r = self._f_sin(v)
            return -r if k % 2 else r
        q = self._trig_special(u)
        if q is not None:
            q2 = (q * 2) % 4
            tab = {0: 0, 1: 1, 2: 0, 3: -1}
            if q2 in tab:
                return self.const(tab[q2])
        if u.leading_sign() < 0:
            return -Rat.from_atom(self, self.func_atom("sin", [-u]))
        return Rat.from_atom(self, self.func_atom("sin", [u]))

    def _f_cos(self, u):
        if u.is_zero():
            return self.const(1)
        v, k = self._pi_shift(u)
        if k:
            r = self._f_cos(v)
            return -r if k % 2 else r
        q = self._trig_special(u)
        if q is not None:
            q2 = (q * 2) % 4
            tab = {0: 1, 1: 0, 2: -1, 3: 0}
            if q2 in tab:
                return self.const(tab[q2])
        if u.leading_sign() < 0:
            u = -u
        a = self.func_atom("cos", [u])
        if a.id not in self.relations:
            s = self._f_sin(u)
            self.relations[a.id] = (2, self.const(1) - s * s)  # cos^2 = 1 - sin^2
        return Rat.from_atom(self, a)

    def _f_tan(self, u):
        return self._f_sin(u) / self._f_cos(u)

    def _f_Si(self, u):
        if u.is_zero():
            return self.const(0)
        if u.leading_sign() < 0:
            return -Rat.from_atom(self, self.func_atom("Si", [-u]))
        return Rat.from_atom(self, self.func_atom("Si", [u]))

    def _f_Ci(self, u):
        if u.leading_sign() < 0:
            u = -u
        return Rat.from_atom(self, self.func_atom("Ci", [u]))

    def add_trig_relation(self, u):
        """cos(u)**2 -> 1 - sin(u)**2 for the given argument."""
        c = self._f_cos(u)
        s = self._f_sin(u)
        self.add_relation(c.as_atom(), 2, self.const(1) - s * s, "pythagoras")


def _exact_sqrt(c):
    c = Fraction(c)
    n, d = c.numerator, c.denominator
    rn, rd = math.isqrt(n), math.isqrt(d)
    if rn * rn == n and rd * rd == d:
        return Fraction(rn, rd)
    return None


# ---------------------------------------------------------------------------------
# Polynomials: dict monomial -> Fraction ; monomial = tuple of (atom_id, exp>0) sorted
# ---------------------------------------------------------------------------------
def _pzero():
    return {}


def _pone():
    return {(): Fraction(1)}


def _pconst(c):
    c = Fraction(c)
    return {(): c} if c else {}


def _poly_const(p):
    if not p:
        return Fraction(0)
    if len(p) == 1 and () in p:
        return p[()]
    return None


def _mmul(a, b):
    if not a:
        return b
    if not b:
        return a
    d = dict(a)
    for k, e in b:
        d[k] = d.get(k, 0) + e
    return tuple(sorted(d.items()))


def _padd(p, q, sign=1):
    r = dict(p)
    for m, c in q.items():
        v = r.get(m, 0) + sign * c
        if v:
            r[m] = v
        else:
            r.pop(m, None)
    return r


def _pmul(p, q):
    if len(p) < len(q):
        p, q = q, p
    r = {}
    for m1, c1 in q.items():
        for m2, c2 in p.items():
            m = _mmul(m1, m2)
            v = r.get(m, 0) + c1 * c2
            if v:
                r[m] = v
            else:
                r.pop(m, None)
    return r


def _pscale(p, c):
    if not c:
        return {}
    return {m: v * c for m, v in p.items()}


def _ppow(p, n):
    r = _pone()
    b = p
    while n:
        if n & 1:
            r = _pmul(r, b)
        n >>= 1
        if n:
            b = _pmul(b, b)
    return r


def _peq(p, q):
    return p == q


def _mono_gcd(p):
    """gcd monomial of all terms of p (as dict atom->exp)."""
    it = iter(p)
    try:
        first = next(it)
    except StopIteration:
        return {}
    g = dict(first)
    for m in it:
        if not g:
            break
        dm = dict(m)
        for k in list(g):
            e = min(g[k], dm.get(k, 0))
            if e:
                g[k] = e
            else:
                del g[k]
    return g


def _mono_div(p, g):
    """divide every monomial of p by monomial g (dict), assumed to divide."""
    if not g:
        return p
    r = {}
    for m, c in p.items():
        d = dict(m)
        for k, e in g.items():
            ne = d[k] - e
            if ne:
                d[k] = ne
            else:
                del d[k]
        r[tuple(sorted(d.items()))] = c
    return r


def _lead(p):
    """leading monomial under a fixed total order (graded lex on sorted tuples)."""
    return max(p, key=lambda m: (sum(e for _, e in m), m))


def _mono_divides(a, b):
    """does monomial b divide a ? return quotient or None"""
    d = dict(a)
    for k, e in b:
        v = d.get(k, 0) - e
        if v < 0:
            return None
        if v:
            d[k] = v
        else:
            del d[k]
    return tuple(sorted(d.items()))


def _pdiv_exact(p, d, limit=20000):
    """exact multivariate division p/d or None. Uses lex order (a true monomial order)."""
    if not d:
        return None
    if not p:
        return {}

    def key(m):
        return m  # tuples of (id,exp) sorted by id: compare lexicographically on padded

    # use lex order on exponent vectors over the union of variables
    vars_ = sorted({k for m in list(p) + list(d) for k, _ in m})
    idx = {v: i for i, v in enumerate(vars_)}

    def vec(m):
        v = [0] * len(vars_)
        for k, e in m:
            v[idx[k]] = e
        return tuple(v)

    dl = max(d, key=vec)
    dlc = d[dl]
    q = {}
    rem = dict(p)
    steps = 0
    while rem:
        steps += 1
        if steps > limit:
            return None
        lm = max(rem, key=vec)
        t = _mono_divides(lm, dl)
        if t is None:
            return None
        c = rem[lm] / dlc
        q[t] = q.get(t, 0) + c
        sub = {_mmul(t, m): c * v for m, v in d.items()}
        rem = _padd(rem, sub, -1)
    return q


# ---------------------------------------------------------------------------------
# Rational functions
# ---------------------------------------------------------------------------------
class Rat:
    __slots__ = ("ctx", "num", "den")

    def __init__(self, ctx, num, den, normalise=True):
        self.ctx = ctx
        if not den:
            raise AlgError("division by zero polynomial")
        if normalise:
            num, den = _normalise(num, den)
        self.num = num
        self.den = den

    # -- constructors --------------------------------------------------------------
    @staticmethod
    def const(ctx, v):
        if isinstance(v, float):
            v = Fraction(v)  # exact binary value
            # prefer the short decimal the source literal meant
            v2 = Fraction(repr(float(v)))
            if float(v2) == float(v):
                v = v2
        return Rat(ctx, _pconst(Fraction(v)), _pone(), False)

    @staticmethod
    def from_atom(ctx, atom):
        return Rat(ctx, {((atom.id, 1),): Fraction(1)}, _pone(), False)

    # -- inspection ----------------------------------------------------------------
    def as_const(self):
        cn = _poly_const(self.num)
        cd = _poly_const(self.den)
        if cn is not None and cd is not None:
            return cn / cd
        z = self.reduced()
        cn = _poly_const(z.num)
        cd = _poly_const(z.den)
        if cn is not None and cd is not None:
            return cn / cd
        return None

    def as_atom(self):
        if _poly_const(self.den) == 1 and len(self.num) == 1:
            (m, c), = self.num.items()
            if c == 1 and len(m) == 1 and m[0][1] == 1:
                return self.ctx.atoms[m[0][0]]
        raise AlgError("not a bare atom: " + self.show())

    def leading_sign(self):
        if not self.num:
            return 0
        m = _lead(self.num)
        s = 1 if self.num[m] > 0 else -1
        md = _lead(self.den)
        return s if self.den[md] > 0 else -s

    def atoms(self):
        ids = set()
        for p in (self.num, self.den):
            for m in p:
                for k, _ in m:
                    ids.add(k)
        return [self.ctx.atoms[i] for i in sorted(ids)]

    def all_atoms(self):
        """atoms including those nested in function arguments"""
        seen = {}
        stack = list(self.atoms())
        while stack:
            a = stack.pop()
            if a.id in seen:
                continue
            seen[a.id] = a
            for x in a.args:
                stack.extend(x.atoms())
        return list(seen.values())

    # -- arithmetic ----------------------------------------------------------------
    def _coerce(self, o):
        if isinstance(o, Rat):
            return o
        if isinstance(o, (int, float, Fraction)):
            return Rat.const(self.ctx, o)
        return NotImplemented

    def __add__(self, o):
        o = self._coerce(o)
        if o is NotImplemented:
            return o
        if self.den == o.den:
            return Rat(self.ctx, _padd(self.num, o.num), self.den)
        # try: one denominator divides the other
        if len(self.den) >= len(o.den):
            q = _pdiv_exact(self.den, o.den)
            if q is not None:
                return Rat(self.ctx, _padd(self.num, _pmul(o.num, q)), self.den)
        else:
            q = _pdiv_exact(o.den, self.den)
            if q is not None:
                return Rat(self.ctx, _padd(_pmul(self.num, q), o.num), o.den)
        # cancel the monomial gcd of the two denominators
        return Rat(
            self.ctx,
            _padd(_pmul(self.num, o.den), _pmul(o.num, self.den)),
            _pmul(self.den, o.den),
        )

    __radd__ = __add__

    def __neg__(self):
        return Rat(self.ctx, _pscale(self.num, -1), self.den, False)

    def __sub__(self, o):
        o = self._coerce(o)
        if o is NotImplemented:
            return o
        return self + (-o)

    def __rsub__(self, o):
        return (-self) + o

    def __mul__(self, o):
        o = self._coerce(o)
        if o is NotImplemented:
            return o
        return Rat(self.ctx, _pmul(self.num, o.num), _pmul(self.den, o.den))

    __rmul__ = __mul__

    def inv(self):
        if not self.num:
            raise AlgError("division by zero")
        return Rat(self.ctx, self.den, self.num)

    def __truediv__(self, o):
        o = self._coerce(o)
        if o is NotImplemented:
            return o
        return self * o.inv()

    def __rtruediv__(self, o):
        return self._coerce(o) * self.inv()

    def __pow__(self, n):
        if isinstance(n, Rat):
            c = n.as_const()
            if c is None:
                raise AlgError("symbolic exponent: " + n.show())
            n = c
        n = Fraction(n)
        if n.denominator == 1:
            n = int(n)
            if n >= 0:
                return Rat(self.ctx, _ppow(self.num, n), _ppow(self.den, n))
            return Rat(self.ctx, _ppow(self.den, -n), _ppow(self.num, -n))
        if n.denominator == 2:
            s = self.ctx._f_sqrt(self)
            return s ** n.numerator
        raise AlgError("unsupported exponent %s" % n)

    # -- normal form / zero test -----------------------------------------------------
    def reduced(self):
        """apply the context's relations to numerator and denominator."""
        num, mult_n = _reduce_poly(self.ctx, self.num)
        den, mult_d = _reduce_poly(self.ctx, self.den)
        if not den:
            raise AlgError("denominator vanishes modulo relations")
        r = Rat(self.ctx, num, den)
        if mult_d is not None:
            r = r * mult_d
        if mult_n is not None:
            r = r / mult_n
        return r

    def is_zero(self):
        if not self.num:
            return True
        num, _ = _reduce_poly(self.ctx, self.num, need_mult=False)
        return not num

    def equals(self, o):
        return (self - o).is_zero()

    def residual(self):
        """reduced numerator of self as printable string (for reports)."""
        num, _ = _reduce_poly(self.ctx, self.num, need_mult=False)
        return _show_poly(self.ctx, num)

    # -- substitution ----------------------------------------------------------------
    def subs(self, mapping):
        """mapping: {Atom or leaf name: Rat}. Substitutes also inside function args."""
        ctx = self.ctx
        m2 = {}
        for k, v in mapping.items():
            if isinstance(k, str):
                k = ctx.leaf(k)
            elif isinstance(k, Rat):
                k = k.as_atom()
            m2[k.id] = ctx.rat(v)
        cache = {}
        return _subs(self, m2, cache)

    # -- differentiation -------------------------------------------------------------
    def diff(self, var):
        """formal derivative wrt leaf `var` (name or Rat/Atom)."""
        if isinstance(var, Rat):
            var = var.as_atom()
        if isinstance(var, Atom):
            var = var.name
        cache = {}
        dn = _dpoly(self.ctx, self.num, var, cache)
        dd = _dpoly(self.ctx, self.den, var, cache)
        N = Rat(self.ctx, self.num, _pone(), False)
        Dn = Rat(self.ctx, self.den, _pone(), False)
        return (dn * Dn - N * dd) / (Dn * Dn)

    # -- printing --------------------------------------------------------------------
    def show(self, limit=400):
        n = _show_poly(self.ctx, self.num)
        if _poly_const(self.den) == 1:
            s = n
        else:
            d = _show_poly(self.ctx, self.den)
            if len(self.num) > 1:
                n = "(" + n + ")"
            if len(self.den) > 1 or "*" in d:
                d = "(" + d + ")"
            s = n + "/" + d
        if len(s) > limit:
            s = s[: limit - 3] + "..."
        return s

    __repr__ = show


def _normalise(num, den):
    if not num:
        return {}, _pone()
    # sign / content: make the leading coefficient of den equal to 1
    lm = _lead(den)
    c = den[lm]
    if c != 1:
        num = _pscale(num, 1 / c)
        den = _pscale(den, 1 / c)
    cd = _poly_const(den)
    if cd is not None:
        return num, den
    # cancel common monomial factor
    gn = _mono_gcd(num)
    gd = _mono_gcd(den)
    if gn and gd:
        g = {k: min(e, gd[k]) for k, e in gn.items() if k in gd}
        if g:
            num = _mono_div(num, g)
            den = _mono_div(den, g)
    if num == den:
        return _pone(), _pone()
    # opportunistic exact cancellation
    if len(den) > 1 and len(num) >= len(den) and len(den) <= 60 and len(num) <= 4000:
        q = _pdiv_exact(num, den)
        if q is not None:
            return q, _pone()
    elif len(num) > 1 and len(den) > len(num) and len(num) <= 60 and len(den) <= 4000:
        q = _pdiv_exact(den, num)
        if q is not None:
            lm = _lead(q)
            c = q[lm]
            return _pconst(1 / c), _pscale(q, 1 / c)
    return num, den


def _reduce_poly(ctx, p, need_mult=True):
    """Rewrite p modulo relations atom**k -> repl.  Returns (poly, mult) such that
    p * mult == poly modulo the relations, where mult is a Rat (or None == 1) that is a
    product of replacement denominators (assumed non-zero)."""
    mult = None
    rel = ctx.relations
    if not rel:
        return p, None
    for _ in range(200):
        # find an atom with a relation whose exponent reaches the relation power
        target = None
        for m in p:
            for k, e in m:
                r = rel.get(k)
                if r is not None and e >= r[0]:
                    target = k
                    break
            if target is not None:
                break
        if target is None:
            return p, mult
        power, repl = rel[target]
        # p = sum_j a^j * c_j  ; replace a^(power*q + r) by repl^q a^r
        maxq = 0
        groups = {}
        for m, c in p.items():
            e = 0
            rest = []
            for k, ee in m:
                if k == target:
                    e = ee
                else:
                    rest.append((k, ee))
            q, r = divmod(e, power)
            maxq = max(maxq, q)
            if r:
                rest.append((target, r))
                rest.sort()
            groups.setdefault(q, {})
            mm = tuple(rest)
            groups[q][mm] = groups[q].get(mm, 0) + c
        # multiply through by repl.den**maxq
        rn = repl.num
        rd = repl.den
        newp = {}
        for q, g in groups.items():
            term = _pmul(g, _pmul(_ppow(rn, q), _ppow(rd, maxq - q)))
            newp = _padd(newp, term)
        if need_mult and _poly_const(rd) != 1:
            f = Rat(ctx, _ppow(rd, maxq), _pone(), False)
            mult = f if mult is None else mult * f
        p = newp
        if not p:
            return p, mult
    raise AlgError("relation rewriting did not terminate")


def _subs(r, m2, cache):
    ctx = r.ctx

    def atom_value(aid):
        if aid in cache:
            return cache[aid]
        if aid in m2:
            v = m2[aid]
        else:
            a = ctx.atoms[aid]
            if a.fname is not None:
                newargs = [_subs(x, m2, cache) for x in a.args]
                if all(n is o or (n.num == o.num and n.den == o.den) for n, o in zip(newargs, a.args)):
                    v = Rat.from_atom(ctx, a)
                else:
                    v = ctx.call(a.fname, *newargs)
            else:
                v = Rat.from_atom(ctx, a)
        cache[aid] = v
        return v

    def poly(p):
        total = Rat.const(ctx, 0)
        # group: evaluate each monomial
        for m, c in p.items():
            t = Rat.const(ctx, c)
            for k, e in m:
                t = t * (atom_value(k) ** e)
            total = total + t
        return total

    touched = False
    for p in (r.num, r.den):
        for m in p:
            for k, _ in m:
                if k in m2 or ctx.atoms[k].fname is not None:
                    touched = True
    if not touched:
        return r
    return poly(r.num) / poly(r.den)


def _datom(ctx, a, var, cache):
    key = a.id
    if key in cache:
        return cache[key]
    if a.fname is None:
        if a.name == var:
            v = ctx.const(1)
        else:
            d = ctx.leaf_deriv.get(a.name, {}).get(var)
            if d is None:
                v = ctx.const(0)
            elif callable(d):
                v = d()
            else:
                v = d
    else:
        f = a.fname
        u = a.args[0] if a.args else None
        if f == "sqrt":
            v = u.diff(var) / (2 * Rat.from_atom(ctx, a))
        elif f == "abs":
            v = u.diff(var) * ctx._f_sign(u)
        elif f == "sign":
            v = ctx.const(0)
        elif f == "exp":
            v = u.diff(var) * Rat.from_atom(ctx, a)
        elif f == "log":
            v = u.diff(var) / u
        elif f == "sin":
            v = u.diff(var) * ctx._f_cos(u)
        elif f == "cos":
            v = -u.diff(var) * ctx._f_sin(u)
        elif f == "erf":
            # 2/sqrt(pi) exp(-u^2)
            spi = ctx._f_sqrt(ctx.sym("pi"))
            v = u.diff(var) * 2 / spi * ctx._f_exp(-(u * u))
        elif f == "Si":
            v = u.diff(var) * ctx._f_sin(u) / u
        elif f == "Ci":
            v = u.diff(var) * ctx._f_cos(u) / u
        elif f in ctx.func_partials:
            parts = ctx.func_partials[f]
            v = ctx.const(0)
            for pn, arg in zip(parts, a.args):
                da = arg.diff(var)
                if da.is_zero():
                    continue
                if pn is None:
                    raise AlgError("no partial derivative declared for %s" % f)
                v = v + ctx.call(pn, *a.args) * da
        else:
            # opaque: zero only if no argument depends on var
            if all(x.diff(var).is_zero() for x in a.args):
                v = ctx.const(0)
            else:
                raise AlgError("derivative of opaque function %s" % a.name)
    cache[key] = v
    return v


def _dpoly(ctx, p, var, cache):
    total = Rat.const(ctx, 0)
    for m, c in p.items():
        for i, (k, e) in enumerate(m):
            da = _datom(ctx, ctx.atoms[k], var, cache)
            if not da.num:
                continue
            rest = list(m)
            if e == 1:
                del rest[i]
            else:
                rest[i] = (k, e - 1)
            total = total + Rat(ctx, {tuple(rest): c * e}, _pone(), False) * da
    return total


def _show_poly(ctx, p, maxterms=12):
    if not p:
        return "0"
    terms = []
    items = sorted(p.items(), key=lambda kv: (sum(e for _, e in kv[0]), kv[0]))
    for m, c in items[:maxterms]:
        fs = []
        for k, e in m:
            nm = ctx.atoms[k].name
            fs.append(nm if e == 1 else "%s**%d" % (nm, e))
        body = "*".join(fs)
        if not body:
            terms.append(str(c))
        elif c == 1:
            terms.append(body)
        elif c == -1:
            terms.append("-" + body)
        else:
            terms.append("%s*%s" % (c, body))
    s = " + ".join(terms).replace("+ -", "- ")
    if len(items) > maxterms:
        s += " + ...(%d terms)" % len(items)
    return s



def radical_rewrite(ctx, r, bases):
    """rewrite every sqrt atom of r whose argument is (constant) * product of powers of the given
    base polynomials as the same product of the bases' own square roots.
    bases: [(polynomial Rat b, Rat standing for sqrt(b))]; each must be positive on the domain
    of interest (stated by the caller as an assumption).  Atoms that do not factor are left."""
    one = ctx.const(1)
    mapping = {}
    for a in r.all_atoms():
        if a.fname != "sqrt":
            continue
        arg = a.args[0]
        rep = one
        ok = True
        for part, sign in ((Rat(ctx, arg.num, one.num, False), 1), (Rat(ctx, arg.den, one.num, False), -1)):
            cur = part
            for b, sb in bases:
                while True:
                    q = cur / b
                    if len(q.den) == 1 and next(iter(q.den)) == ():
                        cur = q
                        rep = rep * (sb if sign > 0 else 1 / sb)
                    else:
                        break
            c = cur.as_const()
            if c is None or c <= 0:
                ok = False
                break
            if c != 1:
                rep = rep * (ctx.call("sqrt", ctx.const(c)) if sign > 0 else 1 / ctx.call("sqrt", ctx.const(c)))
        if ok:
            mapping[a] = rep
    return r.subs(mapping) if mapping else r
