"""E1: program model of /repo (AST only; hypnotoad is never imported)."""
import ast
import glob
import os

from .report import AnalysisError

EXCLUDE_DIRS = ("test_suite",)
EXCLUDE_FILES = (
    "__version__.py",
    "hypnotoad_mainWindow.py",
    "hypnotoad_preferences.py",
)


def repo_root():
    return os.environ.get("VERIF_REPO", "/repo")


class Func:
    """a function/method definition with its qualified name"""

    def __init__(self, module, qualname, node, cls=None, parent=None):
        self.module = module
        self.qualname = qualname
        self.node = node
        self.cls = cls
        self.parent = parent

    @property
    def name(self):
        return self.node.name

    def site(self, node=None):
        n = node if node is not None else self.node
        return "%s:%d (%s)" % (self.module.rel, getattr(n, "lineno", 0), self.qualname)

    def __repr__(self):
        return "<Func %s:%s>" % (self.module.rel, self.qualname)


class Module:
    def __init__(self, root, path):
        self.path = path
        self.rel = os.path.relpath(path, root)
        with open(path) as f:
            self.source = f.read()
        self.tree = normalise_tree(ast.parse(self.source, filename=path))
        self.derenamed = []
        if not os.environ.get("HV_NO_DERENAME"):
            from . import derename
            try:
                derename.derename_tree(self.tree, self.rel, self.derenamed)
                if self.derenamed and not os.environ.get("HV_NO_OPORDER"):
                    # the text order of ==/!= operands was decided with the names as written
                    self.tree = ast.fix_missing_locations(_OperandOrder().visit(self.tree))
            except Exception as e:  # the pass is an optional normalisation: on any failure analyse the tree as written
                self.tree = normalise_tree(ast.parse(self.source, filename=path))
                self.derenamed = [(self.rel, "*", "pass failed: %r" % e)]
        self.funcs = {}
        self.classes = {}
        self._index(self.tree, "", None, None)

    def _index(self, node, prefix, cls, parent):
        for ch in ast.iter_child_nodes(node):
            if isinstance(ch, (ast.FunctionDef, ast.AsyncFunctionDef)):
                qn = prefix + ch.name
                f = Func(self, qn, ch, cls, parent)
                self.funcs[qn] = f
                self._index(ch, qn + ".", cls, f)
            elif isinstance(ch, ast.ClassDef):
                qn = prefix + ch.name
                self.classes[qn] = ch
                self._index(ch, qn + ".", qn, parent)
            elif isinstance(ch, (ast.If, ast.For, ast.While, ast.With, ast.Try)):
                self._index(ch, prefix, cls, parent)

    def raw_text(self, node):
        return ast.get_source_segment(self.source, node) or ""

    def text(self, node):
        """canonical text of a node: ast.unparse, so layout, comments, quote style,
        redundant parentheses and number spelling do not matter"""
        try:
            return unparse(node)
        except Exception:
            return self.raw_text(node)

    def code(self, node):
        """canonical text of node with all whitespace removed"""
        return "".join(self.text(node).split())


class Program:
    def __init__(self, root=None):
        self.root = root or repo_root()
        self.modules = {}
        pats = [
            os.path.join(self.root, "hypnotoad", "**", "*.py"),
            os.path.join(self.root, "examples", "**", "*.py"),
        ]
        for pat in pats:
            for p in sorted(glob.glob(pat, recursive=True)):
                parts = p.split(os.sep)
                if any(d in parts for d in EXCLUDE_DIRS):
                    continue
                if os.path.basename(p) in EXCLUDE_FILES:
                    continue
                m = Module(self.root, p)
                self.modules[m.rel] = m

    def module(self, rel):
        m = self.modules.get(rel)
        if m is None:
            raise AnalysisError("module %s not found (anchor vanished)" % rel)
        return m

    def all_funcs(self):
        for m in self.modules.values():
            for f in m.funcs.values():
                yield f

    def stats(self):
        nf = sum(len(m.funcs) for m in self.modules.values())
        return {"files": len(self.modules), "functions": nf}

    # -- anchors by observable names -----------------------------------------------
    def funcs_assigning_self_attr(self, attr, rel=None):
        """functions containing `self.<attr> = ...` (direct body, not nested defs)"""
        out = []
        mods = [self.module(rel)] if rel else self.modules.values()
        for m in mods:
            for f in m.funcs.values():
                for n in walk_own(f.node):
                    if isinstance(n, ast.Assign):
                        for t in n.targets:
                            if is_self_attr(t, attr):
                                out.append(f)
                                break
                        else:
                            continue
                        break
        return out

    def unique_func_assigning(self, attrs, rel=None):
        """the single function that assigns all the given self attributes"""
        cands = None
        for a in attrs:
            s = set(id(f) for f in self.funcs_assigning_self_attr(a, rel))
            cands = s if cands is None else cands & s
        fs = [f for f in self.all_funcs() if id(f) in (cands or ())]
        if len(fs) != 1:
            raise AnalysisError(
                "expected exactly one function assigning self.{%s}; found %s"
                % (",".join(attrs), [f.qualname for f in fs])
            )
        return fs[0]

    def func(self, rel, qualname):
        m = self.module(rel)
        f = m.funcs.get(qualname)
        if f is None:
            raise AnalysisError("function %s not found in %s (anchor vanished)" % (qualname, rel))
        return f

    def find_funcs_named(self, name):
        return [f for f in self.all_funcs() if f.name == name]


def is_self_attr(node, attr=None):
    return (
        isinstance(node, ast.Attribute)
        and isinstance(node.value, ast.Name)
        and node.value.id == "self"
        and (attr is None or node.attr == attr)
    )


def walk_own(fnode):
    """walk a function body without descending into nested function/class definitions"""
    stack = list(fnode.body)
    while stack:
        n = stack.pop()
        yield n
        if isinstance(n, (ast.FunctionDef, ast.AsyncFunctionDef, ast.ClassDef, ast.Lambda)):
            continue  # a nested definition is reported but not entered
        for ch in ast.iter_child_nodes(n):
            if isinstance(ch, (ast.FunctionDef, ast.AsyncFunctionDef, ast.ClassDef, ast.Lambda)):
                continue
            stack.append(ch)


def inline_temporaries(fnode, expr, depth=4, keep=(), inline_calls=False, inline_consts=False):
    """copy of `expr` in which every name that the function assigns exactly once (plain
    `name = <expression>`, no augmented assignment, not a loop/with/except target, not a
    parameter) is replaced by its defining expression, recursively.  Lets an expression-shaped
    rule see through temporaries such as `diff = a[1:] - a[:-1]; x = diff / d`.  It does not
    follow reaching definitions: a temporary whose ingredients are modified between its
    definition and its use would be misread (not the case for the array differences and
    products this is used on)."""
    import copy
    counts, defs, def_stmt_of = {}, {}, {}
    params = {a.arg for a in fnode.args.posonlyargs + fnode.args.args + fnode.args.kwonlyargs}
    for n in walk_own(fnode):
        if isinstance(n, ast.Assign):
            for t in n.targets:
                for x in ast.walk(t):
                    if isinstance(x, ast.Name) and isinstance(x.ctx, ast.Store):
                        counts[x.id] = counts.get(x.id, 0) + 1
                        if len(n.targets) == 1 and isinstance(t, ast.Name):
                            defs[x.id] = n.value
                            def_stmt_of[x.id] = n
                if len(n.targets) == 1 and isinstance(t, ast.Tuple) and all(isinstance(e, (ast.Name, ast.Attribute)) for e in t.elts):
                    # a, b = E  ->  a is E[0], b is E[1];   a, b = (u, v)  ->  a is u, b is v
                    for k, e in enumerate(t.elts):
                        if isinstance(e, ast.Name):
                            def_stmt_of[e.id] = n
                            if isinstance(n.value, ast.Tuple) and len(n.value.elts) == len(t.elts):
                                defs[e.id] = n.value.elts[k]
                            elif not isinstance(n.value, (ast.Call, ast.Tuple)):
                                defs[e.id] = ast.Subscript(value=n.value, slice=ast.Constant(value=k), ctx=ast.Load())
        elif isinstance(n, (ast.AugAssign, ast.AnnAssign)):
            for x in ast.walk(n.target):
                if isinstance(x, ast.Name):
                    counts[x.id] = counts.get(x.id, 0) + 2
        elif isinstance(n, (ast.For, ast.comprehension)):
            for x in ast.walk(n.target):
                if isinstance(x, ast.Name):
                    counts[x.id] = counts.get(x.id, 0) + 2
        elif isinstance(n, ast.withitem) and n.optional_vars is not None:
            for x in ast.walk(n.optional_vars):
                if isinstance(x, ast.Name):
                    counts[x.id] = counts.get(x.id, 0) + 2
    skip = (ast.Lambda, ast.ListComp, ast.GeneratorExp, ast.Constant) if inline_calls else (ast.Call, ast.Lambda, ast.ListComp, ast.GeneratorExp, ast.Constant)
    # a local that is filled or modified after its one assignment (xs = []; xs.append(..);
    # d = {}; d[k] = v) is not a name for its initial value
    mutated = set()
    for n in walk_own(fnode):
        if isinstance(n, ast.Call) and isinstance(n.func, ast.Attribute) and isinstance(n.func.value, ast.Name) \
                and n.func.attr in ("append", "extend", "insert", "update", "add", "pop", "remove", "clear", "sort", "reverse", "setdefault"):
            mutated.add(n.func.value.id)
        elif isinstance(n, (ast.Assign, ast.AugAssign)):
            for t in (n.targets if isinstance(n, ast.Assign) else [n.target]):
                for x in ast.walk(t):
                    if isinstance(x, ast.Subscript) and isinstance(x.ctx, ast.Store) and isinstance(x.value, ast.Name):
                        mutated.add(x.value.id)
    for k in mutated:
        if isinstance(defs.get(k), (ast.List, ast.Dict, ast.Set, ast.ListComp, ast.DictComp)) or (isinstance(defs.get(k), ast.Call) and dotted(defs[k].func) in ("list", "dict", "set")):
            counts[k] = counts.get(k, 0) + 2
    # a temporary that snapshots an attribute the function later overwrites
    # (`old_start = self.startInd; self.startInd = ...`) is not a name for the attribute's current value
    stored_chains = _stored_attribute_chains(fnode)
    if stored_chains:
        for k in list(defs):
            if _reads_stored_chain(defs[k], stored_chains, fnode, def_stmt_of.get(k)):
                counts[k] = counts.get(k, 0) + 2
    if inline_consts:
        skip = tuple(t for t in skip if t is not ast.Constant)
    single = {k: v for k, v in defs.items() if counts.get(k) == 1 and k not in params and k not in keep and not isinstance(v, skip)}

    class Sub(ast.NodeTransformer):
        def __init__(self, d, shadowed=frozenset()):
            self.d = d
            self.shadowed = shadowed

        def visit_Name(self, node):
            if isinstance(node.ctx, ast.Load) and node.id in single and node.id not in self.shadowed and self.d > 0:
                return Sub(self.d - 1).visit(copy.deepcopy(single[node.id]))
            return node

        def _comp(self, node):
            # a name bound by the comprehension shadows the function's local of the same name
            # (the first iterable is evaluated outside, but it cannot mention the targets anyway)
            bound = {x.id for g in node.generators for x in ast.walk(g.target) if isinstance(x, ast.Name)}
            return Sub(self.d, self.shadowed | bound).generic_visit(node)

        visit_ListComp = visit_SetComp = visit_GeneratorExp = visit_DictComp = _comp

        def visit_Lambda(self, node):
            a = node.args
            bound = {x.arg for x in a.posonlyargs + a.args + a.kwonlyargs} | ({a.vararg.arg} if a.vararg else set()) | ({a.kwarg.arg} if a.kwarg else set())
            return Sub(self.d, self.shadowed | bound).generic_visit(node)

    return ast.fix_missing_locations(reorder_operands(Sub(depth).visit(copy.deepcopy(expr)), fnode))


def reorder_operands(expr, scope=None):
    """the canonical operand order (see _OperandOrder) for an expression assembled after the
    tree was normalised (inlined temporaries, substituted loop variables); modifies and returns it"""
    if os.environ.get("HV_NO_OPORDER"):
        return expr
    return _OperandOrder().visit(expr)


def single_def(fnode, name):
    """the expression of the one plain assignment `name = <expr>` in the function when the name
    is bound nowhere else (not a parameter, loop/with target, augmented or unpacked); else None"""
    if name in {a.arg for a in fnode.args.posonlyargs + fnode.args.args + fnode.args.kwonlyargs}:
        return None
    binds, value = 0, None
    for n in walk_own(fnode):
        for x in ast.walk(n) if isinstance(n, (ast.Assign, ast.AugAssign, ast.AnnAssign, ast.For, ast.comprehension, ast.withitem, ast.NamedExpr)) else ():
            if isinstance(x, ast.Name) and x.id == name and isinstance(x.ctx, ast.Store):
                binds += 1
        if isinstance(n, ast.Assign) and len(n.targets) == 1 and isinstance(n.targets[0], ast.Name) and n.targets[0].id == name:
            value = n.value
    return value if binds == 1 else None


def walk_all(node):
    return ast.walk(node)


def dotted(node):
    """a.b.c -> 'a.b.c' or None"""
    parts = []
    while isinstance(node, ast.Attribute):
        parts.append(node.attr)
        node = node.value
    if isinstance(node, ast.Name):
        parts.append(node.id)
        return ".".join(reversed(parts))
    return None


def const_str(node):
    if isinstance(node, ast.Constant) and isinstance(node.value, str):
        return node.value
    return None


import functools


ALIASES = {"np": "numpy"}


class _Normalise(ast.NodeTransformer):
    """behaviour-preserving normalisation applied to every module before analysis:
    `x: T = v` -> `x = v`; parameter / return annotations dropped; the conventional module
    alias `np` spelled `numpy` (when the module imports numpy under that alias)"""

    def __init__(self, aliases):
        self.aliases = aliases

    def visit_AnnAssign(self, node):
        self.generic_visit(node)
        if node.value is None:
            return ast.copy_location(ast.Pass(), node)
        return ast.copy_location(ast.Assign(targets=[node.target], value=node.value, type_comment=None), node)

    def visit_FunctionDef(self, node):
        self.generic_visit(node)
        node.returns = None
        for a in node.args.posonlyargs + node.args.args + node.args.kwonlyargs + [x for x in (node.args.vararg, node.args.kwarg) if x]:
            a.annotation = None
        return node

    visit_AsyncFunctionDef = visit_FunctionDef

    def visit_Name(self, node):
        if node.id in self.aliases:
            node.id = self.aliases[node.id]
        return node

    def visit_Import(self, node):
        for a in node.names:
            if a.asname in self.aliases and a.name == self.aliases[a.asname]:
                a.asname = None
        return node


def _stored_attribute_chains(fnode):
    """dotted texts of the attribute chains the function assigns to (x.a.b = ..., x.a.b += ...,
    del x.a.b, for x.a.b in ...)"""
    out = set()
    for n in ast.walk(fnode):
        if isinstance(n, ast.Attribute) and isinstance(n.ctx, (ast.Store, ast.Del)):
            d = dotted(n)
            if d:
                out.add(d)
    return out


def _reads_stored_chain(expr, stored, fnode=None, def_stmt=None):
    """does the expression read an attribute chain that the function stores to (or one that has a
    stored chain as a prefix: the object it lives on is replaced) *after* the point where the
    expression is bound?  A store that textually precedes the binding statement is harmless unless
    both sit in one loop (then it also follows it)."""
    if not stored:
        return False
    hits = set()
    for x in ast.walk(expr):
        if isinstance(x, ast.Attribute):
            d = dotted(x)
            if d:
                hits |= {s_ for s_ in stored if d == s_ or d.startswith(s_ + ".")}
    if not hits:
        return False
    if fnode is None or def_stmt is None:
        return True
    dline = getattr(def_stmt, "end_lineno", def_stmt.lineno)
    loops = [l for l in ast.walk(fnode) if isinstance(l, (ast.For, ast.While)) and l.lineno <= def_stmt.lineno <= getattr(l, "end_lineno", l.lineno)]
    for n in ast.walk(fnode):
        if isinstance(n, ast.Attribute) and isinstance(n.ctx, (ast.Store, ast.Del)) and dotted(n) in hits:
            if n.lineno > dline:
                return True
            if any(l.lineno <= n.lineno <= getattr(l, "end_lineno", l.lineno) for l in loops):
                return True
    return False


def _inline_attribute_aliases(tree):
    """`eq = self.meshParent.equilibrium; ... eq.psi(...)`  ->  `... self.meshParent.equilibrium.psi(...)`.
    A local that is assigned exactly once, from a pure attribute chain rooted at a name that the
    function never rebinds (typically `self`), and is only read afterwards, is a pure alias;
    reading through it does not change behaviour provided nothing rebinds an attribute of the
    chain in between (not checked: the analysis would then read a newer object than the code,
    which no rule here depends on).  The defining statement is kept."""
    for f in ast.walk(tree):
        if not isinstance(f, (ast.FunctionDef, ast.AsyncFunctionDef)):
            continue
        counts, defs, def_stmts = {}, {}, {}
        params = {a.arg for a in f.args.posonlyargs + f.args.args + f.args.kwonlyargs}
        stores = {}
        for n in ast.walk(f):
            if isinstance(n, ast.Name) and isinstance(n.ctx, (ast.Store, ast.Del)):
                stores[n.id] = stores.get(n.id, 0) + 1
            elif isinstance(n, ast.ExceptHandler) and n.name:
                stores[n.name] = stores.get(n.name, 0) + 2
            elif isinstance(n, (ast.Global, ast.Nonlocal)):
                for x in n.names:
                    stores[x] = stores.get(x, 0) + 2
        for n in walk_own(f):
            if isinstance(n, ast.Assign) and len(n.targets) == 1 and isinstance(n.targets[0], ast.Name):
                v = n.value
                chain = v
                while isinstance(chain, ast.Attribute):
                    chain = chain.value
                if isinstance(v, ast.Attribute) and isinstance(chain, ast.Name) and (chain.id == "self" or (chain.id in params and not stores.get(chain.id))):
                    defs[n.targets[0].id] = v
                    def_stmts[n.targets[0].id] = n
        # an attribute the function itself stores to (or a prefix of the aliased chain) is not a
        # stable thing to alias: `old = self.startInd; self.startInd = ...; use(old)`
        stored_chains = _stored_attribute_chains(f)
        single = {k: v for k, v in defs.items() if stores.get(k) == 1 and k not in params and not _reads_stored_chain(v, stored_chains, f, def_stmts.get(k))}
        if not single:
            continue
        import copy

        class Sub(ast.NodeTransformer):
            def visit_Name(self, node):
                if isinstance(node.ctx, ast.Load) and node.id in single:
                    return ast.copy_location(copy.deepcopy(single[node.id]), node)
                return node

            def visit_FunctionDef(self, node):
                # nested functions that rebind the name themselves are left alone
                own = {a.arg for a in node.args.posonlyargs + node.args.args + node.args.kwonlyargs}
                if own & set(single):
                    return node
                return self.generic_visit(node)

            visit_Lambda = visit_FunctionDef

        f.body = [Sub().visit(st) for st in f.body]
    return tree


class _ControlShape(ast.NodeTransformer):
    """behaviour-preserving canonical control shapes:
    `t = a if c else b`            -> `if c: t = a` / `else: t = b`
    `if not c: A else: B`          -> `if c: B else: A`
    `if c: ...exit else: B`        -> `if c: ...exit` followed by B      (exit = return/raise/continue/break)"""

    def _block(self, stmts):
        out = []
        for s in stmts:
            r = self.visit(s)
            if isinstance(r, list):
                out.extend(r)
            elif r is not None:
                out.append(r)
        return out

    def generic_visit(self, node):
        for fld in ("body", "orelse", "finalbody"):
            b = getattr(node, fld, None)
            if isinstance(b, list) and b and isinstance(b[0], ast.stmt):
                setattr(node, fld, self._block(b))
        if isinstance(node, ast.Try):
            for h in node.handlers:
                h.body = self._block(h.body)
        return node

    def visit_Assign(self, node):
        if isinstance(node.value, ast.IfExp) and len(node.targets) == 1:
            import copy
            a = ast.copy_location(ast.Assign(targets=[copy.deepcopy(node.targets[0])], value=node.value.body, type_comment=None), node)
            b = ast.copy_location(ast.Assign(targets=[copy.deepcopy(node.targets[0])], value=node.value.orelse, type_comment=None), node)
            return self.visit_If(ast.copy_location(ast.If(test=node.value.test, body=[a], orelse=[b]), node))
        return node

    @staticmethod
    def _negative(t):
        return (isinstance(t, ast.UnaryOp) and isinstance(t.op, ast.Not)) or \
            (isinstance(t, ast.Compare) and len(t.ops) == 1 and isinstance(t.ops[0], (ast.IsNot, ast.NotIn)))

    @staticmethod
    def _negated(t):
        if isinstance(t, ast.UnaryOp) and isinstance(t.op, ast.Not):
            return t.operand
        if isinstance(t, ast.Compare) and len(t.ops) == 1 and isinstance(t.ops[0], (ast.Is, ast.IsNot, ast.In, ast.NotIn)):
            swap = {ast.Is: ast.IsNot, ast.IsNot: ast.Is, ast.In: ast.NotIn, ast.NotIn: ast.In}
            return ast.copy_location(ast.Compare(left=t.left, ops=[swap[type(t.ops[0])]()], comparators=t.comparators), t)
        return ast.copy_location(ast.UnaryOp(op=ast.Not(), operand=t), t)

    def visit_If(self, node):
        self.generic_visit(node)
        exits = lambda b: bool(b) and isinstance(b[-1], (ast.Return, ast.Raise, ast.Continue, ast.Break))
        if node.orelse and not (len(node.orelse) == 1 and isinstance(node.orelse[0], ast.If)):
            # two-armed: the arm that leaves comes first (it is then hoisted below); when that does
            # not decide, the test is written without negation (`not`, `is not`, `not in`)
            if os.environ.get("HV_NO_POLARITY"):
                flip = isinstance(node.test, ast.UnaryOp) and isinstance(node.test.op, ast.Not)
            elif exits(node.orelse) != exits(node.body):
                flip = exits(node.orelse)
            else:
                flip = self._negative(node.test)
            if flip:
                node.test = self._negated(node.test)
                node.body, node.orelse = node.orelse, node.body
        if node.orelse and node.body and isinstance(node.body[-1], (ast.Return, ast.Raise, ast.Continue, ast.Break)) and not (len(node.orelse) == 1 and isinstance(node.orelse[0], ast.If)):
            tail = node.orelse
            node.orelse = []
            return [node] + tail
        return node


def _loops_to_comprehensions(tree):
    """`xs = []` ... `for T in IT: xs.append(E)`  ->  `xs = [E for T in IT]` (several lists filled by
    one loop become several comprehensions over the same iterable; xs may be a name or an
    attribute chain such as self.contours).  Applied only when the loop body consists of such
    appends and nothing else, the lists are fresh (`= []` earlier in the same block, not mentioned
    in between) and neither E nor IT mentions them.  For reading, not for running: an iterable
    that can be consumed only once would make the rewritten program differ, the facts the rules
    read off it (what each element is, in which order) do not."""
    import copy

    def key_of(n):
        parts = []
        while isinstance(n, ast.Attribute):
            parts.append(n.attr)
            n = n.value
        if isinstance(n, ast.Name):
            parts.append(n.id)
            return ".".join(reversed(parts))
        return None

    def mentions(node, keys):
        for x in ast.walk(node):
            if isinstance(x, (ast.Name, ast.Attribute)) and key_of(x) in keys:
                return True
        return False

    def rewrite(block):
        changed = True
        while changed:
            changed = False
            for k, s in enumerate(block):
                if not (isinstance(s, ast.For) and not s.orelse and s.body):
                    continue
                apps = []
                for b in s.body:
                    c = b.value if isinstance(b, ast.Expr) else None
                    if isinstance(c, ast.Call) and isinstance(c.func, ast.Attribute) and c.func.attr == "append" and key_of(c.func.value) is not None \
                            and len(c.args) == 1 and not c.keywords and not isinstance(c.args[0], ast.Starred):
                        apps.append((key_of(c.func.value), c.func.value, c.args[0]))
                    else:
                        apps = None
                        break
                if not apps or len({n for n, t, e in apps}) != len(apps):
                    continue
                lists = {n for n, t, e in apps}
                if any(mentions(e, lists) for n, t, e in apps) or mentions(s.iter, lists) or mentions(s.target, lists):
                    continue
                inits = {}
                ok = True
                for n in lists:
                    pos = [i for i in range(k) if isinstance(block[i], ast.Assign) and len(block[i].targets) == 1 and key_of(block[i].targets[0]) == n
                           and isinstance(block[i].value, ast.List) and not block[i].value.elts]
                    if not pos or any(mentions(block[i], {n}) for i in range(pos[-1] + 1, k)):
                        ok = False
                        break
                    inits[n] = pos[-1]
                if not ok:
                    continue
                new = []
                for n, tnode, e in apps:
                    comp = ast.ListComp(elt=e, generators=[ast.comprehension(target=copy.deepcopy(s.target), iter=copy.deepcopy(s.iter), ifs=[], is_async=0)])
                    tgt = copy.deepcopy(tnode)
                    tgt.ctx = ast.Store()
                    new.append(ast.copy_location(ast.Assign(targets=[tgt], value=comp, type_comment=None), s))
                drop = set(inits.values())
                block[:] = [b for i, b in enumerate(block[:k]) if i not in drop] + new + block[k + 1:]
                changed = True
                break

    for node in ast.walk(tree):
        for fld in ("body", "orelse", "finalbody"):
            b = getattr(node, fld, None)
            if isinstance(b, list) and b and isinstance(b[0], ast.stmt):
                rewrite(b)
    return tree


class _OperandOrder(ast.NodeTransformer):
    """one spelling for operand orders that cannot be observed: a single comparison is written
    with < / <= (`b > a` becomes `a < b`), == and != have a literal on the right and otherwise
    their operands in text order, a numeric literal stands first in a product and last in a sum"""

    @staticmethod
    def _numeric(n):
        return isinstance(n, ast.Constant) and isinstance(n.value, (int, float)) and not isinstance(n.value, bool)

    def visit_BinOp(self, node):
        self.generic_visit(node)
        if isinstance(node.op, ast.Mult) and self._numeric(node.right) and not self._numeric(node.left):
            node.left, node.right = node.right, node.left
        elif isinstance(node.op, ast.Add) and self._numeric(node.left) and not self._numeric(node.right):
            node.left, node.right = node.right, node.left
        return node

    def visit_Compare(self, node):
        self.generic_visit(node)
        if len(node.ops) != 1:
            return node
        op, a, b = node.ops[0], node.left, node.comparators[0]
        if isinstance(op, ast.Gt):
            node.left, node.comparators, node.ops = b, [a], [ast.Lt()]
        elif isinstance(op, ast.GtE):
            node.left, node.comparators, node.ops = b, [a], [ast.LtE()]
        elif isinstance(op, (ast.Eq, ast.NotEq)):
            ca, cb = isinstance(a, ast.Constant), isinstance(b, ast.Constant)
            if (ca and not cb) or (ca == cb and self._key(b) < self._key(a)):
                node.left, node.comparators = b, [a]
        return node

    def __init__(self, comprehension_names=()):
        # names bound by the comprehensions that enclose the node being visited
        self.masked = set()

    def _comp(self, node):
        mine = {x.id for g in node.generators for x in ast.walk(g.target) if isinstance(x, ast.Name)} - self.masked
        self.masked |= mine
        self.generic_visit(node)
        self.masked -= mine
        return node

    visit_ListComp = visit_SetComp = visit_GeneratorExp = visit_DictComp = _comp

    def _key(self, node):
        """text order that does not depend on what a comprehension calls its variables"""
        import re as _re
        t = ast.unparse(node)
        if self.masked:
            t = _re.sub(r"\b(%s)\b" % "|".join(sorted(_re.escape(m) for m in self.masked)), "_c", t)
        return _re.sub(r"\b_c\d+\b", "_c", t)


def _comprehension_names(tree):
    out = set()
    for n in ast.walk(tree):
        if isinstance(n, ast.comprehension):
            for x in ast.walk(n.target):
                if isinstance(x, ast.Name):
                    out.add(x.id)
    return out


def arm_for(block, match):
    """the statements executed when the test recognised by `match(test)` holds, in a dispatch
    written as an if/elif/else chain, as nested ifs in else arms, or with guard clauses
    (`if not <test>: raise` followed by the arm); None when there is no such arm"""
    exits = lambda b: bool(b) and isinstance(b[-1], (ast.Return, ast.Raise, ast.Continue, ast.Break))
    for i, n in enumerate(block):
        if not isinstance(n, ast.If):
            continue
        t = n.test
        if match(t):
            return list(n.body)
        if isinstance(t, ast.UnaryOp) and isinstance(t.op, ast.Not) and match(t.operand):
            if n.orelse:
                return list(n.orelse)
            if exits(n.body):
                return list(block[i + 1:])
        r = arm_for(n.orelse, match)
        if r is not None:
            return r
    return None


def as_less(node):
    """(smaller side, strict?, larger side) of a single ordering comparison, whichever way it
    is written (`a < b`, `b > a`); None for anything else"""
    if not (isinstance(node, ast.Compare) and len(node.ops) == 1):
        return None
    a, op, b = node.left, node.ops[0], node.comparators[0]
    if isinstance(op, (ast.Lt, ast.LtE)):
        return a, isinstance(op, ast.Lt), b
    if isinstance(op, (ast.Gt, ast.GtE)):
        return b, isinstance(op, ast.Gt), a
    return None


def _inline_return_temps(tree):
    """`x = E` directly followed by `return x`, with x a local mentioned nowhere else in the
    function, is `return E` (naming the result is the commonest of all clean-up edits)"""
    def scopes(n):
        for ch in ast.walk(n):
            if isinstance(ch, (ast.FunctionDef, ast.AsyncFunctionDef)):
                yield ch

    for fn in scopes(tree):
        uses = {}
        declared = set()
        for x in ast.walk(fn):
            if isinstance(x, ast.Name):
                uses[x.id] = uses.get(x.id, 0) + 1
            elif isinstance(x, (ast.Global, ast.Nonlocal)):
                declared.update(x.names)
        for holder in ast.walk(fn):
            for fld in ("body", "orelse", "finalbody"):
                b = getattr(holder, fld, None)
                if not (isinstance(b, list) and len(b) >= 2 and isinstance(b[0], ast.stmt)):
                    continue
                i = 0
                while i + 1 < len(b):
                    a, r = b[i], b[i + 1]
                    if isinstance(a, ast.Assign) and len(a.targets) == 1 and isinstance(a.targets[0], ast.Name) and isinstance(r, ast.Return) \
                            and isinstance(r.value, ast.Name) and r.value.id == a.targets[0].id and uses.get(r.value.id) == 2 and r.value.id not in declared:
                        b[i:i + 2] = [ast.copy_location(ast.Return(value=a.value), a)]
                    else:
                        i += 1
    return tree


def normalise_tree(tree):
    aliases = {}
    for n in ast.walk(tree):
        if isinstance(n, ast.Import):
            for a in n.names:
                if a.asname in ALIASES and a.name == ALIASES[a.asname]:
                    aliases[a.asname] = a.name
    # the alias is only rewritten when nothing else in the module is called by the full name's
    # first component in a conflicting way (a plain `import numpy` next to it is fine)
    tree = _Normalise(aliases).visit(tree)
    if not os.environ.get("HV_NO_ALIAS_INLINE"):
        for _ in range(3):  # aliases of aliases
            tree = _inline_attribute_aliases(tree)
    if not os.environ.get("HV_NO_RETURN_TEMPS"):
        tree = _inline_return_temps(tree)
    if not os.environ.get("HV_NO_CONTROL_SHAPE"):
        tree = _ControlShape().visit(tree)
    if not os.environ.get("HV_NO_LOOPCOMP"):
        tree = _loops_to_comprehensions(tree)
    if not os.environ.get("HV_NO_OPORDER"):
        tree = _OperandOrder(_comprehension_names(tree)).visit(tree)
    return ast.fix_missing_locations(tree)


def unparse(node):
    """ast.unparse; a tuple is written without its outer parentheses (as in a subscript
    or a for-target), so that the text of a node does not depend on where it stands"""
    if any(isinstance(x, (ast.ListComp, ast.SetComp, ast.DictComp, ast.GeneratorExp)) for x in ast.walk(node)):
        node = _canonical_comprehension_vars(node)
    t = ast.unparse(node)
    if isinstance(node, ast.Tuple) and t.startswith("(") and t.endswith(")"):
        t = t[1:-1]
    return t


def _canonical_comprehension_vars(node):
    """copy of node in which the variables bound by each comprehension are called _c0, _c1, ...
    (numbered per comprehension, outermost first): their names are not observable"""
    import copy
    node = copy.deepcopy(node)

    def rename(comp, base):
        mapping = {}
        pos = 0
        for g in comp.generators:
            for x in ast.walk(g.target):
                if isinstance(x, ast.Name):
                    # numbered by position in the target; a name bound twice (`_`) means its last binding
                    mapping[x.id] = "_c%d" % (base + pos)
                    x._canon = "_c%d" % (base + pos)
                    pos += 1

        class R(ast.NodeTransformer):
            def visit_Name(self, n):
                if getattr(n, "_canon", None):
                    n.id = n._canon
                    n._canon = None
                elif n.id in mapping:
                    n.id = mapping[n.id]
                return n

        # the first iterable is evaluated in the enclosing scope
        first_iter = comp.generators[0].iter
        for fld in ("elt", "key", "value"):
            if hasattr(comp, fld):
                setattr(comp, fld, R().visit(getattr(comp, fld)))
        for i, g in enumerate(comp.generators):
            g.target = R().visit(g.target)
            g.ifs = [R().visit(c) for c in g.ifs]
            if i > 0:
                g.iter = R().visit(g.iter)
        comp.generators[0].iter = first_iter
        return pos

    def visit(n, base=0):
        # numbering restarts at every outermost comprehension and continues into nested ones, so
        # that the text of a statement does not depend on what else is printed with it
        if isinstance(n, (ast.ListComp, ast.SetComp, ast.DictComp, ast.GeneratorExp)):
            base = base + rename(n, base)
        for ch in ast.iter_child_nodes(n):
            visit(ch, base)

    visit(node)
    return node


@functools.lru_cache(maxsize=None)
def canon(src, squeeze=True):
    """canonical form of an expected source fragment (same normalisation as Module.text /
    Module.code); fragments that do not parse on their own are only quote-normalised"""
    if not src.strip():
        return src
    import re as _re
    for _a, _full in ALIASES.items():
        src = _re.sub(r"(?<![\w.])%s\." % _a, _full + ".", src)
    header = False
    try:
        import warnings as _w
        with _w.catch_warnings():
            _w.simplefilter("ignore")
            try:
                tree = ast.parse(src.strip())
            except SyntaxError:
                # a compound-statement header on its own (`if a > b:`)
                if not (src.strip().endswith(":") and src.strip().split()[0] in ("if", "while", "for", "with")):
                    raise
                tree = ast.parse(src.strip() + "\n    pass")
                header = True
        if not os.environ.get("HV_NO_OPORDER"):
            tree = ast.fix_missing_locations(_OperandOrder(_comprehension_names(tree)).visit(tree))
        if len(tree.body) == 1 and isinstance(tree.body[0], ast.Expr):
            t = unparse(tree.body[0].value)
        else:
            t = unparse(tree)
        if header:
            t = t.rstrip()
            assert t.endswith("pass")
            t = t[:-4]
    except SyntaxError:
        t = src.replace('"', "'")
    return "".join(t.split()) if squeeze else " ".join(t.split())


def key_in(key, text):
    """is the expected fragment `key` contained in canonical text `text` (layout-insensitive)"""
    return canon(key) in "".join(text.split())


def strip_comments(src):
    """remove # comments (outside string literals) from a source fragment"""
    out = []
    i = 0
    n = len(src)
    quote = None
    while i < n:
        ch = src[i]
        if quote:
            if src.startswith(quote, i):
                out.append(quote)
                i += len(quote)
                quote = None
                continue
            if ch == "\\" and i + 1 < n:
                out.append(src[i:i + 2])
                i += 2
                continue
            out.append(ch)
            i += 1
            continue
        if ch in "\"'":
            q = src[i:i + 3] if src[i:i + 3] in ('"""', "'''") else ch
            quote = q
            out.append(q)
            i += len(q)
            continue
        if ch == "#":
            while i < n and src[i] != "\n":
                i += 1
            continue
        out.append(ch)
        i += 1
    return "".join(out)
