"""Option schemas: evaluates `OptionsFactory(...)` / `.add(...)` definitions from the AST."""
import ast

from .model import dotted
from .report import AnalysisError


class Option:
    def __init__(self, name, node, module, owner):
        self.name = name
        self.node = node
        self.module = module
        self.owner = owner
        self.meta = {}
        self.default = None
        v = node
        if isinstance(v, ast.Call) and dotted(v.func) == "WithMeta":
            if v.args:
                self.default = v.args[0]
            for k in v.keywords:
                self.meta[k.arg] = k.value
                if k.arg == "value" and self.default is None:
                    self.default = k.value
        else:
            self.default = v

    def value_types(self):
        n = self.meta.get("value_type")
        if n is None:
            return None
        els = n.elts if isinstance(n, (ast.List, ast.Tuple)) else [n]
        return [dotted(e) or ast.unparse(e) for e in els]

    def allowed(self):
        n = self.meta.get("allowed")
        if n is None:
            return None
        els = n.elts if isinstance(n, (ast.List, ast.Tuple)) else [n]
        out = []
        for e in els:
            if isinstance(e, ast.Constant):
                out.append(e.value)
            else:
                return None
        return out

    def checks(self):
        out = []
        for key in ("check_all", "check_any"):
            n = self.meta.get(key)
            if n is None:
                continue
            els = n.elts if isinstance(n, (ast.List, ast.Tuple)) else [n]
            out.extend(dotted(e) or ast.unparse(e) for e in els)
        return out


class Schemas:
    def __init__(self, prog):
        self.prog = prog
        self.factories = {}  # "Class.attr" -> {name: Option}
        self.defs = {}
        for mod in prog.modules.values():
            for cname, cnode in mod.classes.items():
                for s in cnode.body:
                    if isinstance(s, ast.Assign) and isinstance(s.targets[0], ast.Name) and s.targets[0].id.endswith("options_factory"):
                        self.defs[cname.split(".")[-1] + "." + s.targets[0].id] = (mod, cname, s.value)
        for key in self.defs:
            self.resolve(key)
        # instance-level additions: self.X_factory = self.X_factory.add(...)
        self.instance_adds = {}
        for mod in prog.modules.values():
            for f in mod.funcs.values():
                for n in ast.walk(f.node):
                    if (isinstance(n, ast.Assign) and isinstance(n.targets[0], ast.Attribute) and n.targets[0].attr.endswith("options_factory")
                            and isinstance(n.value, ast.Call) and isinstance(n.value.func, ast.Attribute) and n.value.func.attr == "add" and f.cls):
                        key = f.cls.split(".")[-1] + "." + n.targets[0].attr
                        for k in n.value.keywords:
                            self.instance_adds.setdefault(key, {})[k.arg] = Option(k.arg, k.value, mod, key + "(instance)")

    def resolve(self, key, stack=()):
        if key in self.factories:
            return self.factories[key]
        if key in stack:
            raise AnalysisError("cyclic option factory " + key)
        if key not in self.defs:
            raise AnalysisError("option factory %s not found" % key)
        mod, cname, v = self.defs[key]
        out = {}
        if isinstance(v, ast.Call):
            fn = dotted(v.func)
            if fn == "OptionsFactory":
                for a in v.args:
                    d = dotted(a)
                    if d is None:
                        raise AnalysisError("unsupported base in %s" % key)
                    out.update(self.resolve(d, stack + (key,)))
            elif fn and fn.endswith(".add"):
                out.update(self.resolve(fn[: -len(".add")], stack + (key,)))
            else:
                raise AnalysisError("unsupported factory expression for %s: %s" % (key, fn))
            for k in v.keywords:
                if k.arg is None:
                    raise AnalysisError("**kwargs in factory %s" % key)
                out[k.arg] = Option(k.arg, k.value, mod, key)
        else:
            raise AnalysisError("unsupported factory definition %s" % key)
        self.factories[key] = out
        return out

    def keys(self, key, with_instance=True):
        # inherited class attribute lookup: Class.attr may be defined on a base class
        f = dict(self.lookup(key))
        if with_instance:
            for k2, adds in self.instance_adds.items():
                if k2.split(".")[1] == key.split(".")[1] and self.is_subclass(key.split(".")[0], k2.split(".")[0]):
                    f.update(adds)
        return f

    def class_bases(self, cname):
        for mod in self.prog.modules.values():
            if cname in mod.classes:
                return [b.id if isinstance(b, ast.Name) else getattr(b, "attr", None) for b in mod.classes[cname].bases]
        return []

    def is_subclass(self, c, base):
        if c == base:
            return True
        return any(self.is_subclass(b, base) for b in self.class_bases(c) if b)

    def lookup(self, key):
        c, attr = key.split(".")
        if key in self.factories:
            return self.factories[key]
        for b in self.class_bases(c):
            if b:
                try:
                    return self.lookup(b + "." + attr)
                except AnalysisError:
                    pass
        raise AnalysisError("option factory %s not found" % key)
