"""Index-aligned element semantics of iterables.

`element(fnode, it)` is the i-th element of the iterable expression `it`, symbolically:
`<i>` is the index, `<X[i]>` the i-th element of an opaque sequence X; zip / enumerate /
range(len(.)) / list / comprehensions over such iterables are index-aligned, so their i-th element
is built from the i-th elements of their sources.  Returns nested tuples of strings (canonical
text without blanks).  `X[<i>]` and `<X[i]>` are the same thing and are spelled `<X[i]>`.

With it a rule can say "the i-th value written is val[i]" and hold for
`for i in range(len(val)): write(val[i])`, `for v in val: write(v)` and
`for i, v in enumerate(val): write(v)` alike.
"""
import ast
import copy
import re

from .model import single_def, unparse


class NoElement(Exception):
    pass


def _text(n):
    return "".join(unparse(n).split())


def _canon(t):
    # NAME[<i>] -> <NAME[i]> ;  NAME[<i>+k] / NAME[k+<i>] -> <NAME[k+i]>
    t = re.sub(r"([A-Za-z_][\w.]*)\[<i>\]", r"<\1[i]>", t)
    t = re.sub(r"([A-Za-z_][\w.]*)\[<i>\+(\d+)\]", r"<\1[\2+i]>", t)
    t = re.sub(r"([A-Za-z_][\w.]*)\[(\d+)\+<i>\]", r"<\1[\2+i]>", t)
    return t


def subst(e, env):
    """canonical text of expression e with the loop variables replaced by their elements"""
    class S(ast.NodeTransformer):
        def visit_Name(self, n):
            if n.id in env and isinstance(env[n.id], str):
                return ast.Name(id=env[n.id], ctx=ast.Load())
            if n.id in env:
                raise NoElement("tuple-valued variable %s used whole" % n.id)
            return n
    return _canon(_text(S().visit(copy.deepcopy(e))))


def value(e, env):
    if isinstance(e, ast.Tuple):
        return tuple(value(x, env) for x in e.elts)
    if isinstance(e, ast.Name) and e.id in env:
        return env[e.id]
    return subst(e, env)


def bind(t, v, env):
    if isinstance(t, ast.Name):
        env[t.id] = v
    elif isinstance(t, (ast.Tuple, ast.List)) and isinstance(v, tuple) and len(t.elts) == len(v):
        for a, b in zip(t.elts, v):
            bind(a, b, env)
    elif isinstance(t, (ast.Tuple, ast.List)) and isinstance(v, str) and not any(isinstance(e, ast.Starred) for e in t.elts):
        # unpacking an opaque element: the k-th target is its k-th component
        for k, a in enumerate(t.elts):
            bind(a, "%s[%d]" % (v, k), env)
    else:
        raise NoElement("cannot destructure %s" % _text(t))


def element(fnode, it, env=None):
    env = env or {}
    for _ in range(4):
        d = single_def(fnode, it.id) if fnode is not None and isinstance(it, ast.Name) and it.id not in env else None
        if d is None:
            break
        it = d
    if isinstance(it, ast.Call) and isinstance(it.func, ast.Name) and not it.keywords:
        fn = it.func.id
        if fn == "zip":
            return tuple(element(fnode, a, env) for a in it.args)
        if fn == "enumerate" and len(it.args) == 1:
            return ("<i>", element(fnode, it.args[0], env))
        if fn == "range" and len(it.args) == 1:
            return "<i>"  # 0, 1, 2, ... : the index itself (the extent is the caller's business)
        if fn in ("list", "tuple", "iter") and len(it.args) == 1:
            return element(fnode, it.args[0], env)
        if fn == "map" and len(it.args) == 2 and isinstance(it.args[0], ast.Name):
            inner = element(fnode, it.args[1], env)
            if isinstance(inner, str):
                return "%s(%s)" % (it.args[0].id, inner)
    if isinstance(it, (ast.ListComp, ast.GeneratorExp)) and len(it.generators) == 1 and not it.generators[0].ifs:
        g = it.generators[0]
        env2 = dict(env)
        bind(g.target, element(fnode, g.iter, env), env2)
        return value(it.elt, env2)
    if isinstance(it, (ast.Attribute, ast.Name)):
        return "<%s[i]>" % _text(it)
    if isinstance(it, ast.Subscript) and isinstance(it.slice, ast.Constant) and isinstance(it.slice.value, int):
        # a row/component of an opaque object, itself a sequence: X[k]
        base = it.value
        while isinstance(base, (ast.Attribute, ast.Subscript)):
            base = base.value
        if isinstance(base, ast.Name):
            return "<%s[i]>" % _text(it)
    if isinstance(it, ast.Subscript) and isinstance(it.slice, ast.Slice) and it.slice.step is None:
        # X[k:], X[k:u] : element i is X[k+i]; X[:u] : element i is X[i] (where the slice ends is
        # the caller's business, as for range)
        lo = it.slice.lower
        if lo is None or (isinstance(lo, ast.Constant) and lo.value == 0):
            return "<%s[i]>" % _text(it.value)
        if isinstance(lo, ast.Constant) and isinstance(lo.value, int) and lo.value > 0 or not isinstance(lo, ast.Constant):
            return "<%s[%s+i]>" % (_text(it.value), _text(lo))
    raise NoElement(_text(it)[:80])


def loop_env(fnode, loop, env=None):
    """environment inside a `for` statement: its target bound to the i-th element of its iterable"""
    env2 = dict(env or {})
    bind(loop.target, element(fnode, loop.iter, env or {}), env2)
    return env2
