"""lower/upper (start/end) side agreement: a name that is qualified with one side is computed
from things qualified with the same side.  `X_lower = f(..._upper...)` with no `_lower`
ingredient at all is the typical copy-paste slip in code that treats the two ends of a
contour, region or interval by duplicated blocks.  Instances where both sides legitimately
appear (e.g. `d = upper - lower`) are not matched: only a target whose every sided ingredient
has the opposite side is reported."""
import ast
import re

from .model import walk_own


def side(name, vocab="both"):
    """'L' / 'U' / None.  vocab: 'lu' (lower/upper), 'se' (start/end) or 'both' (lower == start,
    upper == end, as for the two ends of a contour)"""
    lo_lu = bool(re.search(r"(^|_)lower($|_)", name))
    up_lu = bool(re.search(r"(^|_)upper($|_)", name))
    lo_se = bool(re.search(r"(^|_)start($|_)|AtStart|Start$", name))
    up_se = bool(re.search(r"(^|_)end($|_)|AtEnd|End$", name))
    if vocab == "lu":
        lo, up = lo_lu, up_lu
    elif vocab == "se":
        lo, up = lo_se, up_se
    else:
        lo, up = lo_lu or lo_se, up_lu or up_se
    if lo and not up:
        return "L"
    if up and not lo:
        return "U"
    return None


def sides_in(node, vocab="both"):
    out = set()
    for x in ast.walk(node):
        nm = None
        if isinstance(x, ast.Name):
            nm = x.id
        elif isinstance(x, ast.Attribute):
            nm = x.attr
        elif isinstance(x, ast.Constant) and isinstance(x.value, str) and re.match(r"^\w+$", x.value):
            nm = x.value
        if nm:
            s = side(nm, vocab)
            if s:
                out.add((s, nm))
    return out


def conflicts(func, cross=True):
    """[(node, target name, opposite-side ingredients)], number of sided sites examined.
    cross=False: lower/upper and start/end are independent vocabularies (e.g. the tokamak tables,
    where lower/upper is the X-point and start/end the direction of y)"""
    out = []
    n_sites = 0
    for n in walk_own(func.node):
        pairs = []
        if isinstance(n, ast.Assign) and len(n.targets) == 1 and isinstance(n.targets[0], (ast.Name, ast.Attribute)):
            t = n.targets[0]
            pairs.append((t.id if isinstance(t, ast.Name) else t.attr, n.value))
        if isinstance(n, ast.Call):
            for k in n.keywords:
                if k.arg:
                    pairs.append((k.arg, k.value))
        if isinstance(n, ast.Dict):
            for k, v in zip(n.keys, n.values):
                if isinstance(k, ast.Constant) and isinstance(k.value, str):
                    pairs.append((k.value, v))
        for nm, val in pairs:
            if isinstance(val, ast.Constant) and isinstance(val.value, str):
                continue  # a label stored as data (`leg_end = "lower"`), not an ingredient of a computation
            if isinstance(val, ast.BinOp) and isinstance(val.op, ast.Sub) and isinstance(val.left, ast.Constant) and isinstance(val.right, ast.Name):
                continue  # the complement of the other side's index (`upper_ind = 1 - lower_ind`): meant to use the other side
            for vocab in (("both",) if cross else ("lu", "se")):
                s = side(nm, vocab)
                if not s:
                    continue
                got = sides_in(val, vocab)
                if not got:
                    continue
                n_sites += 1
                if not any(g[0] == s for g in got):
                    out.append((n, nm, sorted(g[1] for g in got)))
    return out, n_sites


# statements where both sides legitimately enter a sided target (confirmed by reading)
MIXED_OK = {
    ("EquilibriumRegion.combineSfuncs", "sfunc_fixed_upper"): "the fixed-spacing function at one end is built with the requested spacings of both ends",
    ("EquilibriumRegion.combineSfuncs", "sfunc_fixed_lower"): "as above",
    ("BoutMesh.writeGridfile", "outer_lower_leg_start"): "array offset = guard cells of the lower and of the upper targets before this position",
    ("BoutMesh.writeGridfile", "upper_legs_end"): "as above",
}

CROSS_FILES = ("hypnotoad/core/equilibrium.py", "hypnotoad/core/mesh.py")


def mixed(func, cross=True):
    """sided targets with an ingredient of the opposite side: [(node, target, ingredients)], sites"""
    out = []
    n_sites = 0
    for n in walk_own(func.node):
        pairs = []
        if isinstance(n, ast.Assign) and len(n.targets) == 1 and isinstance(n.targets[0], (ast.Name, ast.Attribute)):
            t = n.targets[0]
            pairs.append((t.id if isinstance(t, ast.Name) else t.attr, n.value))
        if isinstance(n, ast.Call):
            for k in n.keywords:
                if k.arg:
                    pairs.append((k.arg, k.value))
        if isinstance(n, ast.Dict):
            for k, v in zip(n.keys, n.values):
                if isinstance(k, ast.Constant) and isinstance(k.value, str):
                    pairs.append((k.value, v))
        for nm, val in pairs:
            if isinstance(val, ast.Constant) and isinstance(val.value, str):
                continue  # a label stored as data (`leg_end = "lower"`), not an ingredient of a computation
            if isinstance(val, ast.BinOp) and isinstance(val.op, ast.Sub) and isinstance(val.left, ast.Constant) and isinstance(val.right, ast.Name):
                continue  # the complement of the other side's index (`upper_ind = 1 - lower_ind`): meant to use the other side
            for vocab in (("both",) if cross else ("lu", "se")):
                s = side(nm, vocab)
                if not s:
                    continue
                got = sides_in(val, vocab)
                if not got:
                    continue
                n_sites += 1
                opp = sorted(g[1] for g in got if g[0] != s)
                if opp and (func.qualname, nm) not in MIXED_OK:
                    out.append((n, nm, opp))
    return out, n_sites


def check(prog, rep, rule, select, label):
    """one obligation per offending statement plus a summary; `select(func)` picks the functions"""
    bad = []
    total = 0
    nfun = 0
    for f in prog.all_funcs():
        if not select(f):
            continue
        nfun += 1
        c, n = mixed(f, f.module.rel in CROSS_FILES)
        total += n
        for node, nm, opp in c:
            bad.append((f, node, nm, opp))
            rep.ob(rule, "%s: `%s` is computed from ingredients of its own side" % (f.qualname, nm), False, f.site(node),
                   "uses %s (the other end): the usual copy-paste slip between the blocks for the two ends" % opp, key="sides/%s/%s" % (f.qualname, nm))
    rep.ob(rule, "%s: every lower/upper (start/end) qualified name is computed from ingredients of the same side (%d sided sites in %d functions; %d listed exceptions)" % (label, total, nfun, len(MIXED_OK)),
           not bad, "", "", key="sides/%s/all" % label)
    return total
