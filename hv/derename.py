"""Undo pure renames of function-local names before any rule looks at the tree.

Many thin rules name local variables of /repo's functions (`temp_psi_vals`, `ixseps1`, the
loop index of the writer).  A consistent, capture-free renaming of a function's local names
never changes behaviour, so the analysis is free to apply one: this pass renames the locals
of every function back to the names they have in the reference table
(`/verif/reference/locals.json`, generated from the tree the rules were written against by
`tools/gen_localsigs.py`).  The partner of a local is found by the similarity of its binding
and use sites (texts with every local masked); the choice of partner is only a heuristic -
soundness rests on the renaming being a capture-free bijection, which `_safe_mapping` checks,
and a function whose mapping is not safe is left exactly as it is.
"""
import ast
import builtins
import json
import os

SCOPES = (ast.FunctionDef, ast.AsyncFunctionDef, ast.Lambda, ast.ClassDef, ast.ListComp, ast.SetComp, ast.DictComp, ast.GeneratorExp)
REF_FILE = os.path.join(os.path.dirname(os.path.dirname(os.path.abspath(__file__))), "reference", "locals.json")
THRESHOLD = 0.5


def _params(f):
    a = f.args
    out = [x.arg for x in a.posonlyargs + a.args + a.kwonlyargs]
    if a.vararg:
        out.append(a.vararg.arg)
    if a.kwarg:
        out.append(a.kwarg.arg)
    return out


def own_nodes(f):
    """nodes of f's own scope (nested scopes are yielded but not entered)"""
    body = f.body if isinstance(f.body, list) else [f.body]
    stack = list(reversed(body))
    while stack:
        n = stack.pop()
        yield n
        if isinstance(n, SCOPES):
            continue
        stack.extend(reversed(list(ast.iter_child_nodes(n))))


def local_names(f):
    """names bound in f's own scope that a refactoring could rename: assignment / loop /
    with / except / walrus targets and nested function names; not parameters, imports,
    globals or nonlocals"""
    params = set(_params(f))
    declared = set()
    bound = set()
    for n in own_nodes(f):
        if isinstance(n, (ast.Global, ast.Nonlocal)):
            declared.update(n.names)
        elif isinstance(n, ast.Name) and isinstance(n.ctx, (ast.Store, ast.Del)):
            bound.add(n.id)
        elif isinstance(n, ast.ExceptHandler) and n.name:
            bound.add(n.name)
        elif isinstance(n, (ast.FunctionDef, ast.AsyncFunctionDef)):
            bound.add(n.name)
    imported = set()
    for n in own_nodes(f):
        if isinstance(n, (ast.Import, ast.ImportFrom)):
            for a in n.names:
                imported.add((a.asname or a.name).split(".")[0])
    return {x for x in bound if x not in params and x not in declared and x not in imported and not (x.startswith("__") and x.endswith("__"))}


class _Mask(ast.NodeTransformer):
    def __init__(self, locs, me):
        self.locs, self.me = locs, me

    def visit_Name(self, node):
        if node.id == self.me:
            return ast.copy_location(ast.Name(id="SELFVAR", ctx=node.ctx), node)
        if node.id in self.locs:
            return ast.copy_location(ast.Name(id="ANYVAR", ctx=node.ctx), node)
        return node

    def visit_FunctionDef(self, node):
        node = self.generic_visit(node)
        if node.name == self.me:
            node.name = "SELFVAR"
        elif node.name in self.locs:
            node.name = "ANYVAR"
        return node

    def visit_ExceptHandler(self, node):
        node = self.generic_visit(node)
        if node.name == self.me:
            node.name = "SELFVAR"
        elif node.name in self.locs:
            node.name = "ANYVAR"
        return node


def _site_nodes(f):
    """(node to print, names mentioned) for every simple statement and compound-statement header"""
    import copy
    out = []
    for n in own_nodes(f):
        if isinstance(n, (ast.Assign, ast.AugAssign, ast.AnnAssign, ast.Expr, ast.Return, ast.Raise, ast.Assert, ast.Delete)):
            out.append(n)
        elif isinstance(n, (ast.If, ast.While)):
            out.append(n.test)
        elif isinstance(n, (ast.For, ast.AsyncFor)):
            out.append(ast.Tuple(elts=[n.target, n.iter], ctx=ast.Load()))
        elif isinstance(n, (ast.With, ast.AsyncWith)):
            for it in n.items:
                out.append(ast.Tuple(elts=[it.context_expr] + ([it.optional_vars] if it.optional_vars else []), ctx=ast.Load()))
        elif isinstance(n, ast.ExceptHandler):
            out.append(ast.Tuple(elts=[n.type or ast.Constant(value=None), ast.Name(id=n.name or "_", ctx=ast.Load())], ctx=ast.Load()))
        elif isinstance(n, (ast.FunctionDef, ast.AsyncFunctionDef)):
            out.append(ast.Tuple(elts=[ast.Name(id=n.name, ctx=ast.Load()), ast.Constant(value="def(%s)" % ",".join(_params(n)))], ctx=ast.Load()))
    return out


def signatures(f):
    """local name -> sorted list of masked site texts"""
    import copy
    locs = local_names(f)
    if not locs:
        return {}
    sites = _site_nodes(f)
    mentions = []
    for s in sites:
        names = {x.id for x in ast.walk(s) if isinstance(x, ast.Name)}
        mentions.append(names)
    sig = {}
    for v in sorted(locs):
        texts = []
        for s, names in zip(sites, mentions):
            if v in names:
                try:
                    t = ast.unparse(ast.fix_missing_locations(_Mask(locs, v).visit(copy.deepcopy(s))))
                except Exception:
                    continue
                texts.append(" ".join(t.split()))
        sig[v] = sorted(texts)
    return sig


def _jaccard(a, b):
    if not a and not b:
        return 0.0
    from collections import Counter
    ca, cb = Counter(a), Counter(b)
    inter = sum((ca & cb).values())
    union = sum((ca | cb).values())
    return inter / union if union else 0.0


def match(actual, reference):
    """mutual-best partner by site similarity: {actual name: reference name} for names that
    differ; names that already agree with a reference local are never touched"""
    out = {}
    a_names = [a for a in actual if a not in reference]
    r_names = [r for r in reference if r not in actual]
    if not a_names or not r_names:
        return out
    score = {(a, r): _jaccard(actual[a], reference[r]) for a in a_names for r in r_names}
    for a in a_names:
        best = max(r_names, key=lambda r: score[(a, r)])
        if score[(a, best)] < THRESHOLD:
            continue
        back = max(a_names, key=lambda x: score[(x, best)])
        ties_a = [r for r in r_names if score[(a, r)] == score[(a, best)]]
        ties_r = [x for x in a_names if score[(x, best)] == score[(a, best)]]
        if back == a and len(ties_a) == 1 and len(ties_r) == 1:
            out[a] = best
    return out


def _all_names(f):
    """every identifier mentioned anywhere inside f (any scope): new names must avoid them"""
    names = set()
    for n in ast.walk(f):
        if isinstance(n, ast.Name):
            names.add(n.id)
        elif isinstance(n, ast.arg):
            names.add(n.arg)
        elif isinstance(n, (ast.FunctionDef, ast.AsyncFunctionDef, ast.ClassDef)):
            if n is not f:  # f's own name lives in the enclosing scope
                names.add(n.name)
        elif isinstance(n, ast.ExceptHandler) and n.name:
            names.add(n.name)
        elif isinstance(n, (ast.Global, ast.Nonlocal)):
            names.update(n.names)
        elif isinstance(n, ast.alias):
            names.add((n.asname or n.name).split(".")[0])
    return names


def _safe_mapping(f, mapping):
    """a renaming {old: new} of locals of f is capture-free when no new name is mentioned
    anywhere in f (in any scope) unless that mention is itself renamed away, and new names are
    distinct"""
    if len(set(mapping.values())) != len(mapping):
        return False
    used = _all_names(f)
    for old, new in mapping.items():
        if new in used and new not in mapping:  # `new` stays in use under its own name
            return False
        if new in dir(builtins) and new in used:
            return False
    return True


def _bound_in(scope):
    """names a nested scope binds itself (so an outer rename must not reach them)"""
    out = set()
    if isinstance(scope, (ast.FunctionDef, ast.AsyncFunctionDef, ast.Lambda)):
        out.update(_params(scope))
        if not isinstance(scope, ast.Lambda):
            out |= local_names(scope)
            for n in own_nodes(scope):
                if isinstance(n, ast.Global):
                    out.update(n.names)
    elif isinstance(scope, ast.ClassDef):
        for n in own_nodes(scope):
            if isinstance(n, ast.Name) and isinstance(n.ctx, ast.Store):
                out.add(n.id)
            elif isinstance(n, (ast.FunctionDef, ast.AsyncFunctionDef)):
                out.add(n.name)
    else:  # comprehensions
        for g in scope.generators:
            for x in ast.walk(g.target):
                if isinstance(x, ast.Name):
                    out.add(x.id)
    return out


def _apply(node, mapping, top=True):
    if not mapping:
        return
    if isinstance(node, SCOPES) and not top:
        if isinstance(node, (ast.FunctionDef, ast.AsyncFunctionDef)):
            # decorators and defaults are evaluated in the enclosing scope
            for d in node.decorator_list + node.args.defaults + [x for x in node.args.kw_defaults if x is not None]:
                _apply_expr(d, mapping)
        elif isinstance(node, ast.Lambda):
            for d in node.args.defaults + [x for x in node.args.kw_defaults if x is not None]:
                _apply_expr(d, mapping)
        inner = {k: v for k, v in mapping.items() if k not in _bound_in(node)}
        if isinstance(node, (ast.FunctionDef, ast.AsyncFunctionDef)):
            nl = set()
            for n in own_nodes(node):
                if isinstance(n, ast.Nonlocal):
                    n.names = [mapping.get(x, x) for x in n.names]
                    nl.update(n.names)
            inner = dict(inner)
            for k, v in mapping.items():
                if v in nl:
                    inner[k] = v
        if isinstance(node, (ast.ListComp, ast.SetComp, ast.GeneratorExp)):
            body = [node.elt] + node.generators
        elif isinstance(node, ast.DictComp):
            body = [node.key, node.value] + node.generators
        else:
            body = node.body if isinstance(node.body, list) else [node.body]
        for b in body:
            _walk_apply(b, inner)
        return
    body = node.body if isinstance(node.body, list) else [node.body]
    for b in body:
        _walk_apply(b, mapping)


def _apply_expr(e, mapping):
    _walk_apply(e, mapping)


def _walk_apply(n, mapping):
    if isinstance(n, SCOPES):
        if isinstance(n, (ast.FunctionDef, ast.AsyncFunctionDef)) and n.name in mapping:
            n.name = mapping[n.name]
        _apply(n, mapping, top=False)
        return
    if isinstance(n, ast.Name) and n.id in mapping:
        n.id = mapping[n.id]
    elif isinstance(n, ast.ExceptHandler) and n.name in mapping:
        n.name = mapping[n.name]
    for ch in ast.iter_child_nodes(n):
        _walk_apply(ch, mapping)


_ref_cache = None


def load_reference():
    global _ref_cache
    if _ref_cache is None:
        try:
            with open(REF_FILE) as fh:
                _ref_cache = json.load(fh)
        except FileNotFoundError:
            _ref_cache = {}
    return _ref_cache


def functions(tree, prefix="", _seen=None):
    """(qualname, node) of every function, outer before inner.  Several functions of one name in
    one scope (the five `new_sfunc` closures of combineSfuncs, one per arm) are told apart by their
    order: name, name#2, name#3, ..."""
    seen = {} if _seen is None else _seen
    for ch in ast.iter_child_nodes(tree):
        if isinstance(ch, (ast.FunctionDef, ast.AsyncFunctionDef)):
            k = seen.get(prefix + ch.name, 0) + 1
            seen[prefix + ch.name] = k
            yield prefix + ch.name + ("" if k == 1 else "#%d" % k), ch
        elif isinstance(ch, ast.ClassDef):
            yield from functions(ch, prefix + ch.name + ".", seen)
        elif isinstance(ch, (ast.If, ast.For, ast.While, ast.With, ast.Try)):
            yield from functions(ch, prefix, seen)
            for h in getattr(ch, "handlers", []):
                yield from functions(h, prefix, seen)


def derename_tree(tree, rel, log=None):
    """rename locals of every function of the module back to their reference names"""
    ref = load_reference().get(rel)
    if not ref:
        return 0
    n = 0

    def process(node, prefix):
        nonlocal n
        for qn, f in list(functions(node, prefix)):
            r = ref.get(qn)
            if r and (local_names(f) - set(r)) and (set(r) - local_names(f)):
                actual = signatures(f)
                m = match(actual, r)
                if m and _safe_mapping(f, m):
                    _apply(f, m)
                    n += len(m)
                    if log is not None:
                        log.append((rel, qn, dict(m)))
                elif m and log is not None:
                    log.append((rel, qn, "mapping %s not capture-free: left alone" % m))
            # nested functions (their names may just have been restored)
            process(f, qn + ".")

    process(tree, "")
    return n


def reference_of_tree(tree):
    out = {}

    def process(node, prefix):
        for qn, f in functions(node, prefix):
            s = signatures(f)
            if s:
                out[qn] = s
            process(f, qn + ".")

    process(tree, "")
    return out
