"""Extractor that inlines `self.m(...)` calls through a class hierarchy (AST only)."""
import ast

from .alg import AlgError, Rat
from .extract import Extractor, Closure, Opaque, _dotted
from .report import AnalysisError


def class_methods(prog, clsname):
    """{method name: Func} for clsname including inherited ones (nearest wins)."""
    # locate class
    found = None
    for m in prog.modules.values():
        if clsname in m.classes:
            found = (m, m.classes[clsname])
            break
    if found is None:
        raise AnalysisError("class %s not found" % clsname)
    mod, cnode = found
    out = {}
    for b in cnode.bases:
        bn = b.id if isinstance(b, ast.Name) else (b.attr if isinstance(b, ast.Attribute) else None)
        if bn and bn not in ("object",):
            try:
                out.update(class_methods(prog, bn))
            except AnalysisError:
                pass
    for qn, f in mod.funcs.items():
        if f.cls == clsname and qn == clsname + "." + f.name:
            out[f.name] = f
    return out


class ClassEx(Extractor):
    def __init__(self, prog, ctx, clsname, opaque=None, max_depth=14):
        self.methods = class_methods(prog, clsname)
        any_f = next(iter(self.methods.values()))
        super().__init__(ctx, any_f.module, max_depth=max_depth)
        self.prog = prog
        self.clsname = clsname
        self.opaque = opaque or {}
        for fn, parts in self.opaque.items():
            ctx.declare_func(fn, parts)
        self.instance_attrs = {}  # name -> Closure / value for `self.X = lambda` attributes

    def method_closure(self, name):
        f = self.methods.get(name)
        if f is None:
            return None
        ex = self
        clo = Closure(f.node, {}, ex, self.clsname + "." + name)
        clo.func = f
        return clo

    def call_method(self, name, args, kwargs=None):
        if name in self.opaque:
            return self.ctx.call(name, *[self.num(a) for a in args])
        if name in self.instance_attrs:
            v = self.instance_attrs[name]
            if isinstance(v, Closure):
                return self.call_closure(v, list(args), kwargs or {})
            if callable(v):
                return v(*args)
        clo = self.method_closure(name)
        if clo is None:
            raise AlgError("method %s.%s not found" % (self.clsname, name))
        saved = self.module
        self.module = clo.func.module
        try:
            return self.call_closure(clo, [Opaque("self")] + list(args), kwargs or {})
        finally:
            self.module = saved

    def on_call(self, node, fname, args, kwargs, env):
        if fname and fname.startswith("self.") and fname.count(".") == 1:
            return self.call_method(fname[5:], args, kwargs)
        raise AlgError("unmodelled call %s" % (fname or self.text(node)[:60]))

    def on_attr(self, d, node, env):
        return self.ctx.sym(d)
