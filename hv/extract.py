"""Extractor: Python AST expressions / straight-line statements -> E3 values.

A small abstract evaluator (constant propagation over the Rat domain).  Branches are
taken only when the caller-supplied `choose` hook decides the test; an undecided test is
an AlgError (-> ANALYSIS-ERROR), never a guess.  Numeric code outside the modelled
vocabulary aborts the obligation.
"""
import ast

from .alg import AlgError, Rat, Context

NUMPY_FUNCS = {
    "sqrt": "sqrt",
    "abs": "abs",
    "absolute": "abs",
    "fabs": "abs",
    "exp": "exp",
    "log": "log",
    "sin": "sin",
    "cos": "cos",
    "tan": "tan",
    "sign": "sign",
    "erf": "erf",
}
LOC_ATTRS = ("centre", "xlow", "ylow", "corners")


class PathRaises(Exception):
    """the evaluated path ends in a raise statement"""


class ReturnValue(Exception):
    def __init__(self, value):
        self.value = value


class Closure:
    def __init__(self, node, env, ex, name=None):
        self.node = node
        self.env = env
        self.ex = ex
        self.name = name or getattr(node, "name", "<lambda>")

    def __call__(self, *args, **kwargs):
        return self.ex.call_closure(self, list(args), kwargs)


class Opaque:
    """a value the domain does not interpret (kept so that unused values do not abort)"""

    def __init__(self, why):
        self.why = why

    def __repr__(self):
        return "<opaque %s>" % self.why


class Extractor:
    def __init__(self, ctx, module=None, max_depth=6):
        self.ctx = ctx
        self.module = module
        self.depth = 0
        self.max_depth = max_depth
        self.inlined = []
        self.strip_location = True

    # -- hooks to override -----------------------------------------------------------
    def on_name(self, name, env):
        raise AlgError("unbound name %s" % name)

    def on_attr(self, dotted_name, node, env):
        """read of an attribute chain not in env. default: leaf atom of that name"""
        return self.ctx.sym(dotted_name)

    def on_call(self, node, fname, args, kwargs, env):
        raise AlgError("unmodelled call %s" % (fname or ast.dump(node.func)[:60]))

    def on_subscript(self, node, value, env):
        if isinstance(value, (tuple, list)):
            idx = self.const_index(node.slice, env)
            if idx is not None:
                try:
                    return value[idx]
                except (IndexError, TypeError):
                    raise AlgError("subscript %s outside the sequence the walk holds" % self.text(node))
        raise AlgError("unmodelled subscript %s" % self.text(node))

    def choose(self, test, env):
        """True / False, or None when the test is not decided by the seed"""
        return self.try_bool(test, env)

    # -- helpers ---------------------------------------------------------------------
    def text(self, node):
        if self.module is not None:
            s = self.module.text(node)
            if s:
                return " ".join(s.split())
        try:
            return ast.unparse(node)
        except Exception:
            return "<node>"

    def const_index(self, node, env):
        try:
            v = self.expr(node, env)
        except AlgError:
            return None
        if isinstance(v, Rat):
            c = v.as_const()
            if c is not None and c.denominator == 1:
                return int(c)
        if isinstance(v, int):
            return v
        return None

    def try_bool(self, test, env):
        if isinstance(test, ast.Constant):
            return bool(test.value)
        if isinstance(test, ast.Name) and isinstance(env.get(test.id), bool):
            return env[test.id]
        if isinstance(test, ast.UnaryOp) and isinstance(test.op, ast.Not):
            v = self.try_bool(test.operand, env)
            return None if v is None else (not v)
        if isinstance(test, ast.BoolOp):
            vals = [self.try_bool(v, env) for v in test.values]
            if isinstance(test.op, ast.And):
                if any(v is False for v in vals):
                    return False
                if all(v is True for v in vals):
                    return True
                return None
            if any(v is True for v in vals):
                return True
            if all(v is False for v in vals):
                return False
            return None
        if isinstance(test, ast.Compare) and len(test.ops) == 1:
            try:
                a = self.expr(test.left, env)
                b = self.expr(test.comparators[0], env)
            except AlgError:
                return None
            op = test.ops[0]
            if isinstance(op, (ast.Is, ast.IsNot)):
                if a is None or b is None:
                    r = a is b
                    return r if isinstance(op, ast.Is) else not r
                return None
            if isinstance(a, Rat) and isinstance(b, Rat):
                ca, cb = a.as_const(), b.as_const()
                if ca is not None and cb is not None:
                    return {
                        ast.Eq: ca == cb,
                        ast.NotEq: ca != cb,
                        ast.Lt: ca < cb,
                        ast.LtE: ca <= cb,
                        ast.Gt: ca > cb,
                        ast.GtE: ca >= cb,
                    }.get(type(op))
            if isinstance(a, str) and isinstance(b, str):
                if isinstance(op, ast.Eq):
                    return a == b
                if isinstance(op, ast.NotEq):
                    return a != b
        return None

    # -- expressions -----------------------------------------------------------------
    def expr(self, node, env):
        ctx = self.ctx
        if isinstance(node, ast.Constant):
            v = node.value
            if isinstance(v, bool) or v is None or isinstance(v, str):
                return v
            if isinstance(v, (int, float)):
                return Rat.const(ctx, v)
            raise AlgError("constant %r" % (v,))
        if isinstance(node, ast.Name):
            if node.id in env:
                return env[node.id]
            return self.on_name(node.id, env)
        if isinstance(node, ast.Attribute):
            d = _dotted(node)
            if d is not None:
                if d in env:
                    return env[d]
                if d in ("numpy.pi", "np.pi", "math.pi"):
                    return ctx.sym("pi")
                if self.strip_location and node.attr in LOC_ATTRS:
                    return self.expr(node.value, env)
                # attribute of a known value?
                base = _dotted(node.value)
                if base is not None and base in env and not isinstance(env[base], Opaque):
                    return self.attr_of(env[base], node.attr, node, env)
                return self.on_attr(d, node, env)
            if self.strip_location and node.attr in LOC_ATTRS:
                return self.expr(node.value, env)
            v = self.expr(node.value, env)
            return self.attr_of(v, node.attr, node, env)
        if isinstance(node, ast.BinOp):
            a = self.expr(node.left, env)
            b = self.expr(node.right, env)
            return self.binop(node.op, a, b, node)
        if isinstance(node, ast.UnaryOp):
            if isinstance(node.op, ast.Not):
                v = self.try_bool(node, env)
                if v is None:
                    raise AlgError("undecided boolean")
                return v
            v = self.expr(node.operand, env)
            if isinstance(node.op, ast.USub):
                return -self.num(v, node)
            if isinstance(node.op, ast.UAdd):
                return self.num(v, node)
            raise AlgError("unary op")
        if isinstance(node, ast.Call):
            return self.call(node, env)
        if isinstance(node, ast.Tuple):
            return tuple(self.expr(e, env) for e in node.elts)
        if isinstance(node, ast.List):
            return [self.expr(e, env) for e in node.elts]
        if isinstance(node, ast.Subscript):
            try:
                v = self.expr(node.value, env)
            except AlgError:
                v = None
            return self.on_subscript(node, v, env)
        if isinstance(node, ast.Lambda):
            return Closure(node, env, self)
        if isinstance(node, ast.IfExp):
            dec = self.choose(node.test, env)
            if dec is None:
                raise AlgError("undecided conditional expression: %s" % self.text(node.test))
            if dec:
                return self.expr(node.body, env)
            return self.expr(node.orelse, env)
        if isinstance(node, ast.Compare) or isinstance(node, ast.BoolOp):
            # a decision kept in a local (`flag = a < b; ...; if flag:`) is decided like the branch
            # test it will become: by the evaluator's seeds first, then by the values
            v = self.choose(node, env)
            if not isinstance(v, bool):
                raise AlgError("undecided comparison %s" % self.text(node))
            return v
        raise AlgError("unmodelled expression %s: %s" % (type(node).__name__, self.text(node)[:80]))

    def attr_of(self, value, attr, node, env):
        if self.strip_location and attr in LOC_ATTRS:
            return value
        raise AlgError("attribute .%s of computed value" % attr)

    def num(self, v, node=None):
        if isinstance(v, Rat):
            return v
        if isinstance(v, (int, float)) and not isinstance(v, bool):
            return Rat.const(self.ctx, v)
        raise AlgError("non-numeric value %r in arithmetic%s" % (v, " at " + self.text(node) if node is not None else ""))

    def binop(self, op, a, b, node=None):
        a = self.num(a, node)
        b = self.num(b, node)
        if isinstance(op, ast.Add):
            return a + b
        if isinstance(op, ast.Sub):
            return a - b
        if isinstance(op, ast.Mult):
            return a * b
        if isinstance(op, ast.Div):
            return a / b
        if isinstance(op, ast.Pow):
            return a ** b
        raise AlgError("operator %s" % type(op).__name__)

    def pre_call(self, node, fname, env):
        """hook before argument evaluation; return NotImplemented to continue"""
        return NotImplemented

    def call(self, node, env):
        fname = _dotted(node.func)
        pre = self.pre_call(node, fname, env)
        if pre is not NotImplemented:
            return pre
        # closures bound in env
        target = None
        if fname is not None and fname in env:
            target = env[fname]
        elif isinstance(node.func, ast.Lambda):
            target = Closure(node.func, env, self)
        if isinstance(target, Closure):
            args = [self.expr(a, env) for a in node.args]
            kwargs = {k.arg: self.expr(k.value, env) for k in node.keywords}
            return self.call_closure(target, args, kwargs)
        if callable(target) and not isinstance(target, Rat):
            args = [self.expr(a, env) for a in node.args]
            kwargs = {k.arg: self.expr(k.value, env) for k in node.keywords}
            return target(*args, **kwargs)
        if fname is not None:
            parts = fname.split(".")
            if parts[0] in ("numpy", "np", "math", "scipy", "special") or fname in NUMPY_FUNCS:
                short = parts[-1]
                if short in NUMPY_FUNCS:
                    args = [self.num(self.expr(a, env), node) for a in node.args]
                    return self.ctx.call(NUMPY_FUNCS[short], *args)
                if short == "float64" or short == "float":
                    return self.expr(node.args[0], env)
            if fname == "float":
                return self.expr(node.args[0], env)
        args = []
        for a in node.args:
            if isinstance(a, ast.Starred):
                v = self.expr(a.value, env)
                args.extend(v)
            else:
                args.append(self.expr(a, env))
        kwargs = {k.arg: self.expr(k.value, env) for k in node.keywords}
        try:
            return self.on_call(node, fname, args, kwargs, env)
        except AlgError as first:
            # a call `self._helper(...)` that the property's evaluator does not know: if the module
            # has exactly one method of that name, evaluate its body in place (helper methods
            # extracted from the function under analysis); attributes of self keep their meaning
            clo = self._self_method(fname)
            if clo is None:
                raise
            try:
                return self.call_closure(clo, [Opaque("self")] + list(args), kwargs)
            except AlgError:
                raise first

    def _self_method(self, fname):
        if not fname or not fname.startswith("self.") or fname.count(".") != 1 or self.module is None or not hasattr(self.module, "funcs"):
            return None
        name = fname[5:]
        cands = [f for q, f in self.module.funcs.items() if f.name == name and f.cls is not None and q == "%s.%s" % (f.cls, name)]
        if len(cands) != 1 or cands[0].node.args.vararg is not None:
            return None
        f = cands[0]
        if f.node.decorator_list:
            return None
        clo = Closure(f.node, {}, self, f.qualname)
        return clo

    def call_closure(self, clo, args, kwargs):
        if self.depth >= self.max_depth:
            raise AlgError("inlining depth exceeded at %s" % clo.name)
        self.depth += 1
        self.inlined.append(clo.name)
        try:
            node = clo.node
            env = dict(clo.env)
            a = node.args
            params = [p.arg for p in a.posonlyargs + a.args]
            defaults = a.defaults
            nd = len(defaults)
            for i, p in enumerate(params):
                if i < len(args):
                    env[p] = args[i]
                elif p in kwargs:
                    env[p] = kwargs[p]
                else:
                    di = i - (len(params) - nd)
                    if di >= 0:
                        env[p] = self.expr(defaults[di], clo.env)
                    else:
                        raise AlgError("missing argument %s of %s" % (p, clo.name))
            for p, d in zip(a.kwonlyargs, a.kw_defaults):
                if p.arg in kwargs:
                    env[p.arg] = kwargs[p.arg]
                elif d is not None:
                    env[p.arg] = self.expr(d, clo.env)
            if isinstance(node, ast.Lambda):
                return self.expr(node.body, env)
            try:
                self.block(node.body, env)
            except ReturnValue as r:
                return r.value
            return None
        finally:
            self.depth -= 1

    # -- statements ------------------------------------------------------------------
    def block(self, stmts, env):
        for s in stmts:
            self.stmt(s, env)

    def stmt(self, s, env):
        if isinstance(s, ast.Expr):
            if isinstance(s.value, ast.Constant):
                return
            if isinstance(s.value, ast.Call):
                d = _dotted(s.value.func)
                if d in ("print", "warnings.warn"):
                    return
                f = s.value.func
                # xs.append(v) / xs.extend(vs) on a local list the walk holds as a Python list
                if isinstance(f, ast.Attribute) and f.attr in ("append", "extend") and isinstance(f.value, ast.Name) \
                        and isinstance(env.get(f.value.id), list) and len(s.value.args) == 1 and not s.value.keywords:
                    try:
                        v = self.expr(s.value.args[0], env)
                    except AlgError as e:
                        v = Opaque(str(e))
                    if f.attr == "append":
                        env[f.value.id] = env[f.value.id] + [v]
                    elif isinstance(v, (list, tuple)):
                        env[f.value.id] = env[f.value.id] + list(v)
                    else:
                        env[f.value.id] = Opaque("extend with a non-literal sequence")
                    return
            try:
                self.expr(s.value, env)
            except AlgError:
                pass
            return
        if isinstance(s, ast.Assign):
            try:
                v = self.expr(s.value, env)
            except AlgError as e:
                v = Opaque(str(e))
            for t in s.targets:
                self.assign(t, v, env)
            return
        if isinstance(s, ast.AugAssign):
            cur = self.expr(_load(s.target), env)
            v = self.expr(s.value, env)
            self.assign(s.target, self.binop(s.op, cur, v, s), env)
            return
        if isinstance(s, ast.AnnAssign) and s.value is not None:
            self.assign(s.target, self.expr(s.value, env), env)
            return
        if isinstance(s, ast.Return):
            raise ReturnValue(None if s.value is None else self.expr(s.value, env))
        if isinstance(s, ast.If):
            dec = self.choose(s.test, env)
            if dec is True:
                self.block(s.body, env)
            elif dec is False:
                self.block(s.orelse, env)
            else:
                # undecided: only allowed when exactly one arm survives (the other raises)
                live = []
                for arm in (s.body, s.orelse):
                    e2 = dict(env)
                    try:
                        self.block(arm, e2)
                        live.append(e2)
                    except PathRaises:
                        pass
                    except ReturnValue:
                        raise AlgError("undecided branch with return: %s" % self.text(s.test))
                if not live:
                    raise PathRaises("both arms raise: " + self.text(s.test)[:80])
                if len(live) == 2:
                    if _same_env(live[0], live[1]):
                        env.update(live[0])
                        return
                    raise AlgError("undecided branch test: %s" % self.text(s.test))
                env.update(live[0])
            return
        if isinstance(s, (ast.FunctionDef,)):
            env[s.name] = Closure(s, env, self)
            return
        if isinstance(s, ast.Raise):
            raise PathRaises(self.text(s)[:120])
        if isinstance(s, (ast.Assert, ast.Pass, ast.Import, ast.ImportFrom)):
            return
        raise AlgError("unmodelled statement %s" % type(s).__name__)

    def assign(self, target, v, env):
        if isinstance(target, ast.Name):
            env[target.id] = v
            return
        if isinstance(target, ast.Attribute):
            d = _dotted(target)
            if d is not None:
                if self.strip_location and target.attr in LOC_ATTRS:
                    d = _dotted(target.value)
                env[d] = v
                return
        if isinstance(target, (ast.Tuple, ast.List)):
            if isinstance(v, Opaque):
                for t in target.elts:
                    self.assign(t, v, env)
                return
            if not isinstance(v, (tuple, list)) or len(v) != len(target.elts):
                raise AlgError("tuple unpacking mismatch")
            for t, x in zip(target.elts, v):
                self.assign(t, x, env)
            return
        if isinstance(target, ast.Subscript):
            # element store: remember by text
            env["$store:" + self.text(target)] = v
            return
        raise AlgError("unmodelled assignment target")


def _same_env(a, b):
    if a.keys() != b.keys():
        return False
    for k in a:
        x, y = a[k], b[k]
        if x is y:
            continue
        if isinstance(x, Rat) and isinstance(y, Rat):
            if not (x - y).is_zero():
                return False
        elif isinstance(x, (Closure, Opaque)) and type(x) is type(y):
            continue
        elif x != y:
            return False
    return True


def _dotted(node):
    parts = []
    while isinstance(node, ast.Attribute):
        parts.append(node.attr)
        node = node.value
    if isinstance(node, ast.Name):
        parts.append(node.id)
        return ".".join(reversed(parts))
    return None


def _load(node):
    n = ast.copy_location(ast.parse(ast.unparse(node), mode="eval").body, node)
    return n
