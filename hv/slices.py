"""E4 (part): affine slice algebra on 1-D arrays of symbolic length.

A slice a:b:s on an axis of length L=alpha*n+beta is normalised to an arithmetic
progression (start, step, count) with start/count affine in n (Fractions).
"""
import ast
from fractions import Fraction


class Affine:
    """c0 + c1*n"""

    def __init__(self, c0=0, c1=0):
        self.c0 = Fraction(c0)
        self.c1 = Fraction(c1)

    def __add__(self, o):
        o = _aff(o)
        return Affine(self.c0 + o.c0, self.c1 + o.c1)

    def __sub__(self, o):
        o = _aff(o)
        return Affine(self.c0 - o.c0, self.c1 - o.c1)

    def __eq__(self, o):
        o = _aff(o)
        return self.c0 == o.c0 and self.c1 == o.c1

    def __repr__(self):
        if self.c1 == 0:
            return str(self.c0)
        return "%s*n%+d" % (self.c1, self.c0) if self.c0 else "%s*n" % self.c1


def _aff(o):
    return o if isinstance(o, Affine) else Affine(o, 0)


def norm_slice(lo, hi, step, length):
    """progression (start, step, count) of slice lo:hi:step on an axis of affine `length`.
    lo/hi None or int; step positive int.  count is exact when (stop-start) is divisible or
    the parity is determined by the affine forms; otherwise raises ValueError."""
    step = 1 if step is None else step
    if step <= 0:
        raise ValueError("non-positive step")
    start = Affine(0) if lo is None else (Affine(lo) if lo >= 0 else length + lo)
    stop = length if hi is None else (Affine(hi) if hi >= 0 else length + hi)
    span = stop - start
    # count = ceil(span/step); exact if span.c1/step and span.c0/step are such that the
    # ceiling is affine: require span.c1 % step == 0, then ceil(c0/step) is a constant
    if span.c1 % step != 0:
        raise ValueError("slice length not affine")
    c0 = -((-span.c0) // step)
    return start, step, Affine(c0, span.c1 / step)


def slice_of(node):
    """(lo, hi, step) ints/None from an ast.Slice or None if not a plain slice"""
    if not isinstance(node, ast.Slice):
        return None

    def val(x):
        if x is None:
            return None
        if isinstance(x, ast.Constant) and isinstance(x.value, int):
            return x.value
        if isinstance(x, ast.UnaryOp) and isinstance(x.op, ast.USub) and isinstance(x.operand, ast.Constant):
            return -x.operand.value
        raise ValueError("non-constant slice bound")

    return val(node.lower), val(node.upper), val(node.step)


def is_face_difference(mod, value, arrname):
    """value == (arr[2::2] - arr[:-2:2])[...]: element k is arr[2k+2]-arr[2k] (faces of cell k)
    for an array of length 2n+1"""
    v = value
    while isinstance(v, ast.Subscript) and not (isinstance(v.value, ast.Attribute) and v.value.attr == arrname):
        v = v.value
    if not (isinstance(v, ast.BinOp) and isinstance(v.op, ast.Sub)):
        return False, "not a difference: " + " ".join(mod.text(value).split())[:80]
    L = Affine(1, 2)
    try:
        progs = []

        def prog_of(side):
            """(first, step, count) of a chain of 1-D slices arr[s1][s2]... of the array"""
            if isinstance(side, ast.Subscript) and isinstance(side.value, ast.Attribute) and side.value.attr == arrname:
                return norm_slice(*slice_of(side.slice), L)
            if isinstance(side, ast.Subscript) and isinstance(side.value, ast.Subscript):
                inner = prog_of(side.value)
                if inner is None:
                    return None
                f1, st1, c1 = inner
                f2, st2, c2 = norm_slice(*slice_of(side.slice), c1)
                f2s = Affine(f2.c0 * st1, f2.c1 * st1)
                return f1 + f2s, st1 * st2, c2
            return None

        for side in (v.left, v.right):
            pr = prog_of(side)
            if pr is None:
                return False, "operand is not a slice of %s" % arrname
            progs.append(pr)
    except ValueError as e:
        return False, str(e)
    (s1, st1, c1), (s2, st2, c2) = progs
    ok = st1 == 2 and st2 == 2 and s1 == Affine(2) and s2 == Affine(0) and c1 == c2 and c1 == Affine(0, 1)
    return ok, "upper: start %s step %s count %s ; lower: start %s step %s count %s" % (s1, st1, c1, s2, st2, c2)


def grid1d_facts(mod, f):
    """structural facts of the 1-D grid builder"""
    facts = {}
    body = f.node.body
    params = [a.arg for a in f.node.args.args]
    nname, fname = params[1], params[2]
    # face values: [spacingFunc(i) for i in range(n + 1)]
    face = None
    res = None
    for s in body:
        if isinstance(s, ast.Assign) and isinstance(s.value, ast.ListComp):
            lc = s.value
            g = lc.generators[0]
            t = " ".join(mod.text(g.iter).split())
            okc = isinstance(lc.elt, ast.Call) and isinstance(lc.elt.func, ast.Name) and lc.elt.func.id == fname and len(lc.elt.args) == 1 \
                and isinstance(lc.elt.args[0], ast.Name) and isinstance(g.target, ast.Name) and lc.elt.args[0].id == g.target.id
            facts["face values are spacingFunc(i) for i = 0..n"] = (okc and t in ("range(%s + 1)" % nname, "range(0, %s + 1)" % nname), t, s)
            face = s.targets[0].id
    if face is None:
        facts["face values are spacingFunc(i) for i = 0..n"] = (False, "list comprehension not found", None)
    L = Affine(1, 2)
    even = odd = None
    for s in body:
        if isinstance(s, ast.Assign) and isinstance(s.targets[0], ast.Subscript) and isinstance(s.targets[0].value, ast.Name):
            try:
                p = norm_slice(*slice_of(s.targets[0].slice), L)
            except (ValueError, TypeError):
                continue
            res = s.targets[0].value.id
            if p[0] == Affine(0) and p[1] == 2:
                even = (s, p)
            elif p[0] == Affine(1) and p[1] == 2:
                odd = (s, p)
    ok = even is not None and isinstance(even[0].value, ast.Name) and even[0].value.id == face and even[1][2] == Affine(1, 1)
    facts["even entries (n+1 of them) are the face values"] = (ok, "" if even is None else "count %s" % even[1][2], even[0] if even else None)
    ok = False
    detail = "statement not found"
    if odd is not None:
        v = odd[0].value
        # 0.5 * (result[:-1:2] + result[2::2])
        try:
            half, summ = None, None
            if isinstance(v, ast.BinOp) and isinstance(v.op, ast.Mult):
                for a, b in ((v.left, v.right), (v.right, v.left)):
                    if isinstance(a, ast.Constant) and a.value == 0.5:
                        half, summ = a, b
            elif isinstance(v, ast.BinOp) and isinstance(v.op, ast.Div) and isinstance(v.right, ast.Constant) and v.right.value in (2, 2.0):
                half, summ = v.right, v.left
            if summ is not None and isinstance(summ, ast.BinOp) and isinstance(summ.op, ast.Add):
                ps = sorted([norm_slice(*slice_of(x.slice), L) for x in (summ.left, summ.right)], key=lambda p: p[0].c0)
                ok = (ps[0][0] == Affine(0) and ps[1][0] == Affine(2) and ps[0][1] == 2 and ps[1][1] == 2
                      and ps[0][2] == Affine(0, 1) and ps[1][2] == Affine(0, 1) and odd[1][2] == Affine(0, 1)
                      and all(isinstance(x.value, ast.Name) and x.value.id == res for x in (summ.left, summ.right)))
                detail = "operands start %s and %s, counts %s,%s" % (ps[0][0], ps[1][0], ps[0][2], ps[1][2])
        except (ValueError, AttributeError, TypeError) as e:
            detail = str(e)
    facts["odd entries are midpoints of the neighbouring faces"] = (ok, detail, odd[0] if odd else None)
    # guard: raise dominated by `not (all(d>0) or all(d<0))` before the return
    guard = None
    ret_i = None
    for i, s in enumerate(body):
        if isinstance(s, ast.If) and any(isinstance(b, ast.Raise) for b in s.body):
            guard = (i, s)
        if isinstance(s, ast.Return):
            ret_i = i
    ok = False
    detail = "guard not found"
    if guard is not None and ret_i is not None and guard[0] < ret_i:
        t = " ".join(mod.text(guard[1].test).split())

        def sign_all(n):
            """(+1|-1, operand text) for numpy.all(<x strictly above/below zero>), either spelling"""
            if not (isinstance(n, ast.Call) and mod.text(n.func) in ("numpy.all", "all") and len(n.args) == 1):
                return None
            c = n.args[0]
            if not (isinstance(c, ast.Compare) and len(c.ops) == 1 and isinstance(c.ops[0], (ast.Lt, ast.Gt))):
                return None
            a, b = c.left, c.comparators[0]
            zero = lambda z: isinstance(z, ast.Constant) and z.value == 0 and not isinstance(z.value, bool)
            if zero(b) and not zero(a):
                return (1 if isinstance(c.ops[0], ast.Gt) else -1, mod.text(a))
            if zero(a) and not zero(b):
                return (1 if isinstance(c.ops[0], ast.Lt) else -1, mod.text(b))
            return None

        tst = guard[1].test
        parts = None
        if isinstance(tst, ast.UnaryOp) and isinstance(tst.op, ast.Not) and isinstance(tst.operand, ast.BoolOp) and isinstance(tst.operand.op, ast.Or) and len(tst.operand.values) == 2:
            parts = [sign_all(v) for v in tst.operand.values]
        elif isinstance(tst, ast.BoolOp) and isinstance(tst.op, ast.And) and len(tst.values) == 2 and all(isinstance(v, ast.UnaryOp) and isinstance(v.op, ast.Not) for v in tst.values):
            parts = [sign_all(v.operand) for v in tst.values]
        # NaN-safe: the raise is taken unless one of the two positive statements holds
        nan_safe = bool(parts) and None not in parts and {p[0] for p in parts} == {1, -1} and parts[0][1] == parts[1][1]
        ok = nan_safe
        detail = t
    facts["strict-monotonicity guard (NaN-safe `not (all>0 or all<0)` form) dominates the return"] = (ok, detail, guard[1] if guard else None)
    # the guard is on consecutive differences of the whole result
    okd = False
    for s in body:
        if isinstance(s, ast.Assign) and isinstance(s.value, ast.BinOp) and isinstance(s.value.op, ast.Sub):
            try:
                a = norm_slice(*slice_of(s.value.left.slice), L)
                b = norm_slice(*slice_of(s.value.right.slice), L)
                okd = a[0] == Affine(1) and b[0] == Affine(0) and a[1] == 1 and b[1] == 1 and a[2] == Affine(0, 2) and b[2] == Affine(0, 2)
            except (ValueError, AttributeError, TypeError):
                pass
    facts["guarded quantity is every consecutive difference result[k+1]-result[k]"] = (okd, "", None)
    return facts
