"""E7: effect analyses (parameter mutation, process-global writes, escaping closures)."""
import ast

from .flow import MustFlow
from .model import dotted, walk_own

MUTATING_METHODS = {"sort", "reverse", "append", "extend", "insert", "pop", "remove", "clear", "fill", "resize", "update", "setdefault", "popitem", "put", "itemset", "setflags"}
FRESH_CALLS = {"deepcopy", "copy.deepcopy", "copy.copy", "numpy.array", "np.array", "numpy.copy", "np.copy", "list", "dict", "numpy.zeros", "numpy.concatenate", "np.concatenate", "numpy.linspace", "np.linspace"}


def is_fresh_expr(v, fresh, params):
    """expression certainly denotes an object distinct from every caller-owned one"""
    if isinstance(v, ast.Call):
        d = dotted(v.func)
        if d in FRESH_CALLS:
            return True
        if isinstance(v.func, ast.Attribute) and v.func.attr in ("copy", "astype", "tolist"):
            return True
        return False
    if isinstance(v, (ast.BinOp, ast.UnaryOp, ast.List, ast.ListComp, ast.Tuple, ast.Dict, ast.Constant, ast.Compare)):
        return True
    if isinstance(v, ast.Name):
        return v.id in fresh or v.id not in params
    if isinstance(v, ast.Subscript):
        # slicing a list copies; slicing an ndarray is a view: only fresh if the base is
        return isinstance(v.value, ast.Name) and v.value.id in fresh
    return False


def param_mutations(fnode, module, mutating_functions=("swap_points",), extra_owned=()):
    """[(node, param, kind)] for in-place changes of caller-owned parameter objects.
    extra_owned: further names whose objects are not the function's own (e.g. "self" when the
    question is whether a method is pure, or the free variables of a nested function)."""
    a = fnode.args
    params = [p.arg for p in a.posonlyargs + a.args + a.kwonlyargs if p.arg not in ("self", "cls")] + list(extra_owned)
    if a.vararg:
        params.append(a.vararg.arg)
    owned0 = frozenset(params)
    found = []

    # facts: names currently bound to caller-owned objects (may-alias over-approximation is
    # what we want, so we run a MUST analysis on the complement: names certainly fresh)
    allnames = set(params)
    for n in ast.walk(fnode):
        if isinstance(n, ast.Name):
            allnames.add(n.id)

    def root_name(t):
        while isinstance(t, (ast.Subscript, ast.Attribute)):
            t = t.value
        return t.id if isinstance(t, ast.Name) else None

    def transfer(s, fresh):
        owned = lambda nm: nm in allnames and nm not in fresh and (nm in tracked)
        if isinstance(s, ast.AugAssign):
            if isinstance(s.target, ast.Name):
                if s.target.id in tracked and s.target.id not in fresh:
                    found.append((s, s.target.id, "augmented assignment (in place for arrays)"))
                return fresh
            r = root_name(s.target)
            if r in tracked and r not in fresh:
                found.append((s, r, "augmented element/attribute assignment"))
            return fresh
        if isinstance(s, ast.Assign):
            for t in s.targets:
                if isinstance(t, ast.Name):
                    if is_fresh_expr(s.value, fresh, tracked):
                        fresh = fresh | {t.id}
                    else:
                        fresh = fresh - {t.id}
                        if isinstance(s.value, ast.Name) and s.value.id in tracked and s.value.id not in fresh:
                            tracked.add(t.id)
                        elif isinstance(s.value, (ast.Subscript, ast.Attribute, ast.Call)):
                            r = root_name(s.value) if not isinstance(s.value, ast.Call) else None
                            if isinstance(s.value, ast.Call):
                                d = dotted(s.value.func)
                                if d in ("numpy.asarray", "np.asarray", "numpy.asanyarray") and s.value.args and isinstance(s.value.args[0], ast.Name):
                                    r = s.value.args[0].id
                            if r in tracked and r not in fresh:
                                tracked.add(t.id)
                elif isinstance(t, (ast.Subscript, ast.Attribute)):
                    r = root_name(t)
                    if r in tracked and r not in fresh:
                        found.append((s, r, "element/attribute store"))
                elif isinstance(t, (ast.Tuple, ast.List)):
                    for e in t.elts:
                        if isinstance(e, ast.Name):
                            fresh = fresh - {e.id}
            return fresh
        if isinstance(s, ast.Expr) and isinstance(s.value, ast.Call):
            c = s.value
            if isinstance(c.func, ast.Attribute) and c.func.attr in MUTATING_METHODS:
                r = root_name(c.func.value)
                if r in tracked and r not in fresh:
                    found.append((s, r, "mutating method .%s()" % c.func.attr))
            d = dotted(c.func)
            if d in mutating_functions:
                for arg in c.args:
                    if isinstance(arg, ast.Name) and arg.id in tracked and arg.id not in fresh:
                        found.append((s, arg.id, "passed to mutating function %s" % d))
        return fresh

    tracked = set(params)
    MustFlow(transfer, loops_once=False).run(fnode, frozenset())
    # de-duplicate (loops are visited once, but joins may re-run transfer)
    seen = set()
    out = []
    for node, p, kind in found:
        k = (node.lineno, node.col_offset, p)
        if k not in seen:
            seen.add(k)
            out.append((node, p, kind))
    return out


def global_writes(prog, skip_prefixes=("hypnotoad/gui", "hypnotoad/scripts", "examples")):
    """process-global state writes inside functions: `global` statements, stores to
    attributes of classes (Class.attr = ...), mutation of module-level or class-level
    mutable containers, mutated mutable default arguments."""
    out = []
    classes = set()
    for m in prog.modules.values():
        for c in m.classes:
            classes.add(c.split(".")[-1])
    for m in prog.modules.values():
        if m.rel.startswith(skip_prefixes):
            continue
        modlevel_mut = set()
        for s in m.tree.body:
            if isinstance(s, ast.Assign) and isinstance(s.targets[0], ast.Name) and isinstance(s.value, (ast.List, ast.Dict, ast.Set, ast.ListComp, ast.DictComp)):
                modlevel_mut.add(s.targets[0].id)
            if isinstance(s, ast.Assign) and isinstance(s.targets[0], ast.Name) and isinstance(s.value, ast.Call) and dotted(s.value.func) in ("dict", "list", "set", "OrderedDict", "collections.OrderedDict", "defaultdict"):
                modlevel_mut.add(s.targets[0].id)
        class_mut = {}
        for cname, cnode in m.classes.items():
            for s in cnode.body:
                if isinstance(s, ast.Assign) and isinstance(s.targets[0], ast.Name) and isinstance(s.value, (ast.List, ast.Dict, ast.Set)):
                    class_mut.setdefault(cname, set()).add(s.targets[0].id)
        for f in m.funcs.values():
            local_bound = set(a.arg for a in f.node.args.args + f.node.args.kwonlyargs)
            for n in walk_own(f.node):
                if isinstance(n, ast.Assign):
                    for t in n.targets:
                        if isinstance(t, ast.Name):
                            local_bound.add(t.id)
            mut_defaults = set()
            args = f.node.args
            for a, d in zip(args.args[len(args.args) - len(args.defaults):], args.defaults):
                if isinstance(d, (ast.List, ast.Dict, ast.Set)):
                    mut_defaults.add(a.arg)
            for n in walk_own(f.node):
                if isinstance(n, (ast.Global, ast.Nonlocal)) and isinstance(n, ast.Global):
                    out.append((f, n, "global statement: %s" % ", ".join(n.names)))
                tgts = []
                if isinstance(n, ast.Assign):
                    tgts = n.targets
                elif isinstance(n, ast.AugAssign):
                    tgts = [n.target]
                for t in tgts:
                    base = t
                    while isinstance(base, (ast.Subscript, ast.Attribute)):
                        prev = base
                        base = base.value
                    if isinstance(t, ast.Attribute) and isinstance(t.value, ast.Name) and t.value.id in classes and t.value.id not in local_bound:
                        out.append((f, n, "store to class attribute %s.%s" % (t.value.id, t.attr)))
                    if isinstance(t, ast.Subscript) and isinstance(base, ast.Name) and base.id in modlevel_mut and base.id not in local_bound:
                        out.append((f, n, "store into module-level container %s" % base.id))
                    if isinstance(t, (ast.Subscript,)) and isinstance(base, ast.Name) and base.id in mut_defaults:
                        out.append((f, n, "store into mutable default argument %s" % base.id))
                    if f.cls and isinstance(t, ast.Subscript) and isinstance(t.value, ast.Attribute) and isinstance(t.value.value, ast.Name) and t.value.value.id == "self" \
                            and t.value.attr in class_mut.get(f.cls, ()) and not _assigned_on_self(m, f.cls, t.value.attr):
                        out.append((f, n, "store into class-level container self.%s" % t.value.attr))
                if isinstance(n, ast.Expr) and isinstance(n.value, ast.Call) and isinstance(n.value.func, ast.Attribute) and n.value.func.attr in MUTATING_METHODS:
                    v = n.value.func.value
                    if isinstance(v, ast.Name) and v.id in modlevel_mut and v.id not in local_bound:
                        out.append((f, n, "mutating call on module-level container %s" % v.id))
                    if isinstance(v, ast.Name) and v.id in mut_defaults:
                        out.append((f, n, "mutating call on mutable default argument %s" % v.id))
                    if isinstance(v, ast.Attribute) and isinstance(v.value, ast.Name) and v.value.id in classes:
                        out.append((f, n, "mutating call on class attribute %s.%s" % (v.value.id, v.attr)))
                    if f.cls and isinstance(v, ast.Attribute) and isinstance(v.value, ast.Name) and v.value.id == "self" and v.attr in class_mut.get(f.cls, ()) \
                            and not _assigned_on_self(m, f.cls, v.attr):
                        out.append((f, n, "mutating call on class-level container self.%s" % v.attr))
    return out


def _assigned_on_self(m, cls, attr):
    for f in m.funcs.values():
        if f.cls == cls:
            for n in walk_own(f.node):
                if isinstance(n, ast.Assign):
                    for t in n.targets:
                        if isinstance(t, ast.Attribute) and isinstance(t.value, ast.Name) and t.value.id == "self" and t.attr == attr:
                            return True
    return False


def late_bound_closures(fnode, module):
    """closures (lambda / nested def) created inside a loop that read a name assigned in
    that loop (the loop target or a name assigned in the loop body) and *escape* the
    iteration: stored into an attribute / subscript / container, returned, or appended.
    Returns [(closure node, loop node, captured names, how it escapes)]"""
    out = []
    for loop in ast.walk(fnode):
        if not isinstance(loop, (ast.For, ast.While)):
            continue
        assigned = set()
        if isinstance(loop, ast.For):
            for n in ast.walk(loop.target):
                if isinstance(n, ast.Name):
                    assigned.add(n.id)
        for n in ast.walk(loop):
            if isinstance(n, ast.Assign):
                for t in n.targets:
                    for x in ast.walk(t):
                        if isinstance(x, ast.Name) and isinstance(x.ctx, ast.Store):
                            assigned.add(x.id)
            elif isinstance(n, (ast.AugAssign, ast.AnnAssign)) and isinstance(n.target, ast.Name):
                assigned.add(n.target.id)
        for stmt in _stmts(loop.body):
            closures = []
            if isinstance(stmt, ast.Assign):
                for lam in ast.walk(stmt.value):
                    if isinstance(lam, ast.Lambda):
                        closures.append(lam)
                escapes = None
                for t in stmt.targets:
                    if isinstance(t, (ast.Attribute, ast.Subscript)):
                        escapes = "stored into " + " ".join(module.text(t).split())
                if escapes is None:
                    continue
            elif isinstance(stmt, ast.Return) and stmt.value is not None:
                closures = [l for l in ast.walk(stmt.value) if isinstance(l, ast.Lambda)]
                escapes = "returned"
            elif isinstance(stmt, ast.Expr) and isinstance(stmt.value, ast.Call) and isinstance(stmt.value.func, ast.Attribute) and stmt.value.func.attr in ("append", "add", "setdefault", "insert"):
                closures = [l for a in stmt.value.args for l in ast.walk(a) if isinstance(l, ast.Lambda)]
                escapes = "added to a container"
            else:
                continue
            for lam in closures:
                params = {a.arg for a in lam.args.args + lam.args.kwonlyargs}
                free = set()
                for x in ast.walk(lam.body):
                    if isinstance(x, ast.Name) and isinstance(x.ctx, ast.Load) and x.id not in params:
                        free.add(x.id)
                cap = sorted(free & assigned)
                if cap:
                    out.append((lam, loop, cap, escapes))
    return out


def _stmts(body):
    for s in body:
        yield s
        for fld in ("body", "orelse", "finalbody"):
            sub = getattr(s, fld, None)
            if isinstance(sub, list) and not isinstance(s, (ast.FunctionDef, ast.ClassDef, ast.For, ast.While)):
                yield from _stmts(sub)
        if isinstance(s, ast.Try):
            for h in s.handlers:
                yield from _stmts(h.body)
