"""Abstract evaluation of spacing-function constructors (used by C09 and C10)."""
import ast

from .alg import AlgError, Context, Rat
from .extract import Extractor, Closure, Opaque, PathRaises, ReturnValue, _dotted
from .classex import ClassEx
from .model import key_in


class Piecewise:
    """value of numpy.piecewise(i, [i < lo?, i > top?], [...]) at a symbolic index:
    pieces 'below' (i < 0), 'above' (i > top), 'inside' (default)"""

    def __init__(self, pieces, top=None):
        self.pieces = pieces
        self.top = top

    def map2(self, other, fn):
        if isinstance(other, Piecewise):
            keys = set(self.pieces) | set(other.pieces)
            top = self.top if self.top is not None else other.top
            if self.top is not None and other.top is not None and not (self.top - other.top).is_zero():
                raise AlgError("piecewise functions with different upper break points")
            out = {}
            for k in keys:
                a = self.pieces.get(k, self.pieces["inside"])
                b = other.pieces.get(k, other.pieces["inside"])
                out[k] = fn(a, b)
            return Piecewise(out, top)
        return Piecewise({k: fn(v, other) for k, v in self.pieces.items()}, self.top)

    def rmap(self, other, fn):
        return Piecewise({k: fn(other, v) for k, v in self.pieces.items()}, self.top)


class PiecewiseMixin:
    pass


class SpacingEx(PiecewiseMixin, ClassEx):
    """ClassEx + root-finder model: `x = brentq(constraint, ...)` binds x to a fresh
    symbol and records the constraint closure (the side relation constraint(x) == 0 holds
    to the root finder's tolerance)."""

    def __init__(self, prog, ctx, clsname, seeds=None, opaque=None):
        super().__init__(prog, ctx, clsname, opaque=opaque, max_depth=16)
        self.seeds = dict(seeds or {})
        self.roots = []  # (symbol Rat, constraint Closure)
        self.undecided = []

    def choose(self, test, env):
        t = self.text(test)
        for key, val in self.seeds.items():
            if key_in(key, t):
                return val
        v = super().choose(test, env)
        if v is None:
            self.undecided.append(t)
        return v

    def on_name(self, name, env):
        raise AlgError("unbound name %s" % name)

    def binop(self, op, a, b, node=None):
        if isinstance(a, Piecewise):
            return a.map2(b, lambda x, y: Extractor.binop(self, op, x, y, node))
        if isinstance(b, Piecewise):
            return b.rmap(a, lambda x, y: Extractor.binop(self, op, x, y, node))
        return Extractor.binop(self, op, a, b, node)

    def pre_call(self, node, fname, env):
        if fname in ("numpy.piecewise", "np.piecewise"):
            arg = self.expr(node.args[0], env)
            conds = node.args[1].elts
            funcs = node.args[2].elts
            if len(funcs) != len(conds) + 1:
                raise AlgError("piecewise without a default piece")
            pieces = {}
            top = None
            var = self.text(node.args[0])
            for c, f in zip(conds, funcs):
                if not (isinstance(c, ast.Compare) and len(c.ops) == 1 and var in (self.text(c.left), self.text(c.comparators[0]))):
                    raise AlgError("piecewise condition not understood: " + self.text(c))
                # `var < b` / `b > var` select the piece below b; `var > b` / `b < var` the piece above
                var_left = self.text(c.left) == var
                bound = self.expr(c.comparators[0] if var_left else c.left, env)
                opk = type(c.ops[0])
                if not var_left:
                    opk = {ast.Lt: ast.Gt, ast.Gt: ast.Lt, ast.LtE: ast.GtE, ast.GtE: ast.LtE}.get(opk, opk)
                if opk is ast.Lt:
                    if not (isinstance(bound, Rat) and bound.is_zero()):
                        raise AlgError("lower break point is not 0")
                    key = "below"
                elif opk is ast.Gt:
                    key = "above"
                    top = bound
                else:
                    raise AlgError("piecewise condition operator")
                pieces[key] = self._piece(f, arg, env)
            pieces["inside"] = self._piece(funcs[-1], arg, env)
            return Piecewise(pieces, top)
        return NotImplemented

    def _piece(self, f, arg, env):
        v = self.expr(f, env)
        if isinstance(v, Closure):
            return self.call_closure(v, [arg], {})
        if callable(v) and not isinstance(v, Rat):
            return v(arg)
        return self.num(v)

    def on_call(self, node, fname, args, kwargs, env):
        ctx = self.ctx
        short = fname.split(".")[-1] if fname else None
        if short == "brentq":
            sym = ctx.sym("root%d" % (len(self.roots) + 1))
            # evaluate the constraint now: later rebinding of names captured by the
            # closure (l2 = l2(l1)) would change what it refers to, as in Python itself
            try:
                val = self.call_closure(args[0], [sym], {})
            except AlgError as e:
                val = e
            self.roots.append((sym, args[0], val))
            return sym
        if short == "sici":
            return (ctx.call("Si", args[0]), ctx.call("Ci", args[0]))
        if short in ("float", "float64"):
            return args[0]
        return super().on_call(node, fname, args, kwargs, env)


def build(ex, method, args, kwargs=None):
    """call a constructor method abstractly; returns the returned value (usually Closure)"""
    return ex.call_method(method, args, kwargs or {})


def constraint_value(ex, idx=0):
    if len(ex.roots) <= idx:
        return None
    sym, clo, val = ex.roots[idx]
    if isinstance(val, AlgError):
        raise val
    return val


PiecewiseMixin.binop = SpacingEx.__dict__["binop"]
PiecewiseMixin.pre_call = SpacingEx.__dict__["pre_call"]
PiecewiseMixin._piece = SpacingEx.__dict__["_piece"]
