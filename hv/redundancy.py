"""Redundancy (copy-paste slip) detectors, after Engler et al.'s "redundant code" checks.

Each detector reports constructs that are harmless in themselves but mean that something else
was intended: a guard written twice (so the guard that was meant is missing), the same store
twice in a row (so the store that was meant is missing), identical branches.  They are used
as rule instances by the properties whose guards / tables they protect, with an expected count
of zero on the tree the rules were written against.
"""
import ast

from .model import walk_own


def _raising(body):
    return any(isinstance(s, ast.Raise) for s in body)


def duplicate_guards(func):
    """pairs of raising `if` statements among the statements of one block whose tests are
    identical (the second can never fire)"""
    mod = func.module
    out = []
    for b in _blocks(func.node):
        seen = {}
        for n in b:
            if isinstance(n, ast.If) and _raising(n.body) and not n.orelse:
                t = mod.code(n.test)
                if t in seen:
                    out.append((seen[t], n, t))
                else:
                    seen[t] = n
            elif not isinstance(n, (ast.If, ast.Expr)):
                seen = {}  # anything else may change what the test reads
    return out


def _blocks(node):
    for n in ast.walk(node):
        for fld in ("body", "orelse", "finalbody"):
            b = getattr(n, fld, None)
            if isinstance(b, list) and b and isinstance(b[0], ast.stmt):
                yield b


def repeated_stores(func):
    """consecutive assignments with identical target and identical value (the second has no
    effect unless evaluating the value has one: calls are excluded)"""
    mod = func.module
    out = []
    for b in _blocks(func.node):
        for a, c in zip(b, b[1:]):
            if isinstance(a, ast.Assign) and isinstance(c, ast.Assign) and len(a.targets) == 1 and len(c.targets) == 1:
                if isinstance(a.targets[0], ast.Name):
                    continue
                if mod.code(a.targets[0]) == mod.code(c.targets[0]) and mod.code(a.value) == mod.code(c.value):
                    if not any(isinstance(x, ast.Call) for x in ast.walk(a.value)):
                        out.append((a, c, mod.code(a)))
    return out


def identical_branches(func):
    mod = func.module
    out = []
    for n in walk_own(func.node):
        if isinstance(n, ast.If) and n.orelse and not (len(n.orelse) == 1 and isinstance(n.orelse[0], ast.If)):
            if [mod.code(s) for s in n.body] == [mod.code(s) for s in n.orelse]:
                out.append(n)
    return out


def self_compare(func):
    mod = func.module
    out = []
    for n in walk_own(func.node):
        if isinstance(n, ast.Compare) and len(n.ops) == 1 and mod.code(n.left) == mod.code(n.comparators[0]) and not any(isinstance(x, ast.Call) for x in ast.walk(n)):
            out.append(n)
    return out
