"""Redundancy (copy-paste slip) detectors, after Engler et al.'s "redundant code" checks.

Each detector reports constructs that are harmless in themselves but mean that something else
was intended: a guard written twice (so the guard that was meant is missing), the same store
twice in a row (so the store that was meant is missing), identical branches.  They are used
as rule instances by the properties whose guards / tables they protect, with an expected count
of zero on the tree the rules were written against.
"""
import ast

from .model import walk_own


def _raising(body):
    return any(isinstance(s, ast.Raise) for s in body)


def duplicate_guards(func):
    """pairs of raising `if` statements among the statements of one block whose tests are
    identical (the second can never fire)"""
    mod = func.module
    out = []
    for b in _blocks(func.node):
        seen = {}
        for n in b:
            if isinstance(n, ast.If) and _raising(n.body) and not n.orelse:
                t = mod.code(n.test)
                if t in seen:
                    out.append((seen[t], n, t))
                else:
                    seen[t] = n
            elif not isinstance(n, (ast.If, ast.Expr)):
                seen = {}  # anything else may change what the test reads
    return out


def _blocks(node):
    for n in ast.walk(node):
        for fld in ("body", "orelse", "finalbody"):
            b = getattr(n, fld, None)
            if isinstance(b, list) and b and isinstance(b[0], ast.stmt):
                yield b


def repeated_stores(func):
    """consecutive assignments with identical target and identical value (the second has no
    effect unless evaluating the value has one: calls are excluded)"""
    mod = func.module
    out = []
    for b in _blocks(func.node):
        for a, c in zip(b, b[1:]):
            if isinstance(a, ast.Assign) and isinstance(c, ast.Assign) and len(a.targets) == 1 and len(c.targets) == 1:
                if isinstance(a.targets[0], ast.Name):
                    continue
                if mod.code(a.targets[0]) == mod.code(c.targets[0]) and mod.code(a.value) == mod.code(c.value):
                    if not any(isinstance(x, ast.Call) for x in ast.walk(a.value)):
                        out.append((a, c, mod.code(a)))
    return out


def identical_branches(func):
    mod = func.module
    out = []
    for n in walk_own(func.node):
        if isinstance(n, ast.If) and n.orelse and not (len(n.orelse) == 1 and isinstance(n.orelse[0], ast.If)):
            if [mod.code(s) for s in n.body] == [mod.code(s) for s in n.orelse]:
                out.append(n)
    return out


def self_compare(func):
    mod = func.module
    out = []
    for n in walk_own(func.node):
        if isinstance(n, ast.Compare) and len(n.ops) == 1 and mod.code(n.left) == mod.code(n.comparators[0]) and not any(isinstance(x, ast.Call) for x in ast.walk(n)):
            out.append(n)
    return out


def _copied_fields(func):
    """{(target object, source object): [(statement, target field, source field)]} for statements
    `t.a = s.b` and `t.a = deepcopy(s.b)` / `copy(s.b)` between two different named objects"""
    groups = {}
    for n in walk_own(func.node):
        if not (isinstance(n, ast.Assign) and len(n.targets) == 1 and isinstance(n.targets[0], ast.Attribute) and isinstance(n.targets[0].value, ast.Name)):
            continue
        v = n.value
        if isinstance(v, ast.Call) and isinstance(v.func, ast.Name) and v.func.id in ("deepcopy", "copy") and len(v.args) == 1:
            v = v.args[0]
        if isinstance(v, ast.Attribute) and isinstance(v.value, ast.Name) and v.value.id != n.targets[0].value.id:
            groups.setdefault((n.targets[0].value.id, v.value.id), []).append((n, n.targets[0].attr, v.attr))
    return groups


def copy_field_mismatches(func, min_group=3):
    """In a function that copies state field by field (`new.a = old.a; new.b = old.b; ...`, at
    least `min_group` such statements between the same two objects), a statement
    `new.a = old.b` with a != b stands where `old.a` was meant.  Private/public twins
    (`self._x = other.x`) count as the same field.  Returns (statement, target field, source
    field, group size)."""
    out = []
    for (t, s_), stmts in _copied_fields(func).items():
        same = [x for x in stmts if x[1].lstrip("_") == x[2].lstrip("_")]
        if len(same) >= min_group:
            for n, a, b in stmts:
                if a.lstrip("_") != b.lstrip("_"):
                    out.append((n, a, b, len(stmts)))
    return out


def copied_field_names(func):
    """all fields the function copies from another object under their own name"""
    return {a.lstrip("_") for stmts in _copied_fields(func).values() for n, a, b in stmts if a.lstrip("_") == b.lstrip("_")}
