"""C15 regridding is history independent (state separation; thin structural claim).

R1 write set: no function reachable from the redistribution entry point stores to an
   options object other than the non-orthogonal options; an orthogonal mesh is refused
   before any region is touched.
R2 first-build state is read-only afterwards: the orthogonal spacing functions, the
   separatrix/wall geometry captured at construction and the radial psi grid are written
   only on the construction path, never on the redistribution path.
R3 cache invalidation: every PsiContour method that changes the point list invalidates (or
   replaces) the cached distance; start/end/extension setters reset the caches when the
   value changes; regrid goes through the state-copying setter.
Not decided: the actual equality within tolerance of regridded and freshly built grids
(history enters through the coarse points the fine contour is rebuilt from).
"""
import ast

from ..callgraph import CallGraph
from ..model import Program, walk_own, is_self_attr, dotted
from ..report import AnalysisError
from ..model import canon as K

MESH = "hypnotoad/core/mesh.py"
EQ = "hypnotoad/core/equilibrium.py"
OPTION_ATTRS = ("user_options", "user_options_factory", "nonorthogonal_options_factory")
FIRST_BUILD = ("sfunc_orthogonal_list", "gradPsiSurfaceAtStart", "gradPsiSurfaceAtEnd", "sin_angle_at_start", "sin_angle_at_end", "psi_vals",
               "wallSurfaceAtStart", "wallSurfaceAtEnd", "xPointsAtStart", "xPointsAtEnd", "separatrix_radial_index", "global_xind")


def T(mod, n):
    return mod.code(n)


def stores(f):
    """attribute names stored (assigned, augmented, element-stored) in f (own body and nested defs)"""
    out = {}
    for n in ast.walk(f.node):
        if isinstance(n, (ast.Assign, ast.AugAssign)):
            for t in (n.targets if isinstance(n, ast.Assign) else [n.target]):
                b = t
                while isinstance(b, ast.Subscript):
                    b = b.value
                if isinstance(b, ast.Attribute):
                    out.setdefault(b.attr, []).append(n)
    return out


def options_reset_rules(prog, cg, reach, rep):
    """how the non-orthogonal options are replaced on a regrid (also a premise of C14.R4: the
    options the writer records are the ones the regions were spaced with)"""
    # the only option object written: nonorthogonal_options, via the reset methods
    wr = []
    for k in sorted(reach):
        f = cg.funcs[k]
        for n in stores(f).get("nonorthogonal_options", []):
            wr.append(f.qualname)
    rep.ob("R1", "the non-orthogonal options are replaced only by the two reset methods", sorted(set(wr)) == ["Equilibrium.resetNonorthogonalOptions", "EquilibriumRegion.resetNonorthogonalOptions"], EQ, str(wr), key="write/nonorth")
    for qn in ("Equilibrium.resetNonorthogonalOptions", "EquilibriumRegion.resetNonorthogonalOptions"):
        f = prog.func(EQ, qn)
        from ..model import inline_temporaries
        sts = [s_ for s_ in walk_own(f.node) if isinstance(s_, ast.Assign) and any(is_self_attr(t, "nonorthogonal_options") for t in s_.targets)]
        ok = len(sts) == 1 and T(f.module, inline_temporaries(f.node, sts[0].value, inline_calls=True)) == K("self.nonorthogonal_options_factory.create(nonorthogonal_settings)")
        rep.ob("R1", "%s rebuilds the options from the factory defaults plus the given settings only (no merge with the previous values)" % qn, ok, f.site(), "", key="reset/" + qn)
    f = prog.func(EQ, "Equilibrium.resetNonorthogonalOptions")
    ok = False
    for lp in walk_own(f.node):
        if isinstance(lp, ast.For) and T(f.module, lp.iter) == K("self.regions.values()") and isinstance(lp.target, ast.Name):
            for c_ in ast.walk(lp):
                if isinstance(c_, ast.Call) and isinstance(c_.func, ast.Attribute) and c_.func.attr == "resetNonorthogonalOptions" and isinstance(c_.func.value, ast.Name) \
                        and c_.func.value.id == lp.target.id and len(c_.args) == 1:
                    arg = T(f.module, inline_temporaries(f.node, c_.args[0], inline_calls=True))
                    # a fresh dict of the evaluated options for every region
                    if arg in (K("dict(self.nonorthogonal_options)"), K("dict(self.nonorthogonal_options_factory.create(nonorthogonal_settings))")):
                        ok = True
    rep.ob("R1", "the equilibrium propagates the evaluated options to every region", ok, f.site(), "", key="reset/propagate")
    # an empty settings dict means "all defaults", not "no change": optional settings arguments are
    # compared with None, never tested for truthiness
    bad = []
    nparams = 0
    for f_ in prog.all_funcs():
        a_ = f_.node.args
        allargs = a_.posonlyargs + a_.args
        dflt = dict(zip([x.arg for x in allargs[len(allargs) - len(a_.defaults):]], a_.defaults))
        dflt.update({x.arg: d for x, d in zip(a_.kwonlyargs, a_.kw_defaults) if d is not None})
        opt = {k for k, d in dflt.items() if isinstance(d, ast.Constant) and d.value is None and ("settings" in k or "options" in k)}
        nparams += len(opt)
        if not opt:
            continue
        for n_ in walk_own(f_.node):
            if isinstance(n_, (ast.If, ast.While, ast.IfExp)):
                stack = [n_.test]
                while stack:
                    x = stack.pop()
                    if isinstance(x, ast.BoolOp):
                        stack.extend(x.values)
                    elif isinstance(x, ast.UnaryOp) and isinstance(x.op, ast.Not):
                        stack.append(x.operand)
                    elif isinstance(x, ast.Name) and x.id in opt:
                        bad.append((f_, n_, x.id))
    for f_, n_, nm in bad:
        rep.ob("R1", "%s: optional argument `%s` is compared with None" % (f_.qualname, nm), False, f_.site(n_),
               "`%s` is a truth test: an empty settings dict (all defaults) would be treated like no argument" % f_.module.code(n_.test)[:60], key="reset/truthiness/%s/%s" % (f_.qualname, nm))
    rep.ob("R1", "no optional settings/options argument is tested for truthiness (%d such parameters)" % nparams, not bad, EQ, "", key="reset/truthiness/none")
    # one factory: the equilibrium's per-instance factory (its defaults are derived from the
    # user options) is the one the regions use, on the first build and on every reset
    ei = prog.func(EQ, "Equilibrium.__init__")
    ok = any(isinstance(s_, ast.Assign) and any(is_self_attr(t, "nonorthogonal_options_factory") for t in s_.targets) and isinstance(s_.value, ast.Call)
             and T(ei.module, s_.value.func) == "self.nonorthogonal_options_factory.add" for s_ in walk_own(ei.node))
    rep.ob("R1", "the equilibrium builds a per-instance non-orthogonal factory whose defaults follow the user options", ok, ei.site(), "", key="reset/factory/equilibrium")
    ri = prog.func(EQ, "EquilibriumRegion.__init__")
    body = sorted((s_ for s_ in walk_own(ri.node) if isinstance(s_, ast.Assign)), key=lambda s_: s_.lineno)
    bind = [s_ for s_ in body if any(is_self_attr(t, "nonorthogonal_options_factory") for t in s_.targets)]
    use = [s_ for s_ in body if isinstance(s_.value, ast.Call) and T(ri.module, s_.value.func) == "self.nonorthogonal_options_factory.create"]
    ok = len(bind) == 1 and T(ri.module, bind[0].value) == "self.equilibrium.nonorthogonal_options_factory" and bool(use) and bind[0].lineno < use[0].lineno
    rep.ob("R1", "a region takes the equilibrium's per-instance factory before it first evaluates options (so a later reset resolves unset keys exactly as the first build did)", ok,
           ri.site(bind[0]) if bind else ri.site(), "" if ok else "no `self.nonorthogonal_options_factory = self.equilibrium.nonorthogonal_options_factory` before the first create(): the class-level factory (fixed defaults) would be used by resets", key="reset/factory/region")


def spacing_source_rules(prog, rep):
    """EquilibriumRegion.getSpacings collects the end spacings of a region.  The entries that seed
    the orthogonal base grid (sqrt_*, nonorthogonal_orthogonal_*: used when the region is first
    gridded and for the stored orthogonal spacing functions) must come from the orthogonal
    options only, so that the base grid does not depend on the non-orthogonal settings a mesh was
    created with; the entries for the non-orthogonal spacing come from the non-orthogonal
    options.  The lower and the upper end are treated alike: the same kind of end (wall / X) reads
    the same source for the same entry."""
    from ..stores import effects
    f = prog.func(EQ, "EquilibriumRegion.getSpacings")
    mod = f.module
    table = {}  # (base, end, kind) -> source text
    for e in effects(f.node, inline=False):
        if e.kind != "store" or not isinstance(e.target, ast.Name):
            continue
        nm = e.target.id
        end = "lower" if "_lower" in nm else ("upper" if "_upper" in nm else None)
        if end is None:
            continue
        base = nm.replace("_" + end, "")
        cs = [T(mod, c) for c in e.conds if not isinstance(c, str)]
        kind = None
        for c in cs:
            for k in ("wall", "X"):
                if c == K('self.kind.split(".")[%d] == "%s"' % (0 if end == "lower" else 1, k)):
                    kind = k
        if kind is None:
            rep.ob("R2", "getSpacings: `%s` is set under a test of the %s end's kind" % (nm, end), False, f.site(e.node), "conditions: %s" % cs, key="spacings/cond/" + nm)
            continue
        table[(base, end, kind)] = T(mod, e.value)
    n = 0
    for (base, end, kind), src in sorted(table.items()):
        if end != "lower":
            continue
        other = table.get((base, "upper", kind))
        n += 1
        rep.ob("R2", "getSpacings: `%s` at a %s end reads the same source at the lower and at the upper end" % (base, kind), other == src, f.site(),
               "lower: %s; upper: %s" % (src, other), key="spacings/sides/%s/%s" % (base, kind))
    rep.floor("R2.spacing-entries", n, 14)
    for (base, end, kind), src in sorted(table.items()):
        uses_non = "nonorthogonal" in src
        if base.startswith("sqrt_") or base.startswith("nonorthogonal_orthogonal_"):
            rep.ob("R2", "getSpacings: `%s_%s` (%s end), which seeds the orthogonal base grid, does not read a non-orthogonal option" % (base, end, kind), not uses_non, f.site(), src,
                   key="spacings/orthogonal-source/%s/%s/%s" % (base, end, kind))
        elif base.startswith("monotonic_") or base.startswith("nonorthogonal_range"):
            rep.ob("R2", "getSpacings: `%s_%s` (%s end) reads the non-orthogonal options" % (base, end, kind), uses_non, f.site(), src, key="spacings/nonorthogonal-source/%s/%s/%s" % (base, end, kind))
    # getTargetParameter sends a key to the non-orthogonal options exactly when it names one
    g = prog.func(EQ, "EquilibriumRegion.getTargetParameter")
    src = T(g.module, g.node)
    ok = K('if "nonorthogonal" in prefix: options = self.nonorthogonal_options') in src and K("else: options = self.user_options") in src
    rep.ob("R2", "getTargetParameter reads nonorthogonal_* keys from the non-orthogonal options and all other keys from the user options", ok, g.site(), "", key="spacings/target-parameter")


def option_read_rules(prog, rep, rp):
    """During a redistribution every part of the code must see the *new* non-orthogonal settings:
    the equilibrium's copy is replaced before any region is regridded, and region-level code
    reads the region's own copy (which distributePointsNonorthogonal resets first), never the
    equilibrium-level one (which is a different object with its own update time)."""
    mod = rp.module
    order = []
    for s in rp.node.body:
        t = T(mod, s)
        if K("self.equilibrium.resetNonorthogonalOptions(") in t:
            order.append("reset")
        elif isinstance(s, ast.For) and "distributePointsNonorthogonal" in t:
            order.append("loop")
    rep.ob("R1", "redistributePoints replaces the equilibrium's non-orthogonal options before it regrids the regions", order == ["reset", "loop"], rp.site(),
           "" if order == ["reset", "loop"] else "definite: order of option reset and region loop is %s" % order, key="reset/order")
    bad = []
    nreads = 0
    for m_ in (prog.module(EQ), prog.module(MESH)):
        for qn, f_ in m_.funcs.items():
            if f_.cls not in ("EquilibriumRegion", "MeshRegion", "PsiContour") or f_.name == "__init__":
                continue  # a constructor takes its first copy from the equilibrium: nothing can be out of step yet
            for x in ast.walk(f_.node):
                if isinstance(x, ast.Attribute) and x.attr == "nonorthogonal_options":
                    nreads += 1
                    base = T(m_, x.value)
                    if base not in ("self", "self.equilibriumRegion"):
                        bad.append((f_, x, base))
    for f_, x, base in bad:
        rep.ob("R1", "%s reads the non-orthogonal options of its own region" % f_.qualname, False, f_.site(x),
               "definite: reads `%s.nonorthogonal_options`, a copy that is updated at a different time than the region's" % base, key="reset/read/%s/%s" % (f_.qualname, base))
    rep.ob("R1", "region-level code reads only the region's own copy of the non-orthogonal options (%d reads)" % nreads, not bad, EQ, "", key="reset/read/none")
    rep.floor("R1.option-reads", nreads, 10)


def cache_rules(prog, rep):
    """every PsiContour method that changes the point list invalidates (or replaces) the cached
    distance (also a premise of C05: hy and poloidal_distance are read from that cache)"""
    mod = prog.module(EQ)
    n = 0
    for qn, f in sorted(mod.funcs.items()):
        if f.cls != "PsiContour" or qn != "PsiContour." + f.name or f.name in ("__init__",):
            continue
        changes_points = False
        for x in walk_own(f.node):
            if isinstance(x, ast.Assign) and any(is_self_attr(t, "points") for t in x.targets):
                changes_points = True
            if isinstance(x, ast.Assign) and any(isinstance(t, ast.Subscript) and is_self_attr(t.value, "points") for t in x.targets):
                changes_points = True
            if isinstance(x, ast.Call) and isinstance(x.func, ast.Attribute) and is_self_attr(x.func.value, "points") and x.func.attr in ("append", "insert", "reverse", "pop", "remove", "extend", "sort"):
                changes_points = True
        if not changes_points:
            continue
        n += 1
        src = T(mod, f.node)
        inval = K("self._reset_cached()") in src or K("self._distance=None") in src or K("self._distance=") in src
        rep.ob("R3", "%s changes the point list and invalidates or replaces the cached distance" % qn, inval, f.site(), "", key="cache/" + qn)
    rep.floor("R3.mutators", n, 7)
    rc = mod.funcs.get("PsiContour._reset_cached")
    ok = rc is not None and K("self._fine_contour=None") in T(mod, rc.node) and K("self._distance=None") in T(mod, rc.node)
    rep.ob("R3", "_reset_cached drops both the fine contour and the distance", ok, rc.site() if rc else EQ, "", key="cache/reset")
    for prop_ in ("startInd", "endInd", "extend_lower", "extend_upper"):
        setters = [f for qn, f in mod.funcs.items() if f.cls == "PsiContour" and f.name == prop_ and len(f.node.args.args) == 2]
        ok = bool(setters) and "ifself._%s!=val:self._reset_cached()self._%s=val" % (prop_, prop_) in T(mod, setters[-1].node)
        rep.ob("R3", "setting %s resets the caches when the value changes" % prop_, ok, setters[-1].site() if setters else EQ, "", key="cache/setter/" + prop_)
    rg = mod.funcs.get("PsiContour.regrid")
    ok = rg is not None and K("self.setSelfToContour(self.getRegridded(*args,**kwargs))") in T(mod, rg.node)
    rep.ob("R3", "regrid replaces the whole state through the state-copying setter", ok, rg.site() if rg else EQ, "", key="cache/regrid")
    # field-by-field copies of contour state: every field under its own name, the index/extension
    # quadruple complete in each copier, sibling copiers of a region agree on what they copy
    from .. import redundancy
    copiers = ["PsiContour.setSelfToContour", "PsiContour.newContourFromSelf", "EquilibriumRegion.copy", "EquilibriumRegion.newRegionFromPsiContour"]
    ncop = 0
    for qn in copiers:
        cf = mod.funcs.get(qn)
        if cf is None:
            raise AnalysisError("%s not found" % qn)
        bad = redundancy.copy_field_mismatches(cf)
        ncop += 1
        rep.ob("R3", "%s copies every field from the field of the same name" % qn, not bad, cf.site(bad[0][0]) if bad else cf.site(),
               "; ".join("%s is set from %s" % (a, b) for n_, a, b, k in bad), key="cache/copy-fields/" + qn)
        fields = redundancy.copied_field_names(cf)
        need = {"startInd", "endInd", "extend_lower", "extend_upper"}
        rep.ob("R3", "%s carries over startInd, endInd, extend_lower and extend_upper" % qn, need <= fields, cf.site(), "copied: %s" % sorted(fields), key="cache/copy-quadruple/" + qn)
    rep.floor("R3.copiers", ncop, 4)
    fa, fb = (redundancy.copied_field_names(mod.funcs[q]) for q in copiers[2:])
    rep.ob("R3", "EquilibriumRegion.copy and newRegionFromPsiContour copy the same set of fields", fa == fb, mod.funcs[copiers[2]].site(), "only in one of them: %s" % sorted(fa ^ fb), key="cache/copy-siblings")
    for f_ in prog.all_funcs():
        for n_, a, b, k in redundancy.copy_field_mismatches(f_):
            if f_.qualname not in copiers:
                rep.ob("R3", "%s copies every field from the field of the same name" % f_.qualname, False, f_.site(n_), "%s is set from %s" % (a, b), key="cache/copy-fields/" + f_.qualname)
    sc = mod.funcs.get("PsiContour.setSelfToContour")
    want = ["points", "startInd", "endInd", "_distance", "psival", "extend_lower", "extend_upper", "_fine_contour"]
    got = sorted(stores(sc))
    rep.ob("R3", "the state-copying setter copies points, indices, extensions and both caches together", all(a in got for a in want), sc.site(), str(got), key="cache/copy-state")


def run(rep, tier):
    prog = Program()
    cg = CallGraph(prog)
    rep.analysed_add("files", [MESH, EQ])
    rep.analysed_add("call graph", ["%d functions, %d call sites resolved to repository functions" % (len(cg.funcs), cg.resolved)])
    rep.rule("R1", "redistribution writes no options object except the non-orthogonal options; orthogonal meshes refused")
    rep.rule("R2", "first-build state is not written on the redistribution path")
    rep.rule("R3", "cache invalidation in PsiContour mutators")
    root = cg.key(MESH, "Mesh.redistributePoints")
    if root not in cg.funcs:
        raise AnalysisError("Mesh.redistributePoints not found")
    reach = cg.reachable([root])
    rep.analysed_add("reachable from redistributePoints", sorted(k.split("::")[1] for k in reach))
    rep.floor("R1.reachable", len(reach), 30)
    bad = []
    for k in sorted(reach):
        f = cg.funcs[k]
        st = stores(f)
        for a in OPTION_ATTRS:
            for n in st.get(a, []):
                bad.append((f, n, a))
    for f, n, a in bad:
        rep.ob("R1", "%s (reachable from redistribution) does not store to .%s" % (f.qualname, a), False, f.site(n), T(f.module, n)[:100], key="write/%s/%s" % (f.qualname, a))
    rep.ob("R1", "no function reachable from the redistribution entry point stores to user_options or an options factory (%d functions)" % len(reach), not bad, MESH, "", key="write/none")
    options_reset_rules(prog, cg, reach, rep)
    # refusal of orthogonal meshes dominates the region loop
    rp = cg.funcs[root]
    body = rp.node.body
    guard_i = next((i for i, s in enumerate(body) if isinstance(s, ast.If) and T(rp.module, s.test) == "self.user_options.orthogonal" and any(isinstance(x, ast.Raise) for x in s.body)), None)
    loop_i = next((i for i, s in enumerate(body) if isinstance(s, ast.For) and "distributePointsNonorthogonal" in T(rp.module, s)), None)
    rep.ob("R1", "an orthogonal mesh is refused (raise) before any region is redistributed", guard_i is not None and loop_i is not None and guard_i < loop_i, rp.site(), "", key="refuse-orthogonal")
    # R2
    init_reach = cg.reachable([cg.key(MESH, "MeshRegion.__init__")])
    for a in FIRST_BUILD:
        writers_redis = sorted({cg.funcs[k].qualname for k in reach if a in stores(cg.funcs[k])})
        # the state-copying setter and constructors of fresh objects are not history
        writers_redis = [w for w in writers_redis if not w.endswith(".__init__") and w not in ("PsiContour.setSelfToContour", "EquilibriumRegion.newRegionFromPsiContour", "EquilibriumRegion.copy")]
        rep.ob("R2", "first-build state `%s` is not written on the redistribution path" % a, not writers_redis, MESH, "written by %s" % writers_redis, key="firstbuild/" + a)
    # where they are written: construction path only
    w_sf = sorted({f.qualname for f in cg.funcs.values() if "sfunc_orthogonal_list" in stores(f)})
    rep.ob("R2", "the orthogonal spacing functions are built once, in the wall-point step of construction", w_sf == ["MeshRegion.addPointAtWallToContours"], MESH, str(w_sf), key="firstbuild/sfunc-writer")
    ok = cg.key(MESH, "MeshRegion.addPointAtWallToContours") in init_reach and cg.key(MESH, "MeshRegion.addPointAtWallToContours") not in reach
    rep.ob("R2", "the wall-point step is on the construction path and not on the redistribution path", ok, MESH, "", key="firstbuild/wall-step")
    d = prog.func(MESH, "MeshRegion.distributePointsNonorthogonal")
    ok = "self.sfunc_orthogonal_list" in T(d.module, d.node) and "sfunc_orthogonal_list" not in stores(d)
    rep.ob("R2", "redistribution reads the stored orthogonal spacing functions and does not rebuild them", ok, d.site(), "", key="firstbuild/sfunc-read")
    spacing_source_rules(prog, rep)
    option_read_rules(prog, rep, rp)
    cache_rules(prog, rep)
    rep.notes.append("advisory: getRegridded -> temporaryExtend -> prepend/append resets the fine contour when guard points are added, so the fine contour is rebuilt from the current (history-dependent) coarse points; equality holds only within the refinement tolerance and is not decidable statically")
    rep.undecided("equality within tolerance of regridded and freshly built grids")
    return __doc__
