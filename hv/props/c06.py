"""C06 zShift, ShiftAngle, dphidy, ShiftTorsion (formula, stencil and chain structure).

R1 the zShift integrand is fpol(psi)/(R^2 sqrt(Bp_R^2+Bp_Z^2)), integrated with a cumulative
   trapezoid over the fine contour's own distance, re-zeroed at the fine contour's startInd.
R2 placement: even contours feed corners/xlow, odd ones ylow/centre, x index i//2, with
   point parities [::2] (faces/corners) and [1::2] (centres).
R3 chain: only yGroupIndex==0 starts; hand-over copies logical y=ny (ylow->centre,ylow;
   corners->xlow,corners); the loop stops at None or on return to self; ShiftAngle is the
   difference of the last region's y=ny and the first region's y=0 values, assigned only
   under the periodic test.
R4 dphidy == hy*Btxy/(Bpxy*Rxy).   R5 ShiftTorsion = DDX(dphidy); DDX/DDY are centred
   differences at all four locations, neighbour reads at joins, one-sided half-cell
   differences at boundaries, covering every index.
R6 phase order: every cross-region read refers to a field produced in an earlier phase.
R7 the spacings DDX/DDY divide by are assigned at the locations used (E4b).
Not decided: accuracy of the trapezoid on the fine contour; the value 2*pi*q.
"""
import ast
import re

from ..alg import AlgError, Context, Rat
from ..extract import Extractor, Closure, Opaque, _dotted
from ..model import strip_comments, Program, walk_own, is_self_attr, dotted, inline_temporaries
from ..report import AnalysisError
from ..slices import Affine
from .. import locsets, stagger
from ..stagger import StencilError
from . import common
from ..model import canon as K

MESH = common.MESH
LOCS = ("centre", "xlow", "ylow", "corners")


def T(mod, node):
    return mod.code(node)


def run(rep, tier):
    prog = Program()
    common.set_prog(prog)
    rep.analysed_add("files", [MESH])
    rep.rule("R1", "zShift integrand and integration variable")
    rep.rule("R2", "placement parities")
    rep.rule("R3", "chain start, hand-over, termination, ShiftAngle")
    rep.rule("R4", "dphidy formula")
    rep.rule("R5", "ShiftTorsion; DDX/DDY stencils")
    rep.rule("R6", "phase order of cross-region reads")
    rep.rule("R7", "difference denominators assigned")
    fz = common.zshift_function(prog)
    rep.analysed_add("functions", [fz.site()])
    r1(prog, rep, fz)
    r2_r3(prog, rep, fz)
    r4_r5(prog, rep)
    r6(prog, rep)
    r7(prog, rep)
    rep.undecided("accuracy of the trapezoid rule on the fine contour; ShiftAngle == 2*pi*q numerically")
    return __doc__


def r1(prog, rep, fz):
    mod = fz.module
    for option in ("spline", "dct"):
        ctx = Context()
        common.declare_equilibrium(ctx)
        common._models.clear()
        R, Z = ctx.sym("R"), ctx.sym("Z")
        try:
            v = common.zshift_integrand(prog, ctx, fz, R, Z)
        except AlgError as e:
            rep.ob("R1", "integrand extractable (%s)" % option, False, fz.site(), str(e), key="integrand/%s/extract" % option)
            continue
        psi = common.psi_partial(ctx, 0, 0, R, Z)
        pR, pZ = common.psi_partial(ctx, 1, 0, R, Z), common.psi_partial(ctx, 0, 1, R, Z)
        want = ctx.call("fpol", psi) / (R * R * ctx.call("sqrt", (pZ / R) ** 2 + (pR / R) ** 2))
        d = v - want
        rep.ob("R1", "integrand == fpol(psi)/(R^2*sqrt(Bp_R^2+Bp_Z^2)) [%s]" % option, d.is_zero(), fz.site(), "found %s" % v.show(200), key="integrand/" + option)
    fdef, call, trap = common.zshift_integrand_def(fz)
    args = [T(mod, a) for a in call.args]
    rep.ob("R1", "integrand evaluated at the fine contour's (R, Z) = positions[:,0], positions[:,1]", args == [K("fine_contour.positions[:, 0]"), K("fine_contour.positions[:, 1]")], fz.site(call), str(args), key="integrand/args")
    kw = {k.arg: T(mod, k.value) for k in trap.keywords}
    xdef = None
    for s in walk_own(fz.node):
        if isinstance(s, ast.Assign) and isinstance(s.targets[0], ast.Name) and s.targets[0].id == kw.get("x"):
            xdef = T(mod, s.value)
    rep.ob("R1", "trapezoid abscissa is the fine contour's own distance array", xdef == "fine_contour.distance", fz.site(trap), "x=%s=%s" % (kw.get("x"), xdef), key="integrand/abscissa")
    rep.ob("R1", "cumulative integral starts at 0 (initial=0.0)", kw.get("initial") in ("0.0", "0"), fz.site(trap), str(kw), key="integrand/initial")
    zname = None
    for s in walk_own(fz.node):
        if isinstance(s, ast.Assign) and s.value is trap:
            zname = s.targets[0].id
    rez = [s for s in walk_own(fz.node) if isinstance(s, ast.AugAssign) and isinstance(s.op, ast.Sub) and T(mod, s.target) == "%s[:]" % zname]
    ok = len(rez) == 1 and T(mod, rez[0].value) == "%s[fine_contour.startInd]" % zname
    rep.ob("R1", "integral re-zeroed at the fine contour's startInd", ok, fz.site(rez[0]) if rez else fz.site(), "", key="integrand/rezero")
    # interpolated to the contour's points with the same abscissa
    interp = [n for n in walk_own(fz.node) if isinstance(n, ast.Call) and _dotted(n.func) == "interp1d"]
    ok = len(interp) == 1 and [T(mod, a) for a in interp[0].args[:2]] == [kw.get("x"), zname] and any(k.arg == "kind" and T(mod, k.value) == K('"linear"') for k in interp[0].keywords)
    rep.ob("R1", "fine-contour integral is interpolated (linear in distance) onto the contour's points", ok, fz.site(), "", key="integrand/interp")
    ev = [n for n in walk_own(fz.node) if isinstance(n, ast.Assign) and isinstance(n.value, ast.Call) and isinstance(n.value.func, ast.Name) and n.value.func.id == "zShift_interpolator"]
    ok = len(ev) == 1 and T(mod, ev[0].value.args[0]).replace(" ", "") == K("contour.get_distance(psi=self.equilibriumRegion.psi)")
    rep.ob("R1", "interpolant evaluated at the contour's own point distances", ok, fz.site(), "", key="integrand/at-points")


def r2_r3(prog, rep, fz):
    mod = fz.module
    # placement statements
    placements = {}
    for s in walk_own(fz.node):
        if isinstance(s, ast.If) and K("i%2==0") in T(mod, s.test).replace(" ", ""):
            for arm, par in ((s.body, "even"), (s.orelse, "odd")):
                xi = None
                for st in arm:
                    if isinstance(st, ast.Assign) and isinstance(st.targets[0], ast.Name) and st.targets[0].id == "xind":
                        xi = T(mod, st.value).replace(" ", "")
                    if isinstance(st, ast.AugAssign):
                        la = stagger.loc_array(st.target)
                        if la:
                            base, loc, sub = la
                            placements[(par, loc)] = (T(mod, sub.slice).replace(" ", ""), T(mod, st.value).replace(" ", ""), xi, type(st.op).__name__)
    want = {("even", "corners"): "[::2]", ("even", "xlow"): "[1::2]", ("odd", "ylow"): "[::2]", ("odd", "centre"): "[1::2]"}
    for (par, loc), sl in want.items():
        got = placements.get((par, loc))
        ok = got is not None and got[0] == K("xind,:") and got[1].endswith(sl) and got[2] == K("i//2") and got[3] == "Add"
        rep.ob("R2", "%s contours feed zShift.%s from point parity %s at x index i//2" % (par, loc, sl), ok, fz.site(), str(got), key="place/%s/%s" % (par, loc))
    rep.ob("R2", "no other placement statements", set(placements) == set(want), fz.site(), str(sorted(placements)), key="place/only")
    # R3 chain
    first = fz.node.body[0] if not isinstance(fz.node.body[0], ast.Expr) else fz.node.body[1]
    ok = isinstance(first, ast.If) and T(mod, first.test) == K("self.yGroupIndex != 0") and isinstance(first.body[0], ast.Return)
    rep.ob("R3", "only the first region of a y-group (yGroupIndex == 0) starts a chain", ok, fz.site(first), "", key="chain/start")
    zeros = {}
    for s in walk_own(fz.node):
        if isinstance(s, ast.Assign) and isinstance(s.targets[0], ast.Subscript):
            la = stagger.loc_array(s.targets[0])
            if la and T(mod, la[0]) == "region.zShift" and isinstance(s.value, ast.Constant) and s.value.value == 0.0:
                zeros[la[1]] = True
    if not zeros:
        # the other spelling: `region.zShift = MultiLocationArray(nx, ny).zero()`; then the
        # container's zero() method must set the four locations to 0.0 and return the object
        for s in walk_own(fz.node):
            if isinstance(s, ast.Assign) and T(mod, s.targets[0]) == "region.zShift" and isinstance(s.value, ast.Call) and isinstance(s.value.func, ast.Attribute) \
                    and s.value.func.attr == "zero" and isinstance(s.value.func.value, ast.Call) and T(mod, s.value.func.value.func) == "MultiLocationArray":
                zf = prog.func("hypnotoad/core/multilocationarray.py", "MultiLocationArray.zero")
                for z in walk_own(zf.node):
                    if isinstance(z, ast.Assign) and is_self_attr(z.targets[0]) and z.targets[0].attr in LOCS and isinstance(z.value, ast.Constant) and z.value.value == 0.0:
                        zeros[z.targets[0].attr] = True
                rets = [z for z in walk_own(zf.node) if isinstance(z, ast.Return)]
                if not (len(rets) == 1 and isinstance(rets[0].value, ast.Name) and rets[0].value.id == "self"):
                    zeros = {}
    rep.ob("R3", "the first region's zShift starts from zero at all four locations", set(zeros) == set(LOCS), fz.site(), str(sorted(zeros)), key="chain/zero")
    hand = {}
    for s in walk_own(fz.node):
        if isinstance(s, ast.Assign) and isinstance(s.targets[0], ast.Subscript):
            la = stagger.loc_array(s.targets[0])
            if la and T(mod, la[0]) == "next_region.zShift":
                src = stagger.loc_array(s.value)
                if src and T(mod, src[0]) == "region.zShift":
                    try:
                        sx, sy = stagger.selectors(src[2], src[1])
                        # logical y of the source: last index of a face-located array == ny
                        ylog = stagger.first_of(sy) + stagger.YHALF[src[1]]
                        hand[la[1]] = (src[1], ylog)
                    except StencilError as e:
                        hand[la[1]] = (src[1], str(e))
    want = {"centre": "ylow", "ylow": "ylow", "xlow": "corners", "corners": "corners"}
    for loc, srcloc in want.items():
        got = hand.get(loc)
        ok = got is not None and got[0] == srcloc and isinstance(got[1], Affine) and got[1] == Affine(0, 1)
        rep.ob("R3", "hand-over: next region's zShift.%s starts from this region's %s at logical y = ny" % (loc, srcloc), ok, fz.site(), str(got), key="chain/handover/" + loc)
    src = mod.code(fz.node)
    rep.ob("R3", "the chain stops at a missing neighbour or on return to the first region", K('ifnext_regionisNoneornext_regionisself:') in src and K('next_region=region.getNeighbour("upper")') in src, fz.site(), "", key="chain/stop")
    rep.ob("R3", "the next region becomes the current one", K("region=next_region") in src, fz.site(), "", key="chain/advance")
    # ShiftAngle
    sa = {}
    guard = None
    for s in walk_own(fz.node):
        if isinstance(s, ast.If) and T(mod, s.test) == K('self.connections["lower"] is not None'):
            for st in s.body:
                if isinstance(st, ast.Assign):
                    la = stagger.loc_array(st.targets[0])
                    if la and T(mod, la[0]) == "self.ShiftAngle":
                        sa[la[1]] = mod.code(st.value)
                        guard = s
    want = {"centre": "(region.zShift.ylow[:,-1]-self.zShift.ylow[:,0]).reshape((-1,1))", "xlow": "(region.zShift.corners[:,-1]-self.zShift.corners[:,0]).reshape((-1,1))"}
    for loc, w in want.items():
        rep.ob("R3", "ShiftAngle.%s = zShift(y=ny of the last region) - zShift(y=0 of the first region)" % loc, sa.get(loc) == w, fz.site(guard) if guard else fz.site(), str(sa.get(loc)), key="shiftangle/" + loc)
    other = [s for s in walk_own(fz.node) if isinstance(s, ast.Assign) and stagger.loc_array(s.targets[0]) and T(mod, stagger.loc_array(s.targets[0])[0]) == "self.ShiftAngle"]
    rep.ob("R3", "ShiftAngle is assigned only for periodic chains (so it stays NaN on open field lines)", len(other) == len(sa) == 2, fz.site(), "", key="shiftangle/only-periodic")


class PlainEx(Extractor):
    def on_attr(self, d, node, env):
        return self.ctx.sym(d)


def r4_r5(prog, rep):
    fg2 = prog.unique_func_assigning(["dphidy"], MESH)
    ctx = Context()
    ex = PlainEx(ctx, fg2.module)
    env = {}
    for s in walk_own(fg2.node):
        if isinstance(s, ast.Assign) and is_self_attr(s.targets[0], "dphidy"):
            ex.stmt(s, env)
    v = env.get("self.dphidy")
    want = ctx.sym("self.hy") * ctx.sym("self.Btxy") / (ctx.sym("self.Bpxy") * ctx.sym("self.Rxy"))
    rep.ob("R4", "dphidy == hy*Btxy/(Bpxy*Rxy)", isinstance(v, Rat) and (v - want).is_zero(), fg2.site(), v.show() if isinstance(v, Rat) else str(v), key="dphidy")
    # ... and it still holds for the arrays that are written: hy, Btxy, Bpxy, Rxy keep the values dphidy was computed from
    from .. import locsets
    locsets.check_fresh(prog, rep, "R4", ["dphidy", "ShiftTorsion"], ["orthogonal", "non-orthogonal", "orthogonal/capBp"])
    fm = prog.unique_func_assigning(["ShiftTorsion"], MESH)
    ok = False
    for s in walk_own(fm.node):
        if isinstance(s, ast.Assign) and is_self_attr(s.targets[0], "ShiftTorsion"):
            ok = T(fm.module, s.value) == K('self.DDX("#dphidy")')
    rep.ob("R5", "ShiftTorsion == DDX(dphidy)", ok, fm.site(), "", key="shifttorsion")
    for name, axis in (("DDX", "x"), ("DDY", "y")):
        f = prog.func(MESH, "MeshRegion." + name)
        rep.analysed_add("functions", [f.site()])
        diff_stencils(rep, f, axis)


def diff_stencils(rep, f, axis):
    mod = f.module
    spacing = "dx" if axis == "x" else "dy"
    half = stagger.XHALF if axis == "x" else stagger.YHALF
    other_half = stagger.YHALF if axis == "x" else stagger.XHALF
    low, high = ("inner", "outer") if axis == "x" else ("lower", "upper")
    # neighbour reads bound to local names
    def reaching_nb(stmt, name):
        """the neighbour read bound to `name` by the closest preceding sibling assignment"""
        for n in ast.walk(f.node):
            for fld in ("body", "orelse"):
                b = getattr(n, fld, None)
                if isinstance(b, list) and stmt in b:
                    for prev in reversed(b[: b.index(stmt)]):
                        if isinstance(prev, ast.Assign) and isinstance(prev.targets[0], ast.Name) and prev.targets[0].id == name:
                            v = prev.value
                            if isinstance(v, ast.Call) and _dotted(v.func) == "self._eval_from_region":
                                a = v.args
                                if len(a) == 3 and isinstance(a[1], ast.Constant) and isinstance(a[2], ast.Constant) and T(mod, a[0]) == "expr":
                                    return (a[1].value, a[2].value)
                            return None
        return None
    covered = {l: [] for l in LOCS}
    nst = 0
    from ..stores import effects as _effects
    conds_of = {id(e.node): [T(mod, c) for c in e.conds if not isinstance(c, str)] for e in _effects(f.node, inline=False) if e.kind == "store"}
    variants = {}  # (loc, boundary row) -> set of "neighbour" / "one-sided"
    for s in walk_own(f.node):
        if not (isinstance(s, ast.Assign) and isinstance(s.targets[0], ast.Subscript)):
            continue
        la = stagger.loc_array(s.targets[0])
        if not la or T(mod, la[0]) != "result":
            continue
        tloc = la[1]
        nst += 1
        key = "%s/%s/%s" % (f.name, tloc, T(mod, s.targets[0].slice).replace(" ", ""))
        try:
            tx, ty = stagger.selectors(s.targets[0], tloc)
            tsel, tother = (tx, ty) if axis == "x" else (ty, tx)
            v = inline_temporaries(f.node, s.value, keep=("f", "result", "f_lower", "f_upper", "f_inner", "f_outer"))
            if not (isinstance(v, ast.BinOp) and isinstance(v.op, ast.Div) and isinstance(v.left, ast.BinOp) and isinstance(v.left.op, ast.Sub)):
                raise StencilError("not of the form (a - b)/d")
            den = v.right
            factor = 1
            if isinstance(den, ast.BinOp) and isinstance(den.op, ast.Div) and isinstance(den.right, ast.Constant) and den.right.value in (2, 2.0):
                factor = stagger.HALF
                den = den.left
            dl = stagger.loc_array(den)
            if not dl or T(mod, dl[0]) != "self." + spacing:
                raise StencilError("denominator is not self.%s" % spacing)
            if dl[1] != tloc:
                raise StencilError("denominator location %s differs from target %s" % (dl[1], tloc))
            if dl[2] is not None:
                dxs, dys = stagger.selectors(dl[2], dl[1])
                dsel, dother = (dxs, dys) if axis == "x" else (dys, dxs)
                if stagger.offset(tsel, half[tloc], dsel, half[tloc]) != 0 or stagger.offset(tother, other_half[tloc], dother, other_half[tloc]) != 0:
                    raise StencilError("denominator taken at a different point")
            elif tsel[0] != "range" or not (stagger.first_of(tsel) == Affine(0)):
                raise StencilError("unsubscripted denominator with a partial target")
            offs = []
            for side in (v.left.left, v.left.right):
                if isinstance(side, ast.Name) and reaching_nb(s, side.id) is not None:
                    region, comp = reaching_nb(s, side.id)
                    cn = ast.parse("X." + comp, mode="eval").body
                    cl = stagger.loc_array(cn)
                    sx, sy = stagger.selectors(cl[2], cl[1])
                    ssel, sother = (sx, sy) if axis == "x" else (sy, sx)
                    shift = Affine(0, -1) if region == low else (Affine(0, 1) if region == high else None)
                    if shift is None:
                        raise StencilError("neighbour %s is not along the differenced axis" % region)
                    coord = stagger.first_of(ssel) + half[cl[1]] + shift
                    tcoord = stagger.first_of(tsel) + half[tloc]
                    d = coord - tcoord
                    if d.c1 != 0:
                        raise StencilError("neighbour offset depends on size: %s" % d)
                    if other_half[cl[1]] != other_half[tloc]:
                        raise StencilError("neighbour read at a different transverse location")
                    offs.append((d.c0, "neighbour:" + region))
                else:
                    ol = stagger.loc_array(side)
                    if not ol or T(mod, ol[0]) != "f":
                        raise StencilError("operand is not the differenced field: " + T(mod, side))
                    sx, sy = stagger.selectors(ol[2], ol[1])
                    ssel, sother = (sx, sy) if axis == "x" else (sy, sx)
                    d = stagger.offset(tsel, half[tloc], ssel, half[ol[1]])
                    if other_half[ol[1]] != other_half[tloc] or stagger.offset(tother, other_half[tloc], sother, other_half[ol[1]]) != 0:
                        raise StencilError("operand at a different transverse position")
                    offs.append((d, ol[1]))
            (dm, wm), (ds, ws) = offs
            first = stagger.first_of(tsel)
            cnt = stagger.count_of(tsel)
            covered[tloc].append((first, cnt))
            at_low = tsel[0] == "index" and first == Affine(0)
            at_high = tsel[0] == "index" and first.c1 == 1
            if factor == 1:
                ok = dm == stagger.HALF and ds == -stagger.HALF
                kind = "centred difference"
            elif at_low:
                ok = dm == stagger.HALF and ds == 0
                kind = "one-sided half-cell difference at the lower boundary"
            elif at_high:
                ok = dm == 0 and ds == -stagger.HALF
                kind = "one-sided half-cell difference at the upper boundary"
            else:
                ok = False
                kind = "half-cell denominator away from a boundary"
            rep.ob("R5", "%s result.%s[%s]: %s (minuend at %+s, subtrahend at %+s, spacing x%s)" % (f.name, tloc, T(mod, s.targets[0].slice), kind, dm, ds, factor), ok, f.site(s),
                   "minuend %s, subtrahend %s" % (wm, ws), key=key + "/" + wm + "-" + ws)
            # the arm a boundary-row stencil stands in: a neighbour's value is read only where
            # that neighbour exists, the one-sided form is used only where it does not
            nb = [w.split(":")[1] for w in (wm, ws) if w.startswith("neighbour:")]
            cs = conds_of.get(id(s), [])
            if nb:
                want_c = K('self.connections["%s"] is not None' % nb[0])
                rep.ob("R5", "%s result.%s[%s]: the %s neighbour is read only where the region has one" % (f.name, tloc, T(mod, s.targets[0].slice), nb[0]), want_c in cs, f.site(s),
                       "conditions: %s" % cs, key=key + "/guard-neighbour")
                variants.setdefault((tloc, "low" if nb[0] == low else "high"), set()).add("neighbour")
            elif factor != 1 and (at_low or at_high):
                side = low if at_low else high
                want_c = K('self.connections["%s"] is None' % side)
                rep.ob("R5", "%s result.%s[%s]: the one-sided boundary form is used only where there is no %s neighbour" % (f.name, tloc, T(mod, s.targets[0].slice), side), want_c in cs, f.site(s),
                       "conditions: %s" % cs, key=key + "/guard-one-sided")
                variants.setdefault((tloc, "low" if at_low else "high"), set()).add("one-sided")
        except StencilError as e:
            rep.ob("R5", "%s: assignment to result.%s understood as a difference stencil" % (f.name, tloc), False, f.site(s), str(e), key=key)
    rep.floor("R5.%s.statements" % f.name, nst, 10)
    for (loc, side), got in sorted(variants.items()):
        rep.ob("R5", "%s: the %s boundary row of result.%s is assigned both when the region has a neighbour there and when it has not" % (f.name, side, loc), got == {"neighbour", "one-sided"}, f.site(),
               "variants present: %s" % sorted(got), key="%s/%s/%s-row-variants" % (f.name, loc, side))
    for loc in LOCS:
        n = stagger.XLEN[loc] if axis == "x" else stagger.YLEN[loc]
        pts = set()
        total = Affine(0)
        segs = set()
        for first, cnt in covered[loc]:
            segs.add((first.c0, first.c1, cnt.c0, cnt.c1))
        for (a0, a1, c0, c1) in segs:
            total = total + Affine(c0, c1)
        rep.ob("R5", "%s: result.%s is assigned at every index along %s" % (f.name, loc, axis), total == n, f.site(), "assigned index ranges (first, count): %s ; axis length %s" % (sorted(segs), n), key="%s/%s/coverage" % (f.name, loc))


def r6(prog, rep):
    """producer/consumer phases"""
    mod = prog.module(MESH)
    order, loops = locsets.phase_order(prog, with_loops=True)
    rep.analysed_add("phase order (method, loop)", ["%s@loop%d" % (m, l) for m, l in zip(order, loops)])
    produced = {}
    consumed = []

    def callees(f, seen):
        out = [f]
        for n in walk_own(f.node):
            if isinstance(n, ast.Call):
                d = dotted(n.func)
                if d and d.startswith("self.") and d.count(".") == 1:
                    g = mod.funcs.get("MeshRegion." + d[5:])
                    if g is not None and g.qualname not in seen:
                        seen.add(g.qualname)
                        out += callees(g, seen)
        return out

    for idx, name in enumerate(order):
        f = mod.funcs.get("MeshRegion." + name)
        if f is None:
            raise AnalysisError("phase %s not found" % name)
        for g in callees(f, {f.qualname}):
            for n in walk_own(g.node):
                if isinstance(n, (ast.Assign, ast.AugAssign)):
                    for t in (n.targets if isinstance(n, ast.Assign) else [n.target]):
                        b = t
                        while isinstance(b, (ast.Subscript, ast.Attribute)) and not (isinstance(b, ast.Attribute) and isinstance(b.value, ast.Name)):
                            b = b.value
                        if isinstance(b, ast.Attribute) and isinstance(b.value, ast.Name) and b.value.id in ("self", "region"):
                            produced.setdefault(b.attr, idx)
                # neighbour reads
                if isinstance(n, ast.Attribute) and isinstance(n.value, ast.Call) and (dotted(n.value.func) or "").endswith("getNeighbour"):
                    consumed.append((idx, name, g, n, n.attr))
                if isinstance(n, ast.Attribute) and isinstance(n.value, ast.Name) and n.value.id in ("up", "cbelow", "cabove") and isinstance(n.ctx, ast.Load):
                    if n.value.id == "up":
                        consumed.append((idx, name, g, n, n.attr))
                if isinstance(n, ast.Call) and dotted(n.func) in ("self.DDX", "self.DDY") and n.args and isinstance(n.args[0], ast.Constant):
                    # DDX/DDY read the inner/outer (lower/upper) neighbour's field
                    for nm in re.findall(r"#(\w+)", n.args[0].value):
                        consumed.append((idx, name, g, n, nm))
    k = 0
    for idx, name, g, n, attr in consumed:
        if attr in ("contours", "connections", "name", "nx", "ny", "myID", "equilibriumRegion"):
            if attr != "contours":
                continue
            p = -1  # contours exist before any geometry phase (built by the constructor)
        else:
            p = produced.get(attr)
        k += 1
        ok = p is not None and (p < 0 or loops[p] < loops[idx])
        rep.ob("R6", "phase %s reads the neighbour's %s, produced in an earlier loop over all regions" % (name, attr), ok, g.site(n),
               "produced in phase %s" % (order[p] if p is not None and p >= 0 else ("constructor" if p == -1 else "never")), key="phase/%s/%s" % (name, attr))
    rep.floor("R6.cross-region-reads", k, 9)


def r7(prog, rep):
    for arm in ("orthogonal", "non-orthogonal", "orthogonal/xy-curvature"):
        it, st, order = locsets.infer(prog, arm)
        for fld in ("dx", "dy"):
            have = st["data"].get("self." + fld, frozenset())
            # locations DDX/DDY divide by: every location of the result
            f = prog.func(MESH, "MeshRegion.DD" + fld[1].upper())
            used = set()
            for n in ast.walk(f.node):
                if isinstance(n, ast.Attribute) and n.attr in LOCS and T(f.module, n.value) == "self." + fld:
                    used.add(n.attr)
            for loc in sorted(used):
                # only matters if that location of a differentiated field is written
                if loc == "corners":
                    continue  # corner derivatives are not written to the grid file
                rep.ob("R7", "%s: %s.%s (a denominator of DD%s) is assigned" % (arm, fld, loc, fld[1].upper()), loc in have, it.assign_sites.get("self." + fld, MESH),
                       it.note.get("self." + fld, loc) if loc not in have else "", key="%s/%s/%s" % (arm, fld, loc))
