"""Shared extraction helpers: the equilibrium's magnetic functions as E3 values."""
import ast

from ..alg import AlgError, Context, Rat
from ..extract import Extractor, Closure, Opaque, PathRaises, ReturnValue, _dotted
from ..model import Program, walk_own, is_self_attr
from ..report import AnalysisError
from ..model import key_in

EQ = "hypnotoad/core/equilibrium.py"
MESH = "hypnotoad/core/mesh.py"

# Trusted library model: which partial derivative of the one interpolant each call is.
# RectBivariateSpline.__call__(x, y, dx=a, dy=b) is d^(a+b)/dx^a dy^b  (scipy docs);
# DCT_2D methods are checked against __call__ by C18.R2.
DCT_METHODS = {"__call__": (0, 0), "ddR": (1, 0), "ddZ": (0, 1), "d2dR2": (2, 0), "d2dZ2": (0, 2), "d2dRdZ": (1, 1)}
EQ_FUNCS = ("psi", "f_R", "f_Z", "Bp_R", "Bp_Z", "d2psidR2", "d2psidZ2", "d2psidRdZ")
EQ_METHODS = ("Bzeta", "B2", "dBzetadR", "dBzetadZ", "dBRdR", "dBRdZ", "dBZdR", "dBZdZ", "dB2dR", "dB2dZ", "dBdR", "dBdZ")


def psi_name(a, b):
    return "psi" if (a, b) == (0, 0) else "psi_" + "R" * a + "Z" * b


def declare_equilibrium(ctx, order=4):
    """psi(R,Z) with named partials up to the given order; fpol(psi) with fpolprime."""
    for a in range(order + 1):
        for b in range(order + 1 - a):
            ctx.declare_func(psi_name(a, b), (psi_name(a + 1, b) if a + b < order else None, psi_name(a, b + 1) if a + b < order else None))
    ctx.declare_func("fpol", ("fpolprime",))
    ctx.declare_func("fpolprime", ("fpolprime2",))
    ctx.declare_func("fpolprime2", (None,))


def psi_partial(ctx, a, b, R, Z):
    return ctx.call(psi_name(a, b), R, Z)


class EqModel:
    """The nine functions defined by the method that builds the interpolant
    (`magneticFunctionsFromGrid` today), extracted per arm, plus the Equilibrium helper
    methods, all inlinable into E3 values."""

    def __init__(self, prog, ctx, option="spline"):
        self.prog = prog
        self.ctx = ctx
        self.option = option
        self.mod = prog.module(EQ)
        self.builder = prog.unique_func_assigning(["Bp_R", "Bp_Z", "f_R", "f_Z"], EQ)
        self.defs = {}
        self.ex = EqEx(ctx, self.mod, self)
        arm = self._arm(option)
        env = {}
        for s in arm:
            if isinstance(s, ast.FunctionDef):
                self.defs[s.name] = ("def", s)
            elif isinstance(s, ast.Assign) and is_self_attr(s.targets[0]):
                name = s.targets[0].attr
                v = s.value
                if isinstance(v, ast.Lambda):
                    self.defs[name] = ("lambda", v)
                elif isinstance(v, ast.Call) and isinstance(v.func, ast.Attribute) and v.func.attr == "__get__":
                    pass  # bound-method conversion of the def of the same name
                elif isinstance(v, ast.Attribute):
                    d = _dotted(v)
                    if d and d.startswith("self._dct."):
                        self.defs[name] = ("alias", d.split(".")[-1])
                elif isinstance(v, ast.Call):
                    pass  # interpolant construction
            elif isinstance(s, ast.Assign) and isinstance(s.targets[0], ast.Name) and isinstance(s.value, ast.Lambda):
                self.defs[s.targets[0].id] = ("lambda", s.value)
        missing = [n for n in EQ_FUNCS if n not in self.defs]
        if missing:
            raise AnalysisError("interpolant builder arm %r does not define %s" % (option, missing))
        self.methods = {}
        for qn, f in self.mod.funcs.items():
            if f.cls == "Equilibrium" and f.name in EQ_METHODS and qn == "Equilibrium." + f.name:
                self.methods[f.name] = f
        missing = [n for n in EQ_METHODS if n not in self.methods]
        if missing:
            raise AnalysisError("Equilibrium helper methods missing: %s" % missing)

    def _arm(self, option):
        from ..model import arm_for
        arm = arm_for(self.builder.node.body, lambda t: isinstance(t, ast.Compare) and len(t.ops) == 1 and isinstance(t.ops[0], ast.Eq)
                      and isinstance(t.comparators[0], ast.Constant) and t.comparators[0].value == option)
        if arm is not None:
            return arm
        raise AnalysisError("arm for option %r not found in %s" % (option, self.builder.qualname))

    def arms_available(self):
        return ("spline", "dct")

    def call(self, name, args):
        ctx = self.ctx
        if name in self.defs:
            kind, node = self.defs[name]
            if kind == "alias":
                a, b = DCT_METHODS[node]
                return psi_partial(ctx, a, b, *args)
            if kind == "lambda":
                clo = Closure(node, {}, self.ex, name)
                return self.ex.call_closure(clo, list(args), {})
            clo = Closure(node, {}, self.ex, name)
            return self.ex.call_closure(clo, [Opaque("self")] + list(args), {})
        if name in self.methods:
            f = self.methods[name]
            clo = Closure(f.node, {}, self.ex, name)
            return self.ex.call_closure(clo, [Opaque("self")] + list(args), {})
        if name == "fpol":
            return ctx.call("fpol", *args)
        if name == "fpolprime":
            return ctx.call("fpolprime", *args)
        raise AlgError("equilibrium function %s not modelled" % name)


class EqEx(Extractor):
    def __init__(self, ctx, module, model):
        super().__init__(ctx, module, max_depth=12)
        self.model = model
        self.clipped = 0

    def on_name(self, name, env):
        return self.ctx.sym(name)

    def on_call(self, node, fname, args, kwargs, env):
        ctx = self.ctx
        if fname == "self.psi_func":
            a = kwargs.get("dx", ctx.const(0))
            b = kwargs.get("dy", ctx.const(0))
            a, b = int(a.as_const()), int(b.as_const())
            if kwargs.get("grid") is not False:
                raise AlgError("psi_func called with grid != False")
            return psi_partial(ctx, a, b, args[0], args[1])
        if fname == "self._dct":
            return psi_partial(ctx, 0, 0, *args)
        if fname and fname.startswith("self._dct."):
            m = fname.split(".")[-1]
            if m in DCT_METHODS:
                return psi_partial(ctx, *DCT_METHODS[m], *args)
        if fname in ("numpy.clip", "np.clip"):
            self.clipped += 1
            return args[0]  # identity inside the domain (trusted; outside, extrapolation is clamped)
        if fname and fname.startswith("self."):
            nm = fname[5:]
            return self.model.call(nm, args)
        if fname in self.model.defs:
            return self.model.call(fname, args)
        raise AlgError("unmodelled call in equilibrium code: %s" % (fname or self.text(node)))


_models = {}


def eq_model(prog, ctx, option="spline"):
    key = (id(prog), id(ctx), option)
    if key not in _models:
        _models[key] = EqModel(prog, ctx, option)
    return _models[key]


def equilibrium_call(ex, node, fname, args, kwargs, env, option="spline"):
    """dispatch `<...>.equilibrium.NAME(args)` reads in mesh code to the equilibrium model"""
    if fname:
        parts = fname.split(".")
        if len(parts) >= 2 and parts[-2] == "equilibrium" and (parts[-1] in EQ_FUNCS + EQ_METHODS + ("fpol", "fpolprime")):
            prog = getattr(ex, "prog", None) or _default_prog()
            return eq_model(prog, ex.ctx, option).call(parts[-1], args)
    raise AlgError("unmodelled call %s" % (fname or ex.text(node)[:80]))


_prog = None


def _default_prog():
    global _prog
    if _prog is None:
        _prog = Program()
    return _prog


def set_prog(p):
    global _prog
    _prog = p


class Geo1Ex(Extractor):
    def __init__(self, ctx, module, seeds, prog):
        super().__init__(ctx, module)
        self.seeds = seeds
        self.prog = prog

    def choose(self, test, env):
        t = self.text(test)
        for key, val in self.seeds.items():
            if key_in(key, t):
                return val
        return super().choose(test, env)

    def on_call(self, node, fname, args, kwargs, env):
        return equilibrium_call(self, node, fname, args, kwargs, env)

    def stmt(self, s, env):
        # the data-dependent sign test is recognised by what its arm does (it negates the stored
        # Bp), however the tested quantity is spelled (a local, a helper method's result)
        if isinstance(s, ast.If) and "Bp_dot_grady < 0" in self.seeds:
            def negates(arm):
                return any(isinstance(x, ast.Assign) and self.text(x.targets[0]) == "self.Bpxy" and self.text(x.value) in ("-self.Bpxy", "-1.0*self.Bpxy", "-1*self.Bpxy") for st in arm for x in ast.walk(st))
            if negates(s.body) != negates(s.orelse):
                take_body = self.seeds["Bp_dot_grady < 0"] == negates(s.body)
                return self.block(s.body if take_body else s.orelse, env)
        return super().stmt(s, env)


def eval_geometry1(prog, ctx, fg1, psi_decreasing, bp_negative, env=None):
    """abstractly evaluate the method assigning Brxy..Bxy on one combination of its two
    data-dependent tests; raises PathRaises when that combination ends in `raise`."""
    set_prog(prog)
    seeds = {
        "self.psi_vals[0] > self.psi_vals[-1]": psi_decreasing,
        "Bp_dot_grady < 0": bp_negative,
        "hasattr": True,
    }
    ex = Geo1Ex(ctx, fg1.module, seeds, prog)
    env = dict(env or {})
    env.setdefault("self.Rxy", ctx.sym("R"))
    env.setdefault("self.Zxy", ctx.sym("Z"))
    for s in fg1.node.body:
        ex.stmt(s, env)
    return env


def zshift_function(prog):
    fs = [f for f in prog.module(MESH).funcs.values()
          if any(isinstance(n, ast.Call) and _dotted(n.func) in ("cumulative_trapezoid", "cumtrapz", "scipy.integrate.cumulative_trapezoid")
                 for n in walk_own(f.node))
          and any(isinstance(n, ast.Attribute) and n.attr == "zShift" for n in walk_own(f.node))]
    if len(fs) != 1:
        raise AnalysisError("expected one function integrating zShift, found %s" % [f.qualname for f in fs])
    return fs[0]


def zshift_integrand_def(fz):
    """(FunctionDef of the integrand, call node, trapezoid call node)"""
    trap = None
    for n in walk_own(fz.node):
        if isinstance(n, ast.Call) and _dotted(n.func) in ("cumulative_trapezoid", "cumtrapz", "scipy.integrate.cumulative_trapezoid"):
            trap = n
    if trap is None or not trap.args or not isinstance(trap.args[0], ast.Name):
        raise AnalysisError("trapezoid call shape not understood in %s" % fz.qualname)
    iname = trap.args[0].id
    call = None
    for n in walk_own(fz.node):
        if isinstance(n, ast.Assign) and isinstance(n.targets[0], ast.Name) and n.targets[0].id == iname and isinstance(n.value, ast.Call):
            call = n.value
    if call is not None and isinstance(call.func, ast.Attribute) and isinstance(call.func.value, ast.Name) and call.func.value.id == "self":
        # the integrand as a (private) method of the same class instead of a nested function
        cands = [g for q, g in fz.module.funcs.items() if g.name == call.func.attr and g.cls == fz.cls and q == "%s.%s" % (g.cls, g.name)]
        if len(cands) == 1:
            return cands[0].node, call, trap
    if call is None or not isinstance(call.func, ast.Name):
        raise AnalysisError("integrand is not the result of a local function call")
    fdef = None
    for n in ast.walk(fz.node):
        if isinstance(n, ast.FunctionDef) and n.name == call.func.id and n is not fz.node:
            fdef = n
    if fdef is None:
        raise AnalysisError("local integrand function %s not found" % call.func.id)
    return fdef, call, trap


def zshift_integrand(prog, ctx, fz, R, Z):
    set_prog(prog)
    fdef, call, trap = zshift_integrand_def(fz)
    ex = Geo1Ex(ctx, fz.module, {}, prog)
    clo = Closure(fdef, {}, ex, fdef.name)
    is_method = bool(fdef.args.args) and fdef.args.args[0].arg == "self"
    return ex.call_closure(clo, ([Opaque("self")] if is_method else []) + [R, Z], {})



def clip_bound_sites(builder):
    """numpy.clip(X, lo, hi) calls in the functions the interpolant builder defines.

    The model above treats clip as the identity on the tabulated domain; that is right only
    if lo/hi are the minimum/maximum of the grid axis that the clipped coordinate runs along
    (the k-th coordinate parameter of the nested function <-> the k-th axis parameter of the
    builder, the order in which both are handed to the interpolant).
    returns [(call node, nested function name, ok, detail)]"""
    mod = builder.module
    params = [a.arg for a in builder.node.args.args if a.arg != "self"]
    bounds = {}
    counts = {}
    for s in ast.walk(builder.node):
        if isinstance(s, ast.Assign) and len(s.targets) == 1 and isinstance(s.targets[0], ast.Name):
            nm = s.targets[0].id
            v = s.value
            if isinstance(v, ast.Call) and len(v.args) == 1 and isinstance(v.args[0], ast.Name):
                fn = _dotted(v.func) or ""
                kind = {"min": "min", "max": "max", "numpy.min": "min", "numpy.max": "max", "numpy.amin": "min", "numpy.amax": "max", "np.min": "min", "np.max": "max"}.get(fn)
                if kind:
                    bounds[nm] = (kind, v.args[0].id)
    for fn_node in ast.walk(builder.node):
        if isinstance(fn_node, (ast.FunctionDef, ast.Lambda)) and fn_node is not builder.node:
            for s in ast.walk(fn_node):
                if isinstance(s, (ast.Assign, ast.AugAssign)):
                    for t in (s.targets if isinstance(s, ast.Assign) else [s.target]):
                        if isinstance(t, ast.Name) and t.id in bounds:
                            counts[t.id] = counts.get(t.id, 0) + 1  # shadowed inside a nested function
    out = []
    for fn_node in ast.walk(builder.node):
        if not isinstance(fn_node, ast.FunctionDef) or fn_node is builder.node:
            continue
        fparams = [a.arg for a in fn_node.args.args if a.arg != "self"]
        for c in ast.walk(fn_node):
            if isinstance(c, ast.Call) and (_dotted(c.func) or "") in ("numpy.clip", "np.clip"):
                ok, detail = False, ""
                if len(c.args) == 3 and all(isinstance(a, ast.Name) for a in c.args):
                    x, lo, hi = [a.id for a in c.args]
                    if x in fparams and fparams.index(x) < len(params):
                        axis = params[fparams.index(x)]
                        ok = bounds.get(lo) == ("min", axis) and bounds.get(hi) == ("max", axis) and not counts.get(lo) and not counts.get(hi)
                        detail = "clip(%s, %s=%s, %s=%s), axis of %s is %s" % (x, lo, "%s(%s)" % bounds[lo] if lo in bounds else "?", hi, "%s(%s)" % bounds[hi] if hi in bounds else "?", x, axis)
                    else:
                        detail = "clipped name %s is not a coordinate parameter" % x
                else:
                    detail = "clip arguments not plain names: " + mod.code(c)
                out.append((c, fn_node.name, ok, detail))
    return out
