"""C02 metric tensor and Jacobian: algebraic identities over the metric method (E3).

Decides the *formulas*: inverse pair, Jacobian/determinant, closed forms, agreement of
the orthogonal and non-orthogonal arms, y-z coupling against the zShift integrand, beta
relations, and (E4b) that every written location of every metric field is computed.
Does not decide: that covariant components reproduce scalar products of actual
displacements (needs numbers), accuracy of beta from neighbours.
"""
import ast

from ..alg import AlgError, Context, Rat
from ..extract import Extractor, PathRaises, ReturnValue, Opaque, _dotted
from ..model import Program, walk_own, is_self_attr
from ..report import AnalysisError, norm_text
from .. import locsets
from . import common
from ..model import key_in

MESH = "hypnotoad/core/mesh.py"
CONTRA = ["g11", "g22", "g33", "g12", "g13", "g23"]
COV = ["g_11", "g_22", "g_33", "g_12", "g_13", "g_23"]


class MetricEx(Extractor):
    def __init__(self, ctx, module, seeds):
        super().__init__(ctx, module)
        self.seeds = seeds

    def choose(self, test, env):
        t = self.text(test)
        for key, val in self.seeds.items():
            if key_in(key, t):
                neg = isinstance(test, ast.UnaryOp) and isinstance(test.op, ast.Not)
                return (not val) if neg else val
        return super().choose(test, env)

    def on_call(self, node, fname, args, kwargs, env):
        txt = self.text(node)
        if fname is None and isinstance(node.func, ast.Attribute) and node.func.attr == "zero":
            return self.ctx.const(0)
        if fname in ("self.DDX", "self.DDY"):
            return Opaque("finite difference " + txt)
        return common.equilibrium_call(self, node, fname, args, kwargs, env)


def metric_function(prog):
    return prog.unique_func_assigning(["g11", "g_23", "J"], MESH)


def eval_metric(prog, f, orthogonal, symbolic_I=False, extra_env=None):
    ctx = Context()
    ex = MetricEx(ctx, f.module, {"orthogonal": orthogonal})
    env = dict(extra_env or {})
    if symbolic_I:
        env["$symbolic_I"] = True
    jcheck_name = None
    for s in f.node.body:
        try:
            ex.stmt(s, env)
        except PathRaises:
            raise AnalysisError("metric method raises on the %s arm" % ("orthogonal" if orthogonal else "non-orthogonal"))
        if symbolic_I and isinstance(s, ast.If) and "self.I" in env:
            env["self.I"] = ctx.sym("I")
        if isinstance(s, ast.Assign) and isinstance(s.targets[0], ast.Name):
            names = {n.attr for n in ast.walk(s.value) if is_self_attr(n)}
            if set(CONTRA) <= names:
                jcheck_name = s.targets[0].id
                break
    if jcheck_name is None:
        raise AnalysisError("run-time Jacobian check expression not found in %s" % f.qualname)
    return ctx, ex, env, jcheck_name


def run(rep, tier):
    prog = Program()
    rep.analysed_add("files", [MESH])
    f = metric_function(prog)
    rep.analysed_add("functions", [f.site()])
    rep.trust("numpy elementwise arithmetic on MultiLocationArray is pointwise; sqrt/abs as real functions")
    rep.rule("R1", "G*g - 1 == 0 entrywise, per arm (modulo bpsign**2=1, abs(Bpxy)=bpsign*Bpxy, cosBeta**2*(1+tanBeta**2)=1)")
    rep.rule("R2", "J == hy/Bpxy; J**2*det(g^ij) == 1; the run-time Jcheck is bpsign/sqrt(det g^ij)")
    rep.rule("R3", "closed forms g11=(R*Bp)**2, g_33=R**2, g22=1/(hy*cosBeta)**2; g12=g13=g_12=0 when orthogonal")
    rep.rule("R4", "non-orthogonal arm at tanBeta=0,cosBeta=1 equals the orthogonal arm, component by component")
    rep.rule("R5", "g_23 == g_33 * hy * (zShift integrand at the point), on both sign paths of the Bp sign block")
    rep.rule("R6", "beta: cos**2+sin**2==1, tan==sin/cos, centre and ylow blocks are the same formula")
    rep.rule("R8", "every metric/Jacobian field is assigned at centre, xlow and ylow on both arms (E4b)")

    arms = {}
    for orth in (True, False):
        arm = "orthogonal" if orth else "non-orthogonal"
        ctx, ex, env, jname = eval_metric(prog, f, orth)
        g = {}
        for k in CONTRA + COV + ["J"]:
            v = env.get("self." + k)
            if not isinstance(v, Rat):
                raise AnalysisError("self.%s not extracted on the %s arm: %r" % (k, arm, v))
            g[k] = v
        arms[orth] = (ctx, g, env, jname)
        bs = ctx.sym("self.bpsign")
        Bp = ctx.sym("self.Bpxy")
        R = ctx.sym("self.Rxy")
        hy = ctx.sym("self.hy")
        cb = ctx.sym("self.cosBeta")
        tb = ctx.sym("self.tanBeta")
        ctx.add_relation(bs, 2, ctx.const(1), "bpsign is +-1.0 (assigned only as literal +-1.0)")
        ctx.add_relation(ctx.call("abs", Bp).as_atom(), 1, bs * Bp, "sign(Bpxy)=bpsign on every non-raising path (C03.R4)")
        ctx.add_relation(cb, 2, 1 / (1 + tb * tb), "tanBeta=sinBeta/cosBeta and cos**2+sin**2=1 (R6)")
        rep.relations = list(ctx.relation_notes)
        site = f.site()
        G = [[g["g11"], g["g12"], g["g13"]], [g["g12"], g["g22"], g["g23"]], [g["g13"], g["g23"], g["g33"]]]
        L = [[g["g_11"], g["g_12"], g["g_13"]], [g["g_12"], g["g_22"], g["g_23"]], [g["g_13"], g["g_23"], g["g_33"]]]
        for i in range(3):
            for j in range(3):
                s = ctx.const(0)
                for k in range(3):
                    s = s + G[i][k] * L[k][j]
                s = s - (1 if i == j else 0)
                rep.ob("R1", "%s: (G.g)[%d][%d] == delta" % (arm, i + 1, j + 1), s.is_zero(), site,
                       "residual " + s.residual(), key="%s/Gg%d%d" % (arm, i + 1, j + 1))
        # R2
        rep.ob("R2", "%s: J == hy/Bpxy" % arm, (g["J"] - hy / Bp).is_zero(), site, "J = " + g["J"].show(), key=arm + "/J")
        det = (g["g11"] * g["g22"] * g["g33"] + 2 * g["g12"] * g["g13"] * g["g23"]
               - g["g11"] * g["g23"] ** 2 - g["g22"] * g["g13"] ** 2 - g["g33"] * g["g12"] ** 2)
        r = g["J"] ** 2 * det - 1
        rep.ob("R2", "%s: J**2 * det(g^ij) == 1" % arm, r.is_zero(), site, "residual " + r.residual(), key=arm + "/J2det")
        jc = env.get(jname)
        ok = isinstance(jc, Rat) and (jc ** 2 * det - 1).is_zero() and (jc - bs / ctx.call("sqrt", det)).is_zero()
        rep.ob("R2", "%s: run-time check compares J with bpsign/sqrt(det(g^ij))" % arm, ok, site,
               "Jcheck = %s" % (jc.show() if isinstance(jc, Rat) else jc), key=arm + "/Jcheck")
        # R3
        rep.ob("R3", "%s: g11 == (R*Bp)**2" % arm, (g["g11"] - (R * Bp) ** 2).is_zero(), site, g["g11"].show(), key=arm + "/g11")
        rep.ob("R3", "%s: g_33 == R**2" % arm, (g["g_33"] - R ** 2).is_zero(), site, g["g_33"].show(), key=arm + "/g_33")
        if orth:
            rep.ob("R3", "orthogonal: g22 == 1/hy**2", (g["g22"] - 1 / hy ** 2).is_zero(), site, g["g22"].show(), key=arm + "/g22")
            for k in ("g12", "g13", "g_12"):
                rep.ob("R3", "orthogonal: %s == 0" % k, g[k].is_zero(), site, g[k].show(), key=arm + "/" + k)
        else:
            rep.ob("R3", "non-orthogonal: g22 == 1/(hy*cosBeta)**2", (g["g22"] - 1 / (hy * cb) ** 2).is_zero(), site, g["g22"].show(), key=arm + "/g22")
        if any(a.name.startswith("self.cosBeta") or a.name.startswith("self.tanBeta") or a.name.startswith("self.sinBeta")
               for k in g for a in g[k].all_atoms()) and orth:
            rep.ob("R3", "orthogonal arm does not read beta", False, site, "", key=arm + "/beta-read")

    # R4: arms agree at beta = 0.  Evaluate the non-orthogonal arm in a fresh context with
    # cosBeta=1, tanBeta=0 supplied as reaching definitions, and the orthogonal arm in the
    # same context.
    ctx = Context()
    vals = {}
    for orth in (True, False):
        ex = MetricEx(ctx, f.module, {"orthogonal": orth})
        env = {}
        if not orth:
            env["self.cosBeta"] = ctx.const(1)
            env["self.tanBeta"] = ctx.const(0)
            env["self.sinBeta"] = ctx.const(0)
        for s in f.node.body:
            try:
                ex.stmt(s, env)
            except AlgError:
                break
            if all(("self." + k) in env for k in CONTRA + COV + ["J"]) and isinstance(s, ast.If):
                break
        vals[orth] = env
    bs = ctx.sym("self.bpsign")
    ctx.add_relation(bs, 2, ctx.const(1), "bpsign=+-1")
    ctx.add_relation(ctx.call("abs", ctx.sym("self.Bpxy")).as_atom(), 1, bs * ctx.sym("self.Bpxy"), "C03.R4")
    for k in CONTRA + COV + ["J"]:
        a, b = vals[True].get("self." + k), vals[False].get("self." + k)
        ok = isinstance(a, Rat) and isinstance(b, Rat) and (a - b).is_zero()
        rep.ob("R4", "arms agree at beta=0: %s" % k, ok, f.site(),
               "orthogonal: %s ; non-orthogonal(beta=0): %s" % (getattr(a, "show", lambda: a)(), getattr(b, "show", lambda: b)()),
               key="arms/" + k)

    # R5: y-z coupling versus the zShift integrand
    r5(prog, rep, f)
    # R6: beta relations
    r6(prog, rep)
    # R8: location sets
    locsets.check_fields(prog, rep, "R8", CONTRA + COV + ["J"], arms=("orthogonal", "non-orthogonal"),
                         need=("centre", "xlow", "ylow"))
    # R9: the closed forms hold for the arrays that are written: operands are not stored to after
    # a component is computed, and no geometry field is kept from an earlier call
    rep.rule("R9", "written arrays are the ones the components were computed from: no later store to an operand, no memoised geometry field")
    locsets.check_fresh(prog, rep, "R9", CONTRA + COV + ["J", "hy"], ["orthogonal", "non-orthogonal", "orthogonal/capBp"])
    memo_rule(prog, rep)
    r10(prog, rep, f)
    from ..report import Premise
    # R5 states g_23 = g_33 * d(zShift)/dy; zShift is built by the placement/chain code of C06
    rep.rule("R11", "premise: zShift is the chained field-line integral at every location (placement parities, hand-over between regions: C06.R2/R3)")
    from . import c06
    c06.r2_r3(prog, Premise(rep, "R11", "C06"), common.zshift_function(prog))
    from . import c18
    c18.mla_rules(prog, Premise(rep, "R8", "C18"), "R3")
    rep.undecided("covariant components vs scalar products of actual displacements (numerical)")
    rep.undecided("accuracy of beta computed from radial neighbours")
    return __doc__


def beta_expressions(prog, ctx, loc="centre"):
    """(cosBeta, sinBeta) of the beta method for one location block as expressions in
    dxR, dxZ (radial index displacement), f_R, f_Z (direction of grad psi) and self.bpsign"""
    fb = prog.unique_func_assigning(["cosBeta", "sinBeta", "tanBeta"], MESH)
    cur = []
    for s in fb.node.body:
        cur.append(s)
        if isinstance(s, ast.Assign):
            t = s.targets[0]
            if isinstance(t, ast.Attribute) and is_self_attr(t.value, "sinBeta"):
                if t.attr == loc:
                    ex = BetaEx(ctx, fb.module, loc)
                    ex.on_attr = lambda d, node, env: ctx.sym(d)
                    env = {}
                    for st in cur:
                        ex.stmt(st, env)
                    return env.get("self.cosBeta"), env.get("self.sinBeta"), fb
                cur = []
    raise AnalysisError("beta block for %s not found" % loc)


def r10(prog, rep, f):
    """the off-diagonal covariant component g_12 is the scalar product of the actual basis
    vectors: e_x = (radial displacement)/(change of psi along it), e_y = hy * (unit vector
    along increasing y), for both signs of Bp.  Everything else in the non-orthogonal arm
    follows from it through the inverse relation (R1)."""
    rep.rule("R10", "non-orthogonal arm: g_12 == e_x . e_y with e_x, e_y built from the displacement the beta method measures (per sign of Bp)")
    for bsv in (1, -1):
        ctx = Context()
        c, sn, fb = beta_expressions(prog, ctx, "centre")
        if not (isinstance(c, Rat) and isinstance(sn, Rat)):
            rep.ob("R10", "beta expressions extractable", False, MESH, "", key="disp/extract")
            return
        ex = MetricEx(ctx, f.module, {"orthogonal": False})
        env = {"self.cosBeta": c, "self.sinBeta": sn, "self.tanBeta": sn / c, "self.I": ctx.const(0)}
        for s in f.node.body:
            try:
                ex.stmt(s, env)
            except (AlgError, PathRaises):
                break
            if "self.g_12" in env and isinstance(s, ast.If):
                break
        g_12 = env.get("self.g_12")
        if not isinstance(g_12, Rat):
            rep.ob("R10", "g_12 extractable with beta substituted", False, f.site(), str(g_12), key="disp/g_12/extract")
            return
        Bp, R, hy, bs = ctx.sym("self.Bpxy"), ctx.sym("self.Rxy"), ctx.sym("self.hy"), ctx.sym("self.bpsign")
        ctx.add_relation(ctx.call("abs", Bp).as_atom(), 1, bsv * Bp, "sign(Bpxy)=bpsign (C03.R4), bpsign=%+d on this arm" % bsv)
        dxR, dxZ, fR, fZ = ctx.sym("dxR"), ctx.sym("dxZ"), ctx.sym("f_R"), ctx.sym("f_Z")
        # e_x.e_y = hy * (dr . yhat) / (dr . grad psi),  yhat = bpsign * (f_Z, -f_R)/|f|,  grad psi = R|Bp| (f_R, f_Z)/|f|
        true = hy * bsv * (dxR * fZ - dxZ * fR) / ((dxR * fR + dxZ * fZ) * R * (bsv * Bp))
        # I is zero in this evaluation, so the whole of g_12 is the poloidal scalar product
        d = (g_12.subs({"self.bpsign": bsv}) - true).subs({"self.I": 0})
        rep.ob("R10", "bpsign=%+d: g_12 == e_x . e_y (e_x from the radial displacement the beta method uses, e_y = hy*yhat)" % bsv, d.is_zero(), f.site(),
               "g_12 - e_x.e_y = " + d.residual()[:200], key="disp/g_12/bpsign=%+d" % bsv)


def memo_rule(prog, rep):
    """the geometry phases recompute every field on each call (points may have been moved by a
    regrid in between): no store to a region field is guarded by a test of that field's own
    existence (`hasattr(self, "hy")`, `self.hy is None`)"""
    mod = prog.module(MESH)
    order = locsets.phase_order(prog)
    seen = set()
    work = ["MeshRegion." + n for n in order]
    bad = []
    nfun = 0
    while work:
        qn = work.pop()
        if qn in seen or qn not in mod.funcs:
            continue
        seen.add(qn)
        f = mod.funcs[qn]
        nfun += 1
        for n in walk_own(f.node):
            if isinstance(n, ast.Call) and isinstance(n.func, ast.Attribute) and is_self_attr(n.func) and "MeshRegion." + n.func.attr in mod.funcs:
                work.append("MeshRegion." + n.func.attr)
            if isinstance(n, ast.If):
                tested = set()
                for x in ast.walk(n.test):
                    if isinstance(x, ast.Call) and isinstance(x.func, ast.Name) and x.func.id == "hasattr" and len(x.args) == 2 and isinstance(x.args[1], ast.Constant) \
                            and isinstance(x.args[0], ast.Name) and x.args[0].id == "self":
                        tested.add(x.args[1].value)
                    if isinstance(x, ast.Compare) and is_self_attr(x.left) and any(isinstance(c, ast.Constant) and c.value is None for c in x.comparators):
                        tested.add(x.left.attr)
                for arm in (n.body, n.orelse):
                    for s in arm:
                        for y in ast.walk(s):
                            if isinstance(y, ast.Assign):
                                for t in y.targets:
                                    if is_self_attr(t) and t.attr in tested:
                                        bad.append((f, n, t.attr))
    for f, n, a in bad:
        rep.ob("R9", "%s: self.%s is recomputed on every call, not kept when it already exists" % (f.qualname, a), False, f.site(n),
               "definite: assignment guarded by `%s`: after a regrid the field would keep the value of the old point positions" % mod.code(n.test)[:80], key="memo/%s/%s" % (f.qualname, a))
    rep.ob("R9", "no geometry-phase method memoises a region field (%d methods reachable from the phases)" % nfun, not bad, MESH, "", key="memo/none")
    rep.floor("R9.phase-methods", nfun, 8)


def r5(prog, rep, f):
    """g_23 = g_33 * hy * integrand(R,Z), integrand from the function assigning zShift,
    on each non-raising path of the Bp sign block."""
    fz = common.zshift_function(prog)
    fg1 = prog.unique_func_assigning(["Brxy", "Bzxy", "Bpxy", "Btxy"], MESH)
    fg2 = prog.unique_func_assigning(["dphidy"], MESH)
    rep.analysed_add("functions", [fz.site(), fg1.site(), fg2.site()])
    n_paths = 0
    for psi_decreasing in (True, False):
        for bp_negative in (True, False):
            ctx = Context()
            common.declare_equilibrium(ctx)
            try:
                env = common.eval_geometry1(prog, ctx, fg1, psi_decreasing, bp_negative)
            except PathRaises:
                continue
            n_paths += 1
            # dphidy
            ex2 = MetricEx(ctx, fg2.module, {})
            for s in fg2.node.body:
                if isinstance(s, ast.Assign) and any(is_self_attr(t, "dphidy") for t in s.targets):
                    ex2.stmt(s, env)
            integrand = common.zshift_integrand(prog, ctx, fz, env["self.Rxy"], env["self.Zxy"])
            for orth in (True, False):
                arm = "orthogonal" if orth else "non-orthogonal"
                ex = MetricEx(ctx, f.module, {"orthogonal": orth})
                e2 = dict(env)
                for s in f.node.body:
                    try:
                        ex.stmt(s, e2)
                    except AlgError:
                        break
                    if "self.g_23" in e2:
                        break
                g_23, g_33, g23 = e2.get("self.g_23"), e2.get("self.g_33"), e2.get("self.g23")
                hy = ctx.sym("self.hy")
                path = "bpsign=%+d" % (-1 if psi_decreasing else 1)
                ok = isinstance(g_23, Rat) and isinstance(g_33, Rat) and (g_23 - g_33 * hy * integrand).is_zero()
                rep.ob("R5", "%s, %s: g_23 == g_33*hy*Bt/(R*|Bp|) (zShift integrand)" % (arm, path), ok, f.site(),
                       "g_23 = %s ; g_33*hy*integrand = %s" % (g_23.show(200) if isinstance(g_23, Rat) else g_23,
                                                               (g_33 * hy * integrand).show(200) if isinstance(g_33, Rat) else "?"),
                       key="%s/%s/g_23" % (arm, path))
    rep.floor("R5.sign-paths", n_paths, 2)


def r6(prog, rep):
    fb = prog.unique_func_assigning(["cosBeta", "sinBeta", "tanBeta"], MESH)
    rep.analysed_add("functions", [fb.site()])
    mod = fb.module
    # split the body into location blocks: statements up to each assignment of
    # self.sinBeta.<loc>
    blocks = {}
    cur = []
    for s in fb.node.body:
        cur.append(s)
        if isinstance(s, ast.Assign):
            t = s.targets[0]
            if isinstance(t, ast.Attribute) and is_self_attr(t.value, "sinBeta"):
                blocks[t.attr] = cur
                cur = []
    tail = cur
    rep.floor("R6.blocks", len(blocks), 2)
    forms = {}
    for loc, stmts in blocks.items():
        ctx = Context()
        ex = BetaEx(ctx, mod, loc)
        ex.on_attr = lambda d, node, env: ctx.sym(d)
        bs = ctx.sym("self.bpsign")
        ctx.add_relation(bs, 2, ctx.const(1), "bpsign is +-1")
        env = {}
        for s in stmts:
            ex.stmt(s, env)
        c, sn = env.get("self.cosBeta"), env.get("self.sinBeta")
        ok = isinstance(c, Rat) and isinstance(sn, Rat) and (c * c + sn * sn - 1).is_zero()
        rep.ob("R6", "%s: cosBeta**2 + sinBeta**2 == 1" % loc, ok, fb.site(stmts[0]),
               ("residual " + (c * c + sn * sn - 1).residual()) if isinstance(c, Rat) and isinstance(sn, Rat) else "cosBeta/sinBeta not representable: %r, %r" % (c, sn), key="beta/" + loc + "/unit")
        # cos is the projection of the unit radial displacement on unit grad psi
        dx, dz, fr, fz_ = ctx.sym("dxR"), ctx.sym("dxZ"), ctx.sym("f_R"), ctx.sym("f_Z")
        expect_c = (dx * fr + dz * fz_) / (ctx.call("sqrt", dx * dx + dz * dz) * ctx.call("sqrt", fr * fr + fz_ * fz_))
        # yhat = bpsign * (grad psi direction rotated clockwise) is the unit vector along increasing y;
        # the metric formulas take beta positive when e_x leans towards -yhat (R10 decides that
        # independently, from the displacement itself)
        expect_s = -bs * (dx * fz_ - dz * fr) / (ctx.call("sqrt", dx * dx + dz * dz) * ctx.call("sqrt", fr * fr + fz_ * fz_))
        rep.ob("R6", "%s: cosBeta == dx_hat . gradpsi_hat" % loc, isinstance(c, Rat) and (c - expect_c).is_zero(), fb.site(stmts[0]), c.show(200) if isinstance(c, Rat) else str(c), key="beta/" + loc + "/cos")
        rep.ob("R6", "%s: sinBeta == -dx_hat . yhat, yhat = bpsign*(gradpsi_hat rotated by -90deg)" % loc, isinstance(sn, Rat) and (sn - expect_s).is_zero(), fb.site(stmts[0]), sn.show(200) if isinstance(sn, Rat) else str(sn), key="beta/" + loc + "/sin")
        forms[loc] = ex.operands
    # operand typing: delta_x is the difference of the radial faces of the same cell
    want = {"centre": ("xlow", "centre"), "ylow": ("corners", "ylow")}
    for loc, ops in forms.items():
        w = want.get(loc)
        if w is None:
            rep.ob("R6", "beta block for unexpected location %s" % loc, False, fb.site(), "", key="beta/" + loc + "/loc")
            continue
        ok = ops.get("dx_loc") == {w[0]} and ops.get("f_loc") == {w[1]} and ops.get("dx_slices") == {("1:", ":-1")}
        rep.ob("R6", "%s: radial displacement is %s[1:]-%s[:-1], grad psi evaluated at %s" % (loc, w[0], w[0], w[1]), ok,
               fb.site(), "found %s" % ops, key="beta/" + loc + "/operands")
    # tan = sin/cos
    ctx = Context()
    ex = Extractor(ctx, mod)
    env = {}
    ok = False
    for s in tail:
        if isinstance(s, ast.Assign) and is_self_attr(s.targets[0], "tanBeta"):
            ex.stmt(s, env)
            v = env.get("self.tanBeta")
            ok = isinstance(v, Rat) and (v - ctx.sym("self.sinBeta") / ctx.sym("self.cosBeta")).is_zero()
    rep.ob("R6", "tanBeta == sinBeta/cosBeta", ok, fb.site(), "", key="beta/tan")


class BetaEx(Extractor):
    """extracts one location block of the beta method; list-valued locals with in-place
    normalisation (delta_x[0] /= mod) are tracked as python lists."""

    def __init__(self, ctx, module, loc):
        super().__init__(ctx, module)
        self.loc = loc
        self.strip_location = False
        self.operands = {"dx_loc": set(), "f_loc": set(), "dx_slices": set()}

    def on_subscript(self, node, value, env):
        # self.Rxy.xlow[1:, :]  -> atoms R_hi / R_lo
        base = node.value
        if isinstance(base, ast.Attribute) and is_self_attr(base.value) and base.value.attr in ("Rxy", "Zxy"):
            sl = node.slice
            first = sl.elts[0] if isinstance(sl, ast.Tuple) else sl
            txt = self.text(first).replace(" ", "")
            self.operands["dx_loc"].add(base.attr)
            which = base.value.attr[0]
            if txt == "1:":
                return self.ctx.sym(which + "_hi")
            if txt == ":-1":
                return self.ctx.sym(which + "_lo")
            self.operands["dx_slices"].add((txt,))
            raise AlgError("unexpected radial slice " + txt)
        if isinstance(value, list):
            i = self.const_index(node.slice, env)
            return value[i]
        return super().on_subscript(node, value, env)

    def expr(self, node, env):
        if isinstance(node, ast.BinOp) and isinstance(node.op, ast.Sub):
            # recognise X[1:] - X[:-1]
            a = self.text(node.left).replace(" ", "")
            b = self.text(node.right).replace(" ", "")
            for q in ("Rxy", "Zxy"):
                pre = "self.%s." % q
                if a.startswith(pre) and b.startswith(pre):
                    la, lb = a[len(pre):], b[len(pre):]
                    if la.split("[")[0] == lb.split("[")[0]:
                        sa = la.split("[")[1].split(",")[0]
                        sb = lb.split("[")[1].split(",")[0]
                        self.operands["dx_slices"].add((sa, sb))
                        self.operands["dx_loc"].add(la.split("[")[0])
                        return self.ctx.sym("dx" + q[0])
        return super().expr(node, env)

    def on_call(self, node, fname, args, kwargs, env):
        if fname and fname.endswith((".f_R", ".f_Z")):
            for a in node.args:
                if isinstance(a, ast.Attribute):
                    self.operands["f_loc"].add(a.attr)
            return self.ctx.sym(fname.split(".")[-1])
        if isinstance(node.func, ast.Name) and node.func.id == "MultiLocationArray":
            return Opaque("MultiLocationArray")
        raise AlgError("unmodelled call %s" % fname)

    def stmt(self, s, env):
        # list element in-place division: delta_x[0] /= mod_delta_x
        if isinstance(s, ast.AugAssign) and isinstance(s.target, ast.Subscript) and isinstance(s.target.value, ast.Name):
            lst = env.get(s.target.value.id)
            if isinstance(lst, list):
                i = self.const_index(s.target.slice, env)
                lst[i] = self.binop(s.op, lst[i], self.expr(s.value, env), s)
                return
        if isinstance(s, ast.Assign):
            t = s.targets[0]
            if isinstance(t, ast.Attribute) and is_self_attr(t.value) and t.attr in ("centre", "ylow", "xlow", "corners"):
                if t.attr != self.loc and t.value.attr in ("cosBeta", "sinBeta"):
                    raise AlgError("block for %s assigns %s.%s" % (self.loc, t.value.attr, t.attr))
                env["self." + t.value.attr] = self.expr(s.value, env)
                return
        return super().stmt(s, env)
