"""C11 targets on the wall; penalty mask; wall output (structural clauses).

R1 wall normalisation: the wall is reversed iff polygons.clockwise(wall); area>0 <=> clockwise
   (per-edge identity, C20.R5).
R2 closure: the closed wall is the wall plus its first point; the writer emits its columns.
R3 wall point on the surface: on every path of the wall-intersection helper the returned
   lower/upper intersect has passed through refinePoint (must-flow, both ends).
R4 bookkeeping: on each placement branch the position of the wall point equals the index
   later stored as startInd/endInd (symbolic evaluation incl. negative-index insertion),
   followed by a cache reset.
R5 penalty-mask case table.
Not decided: that the point is on the wall and cells are inside/outside (geometry).
"""
import ast

from ..alg import AlgError, Context, Rat
from ..extract import Extractor
from ..flow import MustFlow
from ..model import Program, walk_own, dotted
from ..report import AnalysisError
from ..model import canon as K, as_less

MESH = "hypnotoad/core/mesh.py"
TOK = "hypnotoad/cases/tokamak.py"
EQ = "hypnotoad/core/equilibrium.py"


def T(mod, n):
    return mod.code(n)


def run(rep, tier):
    prog = Program()
    rep.analysed_add("files", [MESH, TOK, EQ])
    rep.rule("R1", "wall reversed iff clockwise")
    rep.rule("R2", "closed wall = wall + first point; written as closed_wall_R/Z")
    rep.rule("R3", "returned wall intersections pass through refinePoint on every path")
    rep.rule("R4", "wall-point index bookkeeping")
    rep.rule("R5", "penalty-mask case table")
    r1_r2(prog, rep)
    r3(prog, rep)
    r4(prog, rep)
    r5(prog, rep)
    rep.notes.append("advisory: `len(contour // 2)` in the wall-to-wall branch of the wall-intersection helper raises TypeError (PsiContour has no __floordiv__)")
    rep.undecided("everything geometric: that the point is on the wall, that cells between targets are inside the wall")
    return __doc__


def r1_r2(prog, rep):
    mod = prog.module(TOK)
    init = mod.funcs.get("TokamakEquilibrium.__init__")
    ifs = [n for n in walk_own(init.node) if isinstance(n, ast.If) and T(mod, n.test) == K("polygons.clockwise(wall)")]
    ok = len(ifs) == 1 and not ifs[0].orelse and len(ifs[0].body) == 1 and T(mod, ifs[0].body[0]) == K("wall=wall[::-1]")
    rep.ob("R1", "the wall is reversed exactly when it is clockwise", ok, init.site(ifs[0]) if ifs else init.site(), "", key="wall/orientation")
    # what `clockwise` means: the sign of the shoelace area of the closed polygon (rule instances of C20.R5)
    from ..report import Premise
    from . import c20
    c20.area_rules(prog, Premise(rep, "R1", "C20"), "R5")
    ok = any(isinstance(s, ast.Assign) and T(mod, s) == K("self.wall = [Point2D(r, z) for r, z in wall]") for s in walk_own(init.node))
    rep.ob("R1", "self.wall holds the (normalised) wall points in order", ok, init.site(), "", key="wall/store")
    # order: normalisation precedes the store
    body = [T(mod, s) for s in init.node.body]
    i1 = next((k for k, s in enumerate(body) if s.startswith(K("ifpolygons.clockwise(wall):"))), None)
    i2 = next((k for k, s in enumerate(body) if s.startswith(K("self.wall="))), None)
    rep.ob("R1", "orientation is normalised before the wall is stored", i1 is not None and i2 is not None and i1 < i2, init.site(), "", key="wall/order")
    em = prog.module(EQ)
    ei = em.funcs.get("Equilibrium.__init__")
    src = T(em, ei.node)
    from ..model import inline_temporaries
    vals = [T(em, inline_temporaries(ei.node, s.value)) for s in walk_own(ei.node) if isinstance(s, ast.Assign) and T(em, s.targets[0]) == "self.closed_wallarray"]
    ok = vals == [K("numpy.array([(p.R, p.Z) for p in self.wall + [self.wall[0]]])")]
    rep.ob("R2", "the closed wall array is the wall followed by its first point, columns (R, Z)", ok, ei.site(), "", key="wall/closed")
    w = prog.func(MESH, "BoutMesh.writeGridfile")
    src = T(w.module, w.node)
    ok = K('f.write("closed_wall_R",self.equilibrium.closed_wallarray[:,0])') in src and K('f.write("closed_wall_Z",self.equilibrium.closed_wallarray[:,1])') in src
    rep.ob("R2", "closed_wall_R / closed_wall_Z are columns 0 / 1 of that array", ok, w.site(), "", key="wall/written")
    wi = em.funcs.get("Equilibrium.wallIntersection")
    ok = K("intersects=find_intersections(self.closed_wallarray,p1,p2)") in T(em, wi.node)
    rep.ob("R2", "wall crossings are computed against the closed wall", ok, wi.site(), "", key="wall/used")


def r3(prog, rep):
    from .. import sides
    wall_funcs = ("MeshRegion.addPointAtWallToContours", "_find_intersection", "MeshRegion.calcPenaltyMask")
    sides.check(prog, rep, "R4", lambda f: f.module.rel == "hypnotoad/core/mesh.py" and f.qualname in wall_funcs, "wall-point placement (core/mesh.py)")
    # the crossing finder the wall point comes from: every wall edge is tested, in exactly one of
    # the two slope classes, over its whole closed extent (rule instances of C20.R1-R3)
    from ..report import Premise
    from . import c20
    c20.r1_r2_r3(prog, Premise(rep, "R3", "C20"))
    f = prog.func(MESH, "_find_intersection")
    mod = f.module
    exits = []

    def transfer(s, facts):
        if isinstance(s, ast.Assign) and isinstance(s.targets[0], ast.Name) and s.targets[0].id in ("lower_intersect", "upper_intersect"):
            nm = s.targets[0].id
            v = s.value
            if isinstance(v, ast.Constant) and v.value is None:
                return facts | {nm}
            if isinstance(v, ast.Call) and T(mod, v.func) == "contour.refinePoint" and v.args and T(mod, v.args[0]) == nm:
                return facts | {nm}
            return facts - {nm}
        return facts

    MustFlow(transfer, on_return=lambda node, facts: exits.append((node, facts))).run(f.node, frozenset())
    n = 0
    for node, facts in exits:
        if node is None:
            continue
        n += 1
        for nm in ("lower_intersect", "upper_intersect"):
            rep.ob("R3", "returned %s is None or has been pulled onto the flux surface by refinePoint on every path" % nm, nm in facts, f.site(node), "", key="refined/" + nm)
    rep.floor("R3.returns", n, 1)
    rets = [r for r in walk_own(f.node) if isinstance(r, ast.Return)]
    ok = len(rets) == 1 and T(mod, rets[0].value) == K("(contour,lower_intersect_index,lower_intersect,upper_intersect_index,upper_intersect,)")
    rep.ob("R3", "the helper returns (contour, lower index, lower point, upper index, upper point)", ok, f.site(), "", key="refined/return-shape")
    # the refinement uses the local tangent of the fine contour and the region's psi
    calls = [c for c in walk_own(f.node) if isinstance(c, ast.Call) and T(mod, c.func) == "contour.refinePoint"]
    ok = len(calls) == 2 and all({k.arg: T(mod, k.value) for k in c.keywords}.get("psi") == "psi" for c in calls)
    rep.ob("R3", "both refinements use the flux function passed to the helper", ok, f.site(), "", key="refined/psi")
    # the caller unpacks in the same order
    g = prog.func(MESH, "MeshRegion.addPointAtWallToContours")
    src = T(mod, g.node)
    names4 = ["lower_intersect_index", "lower_intersect", "upper_intersect_index", "upper_intersect"]

    def name_list(t):
        return [e.id if isinstance(e, ast.Name) else ("*" + e.value.id if isinstance(e, ast.Starred) and isinstance(e.value, ast.Name) else "?") for e in t.elts] if isinstance(t, ast.Tuple) else None

    tuples = []
    for n_ in ast.walk(g.node):
        if isinstance(n_, ast.Assign):
            tuples += [t for t in n_.targets]
        elif isinstance(n_, (ast.For, ast.comprehension)):
            tuples.append(n_.target)
    flat = []
    for t in tuples:
        for x in ast.walk(t):
            if isinstance(x, ast.Tuple):
                flat.append(name_list(x))
    unpack_ok = names4 in flat or any(l and l[1:] == names4 for l in flat if l)
    # element 0 is the contour: `[r[0] for r in map_result]` + `[r[1:] ...]`, or `for c, *rest in map_result`
    first = any(isinstance(c_, (ast.ListComp, ast.GeneratorExp)) and isinstance(c_.elt, ast.Subscript) and isinstance(c_.elt.slice, ast.Constant) and c_.elt.slice.value == 0
                and isinstance(c_.elt.value, ast.Name) and isinstance(c_.generators[0].target, ast.Name) and c_.elt.value.id == c_.generators[0].target.id
                and T(mod, c_.generators[0].iter) == "map_result" for c_ in ast.walk(g.node))
    rest = any(isinstance(c_, (ast.ListComp, ast.GeneratorExp)) and isinstance(c_.elt, ast.Subscript) and T(mod, c_.elt.slice) == K("1:")
               and T(mod, c_.generators[0].iter) == "map_result" for c_ in ast.walk(g.node))
    starred = any(l and len(l) == 2 and l[1].startswith("*") for l in flat if l) or any(l and len(l) == 5 and l[1:] == names4 for l in flat if l)
    ok = unpack_ok and ((first and rest) or starred)
    rep.ob("R3", "the caller unpacks the result in the same order", ok, g.site(), "", key="refined/unpack")


class IdxEx(Extractor):
    def on_name(self, name, env):
        return self.ctx.sym(name)


def marker_shift_rules(prog, rep):
    """The wall point is remembered as startInd / endInd (endInd = -2 while the contour still has a
    temporary point beyond an upper wall).  Guard points added afterwards by
    PsiContour.temporaryExtend must leave the markers on the same points: every prepended point
    shifts non-negative markers up by one, every appended point shifts a negative endInd down by
    one - per point, i.e. in the loop that adds the point."""
    from ..stores import effects, Marker
    f = prog.func(EQ, "PsiContour.temporaryExtend")
    mod = f.module
    effs = effects(f.node, inline=False)

    def loop_of(e):
        ms = [c for c in e.conds if isinstance(c, Marker)]
        return str(ms[-1]) if ms else None

    def shifts_in(loop, after_line):
        out = set()
        for e in effs:
            if e.kind == "augstore" and loop_of(e) == loop and e.node.lineno > after_line and isinstance(e.value, ast.Constant) and e.value.value == 1:
                cs = [mod.code(c) for c in e.conds if not isinstance(c, str)]
                out.add((mod.code(e.target), type(e.node.op).__name__, cs[-1] if cs else ""))
        return out

    n = 0
    for e in effs:
        if e.kind != "call" or mod.code(e.value.func) not in ("self.prepend", "self.append"):
            continue
        n += 1
        which = mod.code(e.value.func).split(".")[1]
        lp = loop_of(e)
        if lp is None:
            rep.ob("R4", "temporaryExtend: %s of a guard point happens in a loop over the requested number of points" % which, False, f.site(e.node), "", key="markers/%s/loop" % which)
            continue
        got = shifts_in(lp, e.node.lineno)
        if which == "prepend":
            want = {("self.startInd", "Add", K("self.startInd >= 0")), ("self.endInd", "Add", K("self.endInd >= 0"))}
        else:
            want = {("self.endInd", "Sub", K("self.endInd < 0"))}
        rep.ob("R4", "temporaryExtend: every %sed guard point shifts the start/end markers so that they stay on the same points (%s)" % (which, "non-negative markers +1" if which == "prepend" else "negative endInd -1"),
               want <= got, f.site(e.node), "shifts found in the same loop after the %s: %s" % (which, sorted(got)), key="markers/%s/shift" % which)
    rep.floor("R4.marker-shifts", n, 2)


def scan_direction_rules(prog, rep):
    """_find_intersection looks for a segment of the (coarse) contour that already crosses the
    wall.  A flux surface followed past a target can cross the wall again (baffles, slots); the
    target is the crossing nearest to the plasma, i.e. the first one met when walking from the
    start index towards that end of the contour: downwards for the lower wall, upwards for the
    upper wall, stopping at the first hit."""
    f = prog.func(MESH, "_find_intersection")
    mod = f.module
    n = 0
    for end, step_want in (("lower", -1), ("upper", 1)):
        var = "coarse_%s_intersect" % end
        loops = [l for l in walk_own(f.node) if isinstance(l, ast.For) and any(isinstance(s, ast.Assign) and isinstance(s.targets[0], ast.Name) and s.targets[0].id == var for s in l.body)]
        if len(loops) != 1:
            rep.ob("R4", "_find_intersection: one scan for a segment crossing the %s wall" % end, False, f.site(), "unmodelled: %d loops assign %s" % (len(loops), var), key="scan/%s/loop" % end)
            continue
        l = loops[0]
        n += 1
        it = l.iter
        ok, detail = False, "unmodelled iterable %s" % mod.code(it)
        if isinstance(it, ast.Call) and mod.code(it.func) == "range":
            a = it.args
            start = mod.code(a[0]) if len(a) >= 2 else "0"
            step = (mod.code(a[2]) if len(a) == 3 else "1")
            if end == "lower":
                ok = len(a) == 3 and start == "starti" and step == "-1" and mod.code(a[1]) == "0"
            else:
                ok = len(a) == 2 and start == "starti" and mod.code(a[1]) == K("len(contour) - 1")
            detail = "" if ok else "definite: the scan runs over %s: it does not start at the start index and walk towards the %s end, so with several crossings it stops at one farther from the plasma" % (mod.code(it), end)
        stops = any(isinstance(s, ast.If) and var in mod.code(s.test) and "isnotNone" in mod.code(s.test) and isinstance(s.body[-1], ast.Break) for s in l.body)
        rep.ob("R4", "_find_intersection: the %s-wall scan walks from the start index towards the %s end and stops at the first crossing" % (end, end), ok and stops, f.site(l),
               detail if not ok else ("" if stops else "definite: the scan does not stop at the first crossing"), key="scan/%s/direction" % end)
    rep.floor("R4.scans", n, 2)


def r4(prog, rep):
    marker_shift_rules(prog, rep)
    scan_direction_rules(prog, rep)
    g = prog.func(MESH, "MeshRegion.addPointAtWallToContours")
    mod = g.module
    for end, var, setter in (("lower", "lower_intersect_index", "startInd"), ("upper", "upper_intersect_index", "endInd")):
        blk = None
        for n in ast.walk(g.node):
            if isinstance(n, ast.If) and T(mod, n.test) == end + "_wall" and any(isinstance(x, ast.Call) and T(mod, x.func) in ("contour.replace", "contour.insert") for x in ast.walk(n)):
                blk = n
        if blk is None:
            rep.ob("R4", "%s wall placement block found" % end, False, g.site(), "", key="book/%s/block" % end)
            continue
        place = blk.body[0]
        branches = []
        cur = place
        while isinstance(cur, ast.If):
            branches.append(cur.body)
            if len(cur.orelse) == 1 and isinstance(cur.orelse[0], ast.If):
                cur = cur.orelse[0]
            else:
                branches.append(cur.orelse)
                break
        rep.floor("R4.%s.branches" % end, len(branches), 3)
        # the statement that stores the index
        stored = None
        for n in ast.walk(blk):
            if isinstance(n, ast.Assign) and T(mod, n.targets[0]) == "contour." + setter:
                stored = n
        ok_store = stored is not None and T(mod, stored.value) == var
        rep.ob("R4", "%s: contour.%s is set to the tracked wall-point index" % (end, setter), ok_store, g.site(stored) if stored else g.site(blk), "", key="book/%s/store" % end)
        for bi, body in enumerate(branches):
            for sign in ("nonneg", "neg"):
                ctx = Context()
                ex = IdxEx(ctx, mod)
                u0 = ctx.sym("u")
                env = {var: u0}
                pos = None
                kind = None
                for st in body:
                    if isinstance(st, ast.If):
                        take = None

                        def nonneg(tn):
                            less = as_less(tn)
                            return bool(less) and not less[1] and isinstance(less[0], ast.Constant) and less[0].value == 0 and mod.code(less[2]) == var
                        if isinstance(st.test, ast.BoolOp) and any(nonneg(v) for v in st.test.values):
                            continue  # adjusts the *other* end's index
                        if nonneg(st.test):
                            take = sign == "nonneg"
                        if take:
                            for s2 in st.body:
                                ex.stmt(s2, env)
                        continue
                    if isinstance(st, ast.Expr) and isinstance(st.value, ast.Call) and T(mod, st.value.func) in ("contour.replace", "contour.insert"):
                        kind = st.value.func.attr
                        k = ex.expr(st.value.args[0], env)
                        if kind == "replace":
                            pos = k
                        else:
                            # list.insert(k): the new element is at k when k >= 0; for k < 0 it goes before
                            # the element at k and ends up at k - 1 in negative indexing
                            pos = k if sign == "nonneg" else k - 1
                        continue
                    try:
                        ex.stmt(st, env)
                    except AlgError:
                        pass
                final = env[var]
                ok = pos is not None and (final - pos).is_zero()
                if end == "lower" and sign == "neg":
                    continue  # the lower index is never negative (initialised to 0 or i-1 >= 0)
                rep.ob("R4", "%s wall, branch %d (%s), %s index: the wall point sits at the index stored in %s" % (end, bi + 1, kind, "non-negative" if sign == "nonneg" else "negative", setter),
                       ok, g.site(body[0]) if body else g.site(blk), "point at %s ; stored %s" % (pos.show() if isinstance(pos, Rat) else pos, final.show()), key="book/%s/%d/%s" % (end, bi + 1, sign))
        # cache reset after the store
        resets = [n for n in ast.walk(blk) if isinstance(n, ast.Expr) and T(mod, n.value) == K("contour._reset_cached()")]
        rep.ob("R4", "%s: cached distances/fine contour are reset after the index is stored" % end, bool(resets) and stored is not None and min(r.lineno for r in resets) > stored.lineno, g.site(blk), "", key="book/%s/reset" % end)


def _odd_crossing_defs(mod, f):
    """number of `<face>_outside` definitions of the form: False when there is no crossing, else
    (number of crossings is odd) - written as a conditional expression or as if/else"""
    n = 0
    odd = K("intersects.shape[0] % 2 == 1")
    for x in ast.walk(f.node):
        if isinstance(x, ast.Assign) and isinstance(x.value, ast.IfExp) and mod.code(x.value) == K("False if intersects is None else intersects.shape[0] % 2 == 1"):
            n += 1
        if isinstance(x, ast.If) and mod.code(x.test) == K("intersects is None") and len(x.body) == 1 and len(x.orelse) == 1 \
                and isinstance(x.body[0], ast.Assign) and isinstance(x.orelse[0], ast.Assign) and mod.code(x.body[0].targets[0]) == mod.code(x.orelse[0].targets[0]) \
                and mod.code(x.body[0].value) == "False" and mod.code(x.orelse[0].value) == odd:
            n += 1
    return n


def r5(prog, rep):
    f = prog.func(MESH, "MeshRegion.calcPenaltyMask")
    mod = f.module
    src = T(mod, f.node)
    facts = {
        "mask starts at 0 for every cell": K("self.penalty_mask=numpy.zeros((self.nx,self.ny))") in src,
        "the two y-faces of cell (i,j) are ylow[i,j] and ylow[i,j+1]": K("p1=Point2D(self.Rxy.ylow[i,j],self.Zxy.ylow[i,j])") in src and K("p2=Point2D(self.Rxy.ylow[i,j+1],self.Zxy.ylow[i,j+1])") in src,
        "a face is outside iff the segment from the interior reference point crosses the closed wall an odd number of times": _odd_crossing_defs(mod, f) == 2
        and K("find_intersections(equilibrium.closed_wallarray,p0,p1)") in src and K("find_intersections(equilibrium.closed_wallarray,p0,p2)") in src,
        "both faces outside => 1": K("ifp1_outsideandp2_outside:self.penalty_mask[i,j]=1.0") in src,
        "exactly one outside => distance(outside face, wall crossing)/distance(p1,p2)": K("elifp1_outsideorp2_outside:") in src and K("self.penalty_mask[i,j]=calc_distance(p1ifp1_outsideelsep2,pi)/calc_distance(p1,p2)") in src
        and K("intersects=find_intersections(equilibrium.closed_wallarray,p1,p2)") in src and K("pi=Point2D(intersects[0,0],intersects[0,1])") in src,
        "the reference point is the centre of the equilibrium's bounding box": K("p0=Point2D((equilibrium.Rmax+equilibrium.Rmin)/2,(equilibrium.Zmax+equilibrium.Zmin)/2,)") in src,
        "every cell is visited": K("foriinrange(self.nx):forjinrange(self.ny):") in src,
    }
    for k, ok in facts.items():
        rep.ob("R5", "penalty mask: " + k, ok, f.site(), "", key="mask/" + k)
    geo = prog.func(MESH, "BoutMesh.geometry")
    from ..stores import effects
    ok = any(e.kind == "store" and T(mod, e.target) == K("self.penalty_mask[self.region_indices[region.myID]]") and T(mod, e.value) == K("region.penalty_mask")
             and any(str(c).replace(" ", "") == K("<loop: region in self.regions.values()>").replace(" ", "") or "regioninself.regions.values()" in str(c).replace(" ", "") for c in e.conds)
             for e in effects(geo.node, keep=("region",)))
    rep.ob("R5", "region masks are assembled with the region index map", ok, geo.site(), "", key="mask/assemble")
