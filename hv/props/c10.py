"""C10 poloidal spacing functions: end-point, end-gradient and resolution identities (E3),
guard coverage (must-flow), end points kept by regridding, option lookup.

R1 s(0)==0 and s(N)==L for every constructor arm (exactly, or modulo the arm's root-finder
   constraint); extrapolation pieces join continuously.
R2 end gradients per unit normalised index: monotonic d_lower/d_upper; sqrt: singular
   coefficient a_* and regular part b_*; extrapolation pieces match the gradient.
R3 invariance under (i,N,N_norm)->(2i,2N,2N_norm); N_norm is N_norm_prefactor*ny_total at
   every call site.
R4 combined functions are affine combinations with weights summing to one; the weights
   take the values 1/0 at the ends.
R5 every path returning a spacing function passes the monotonicity guard.
R6 regridding keeps the region's end points.
R7 target-parameter lookup reaches existing options.
Not decided: interior monotonicity for all parameters (run-time guard); ordering of points.
"""
import ast
import re

from ..alg import AlgError, Context, Rat
from ..extract import Extractor, Closure, Opaque, PathRaises, ReturnValue, _dotted
from ..spacing import SpacingEx, Piecewise, PiecewiseMixin, constraint_value
from ..flow import MustFlow
from ..model import Program, walk_own, is_self_attr
from ..model import canon as K
from ..options import Schemas
from ..report import AnalysisError

EQ = "hypnotoad/core/equilibrium.py"
CLS = "EquilibriumRegion"


def sqrt_arms():
    arms = [("sqrt/uniform", dict(b_lower=False, a_lower=False, b_upper=False, a_upper=False))]
    for au in (False, True):
        arms.append(("sqrt/upper-only%s" % ("+a" if au else ""), dict(b_lower=False, a_lower=False, b_upper=True, a_upper=au)))
    for al in (False, True):
        arms.append(("sqrt/lower-only%s" % ("+a" if al else ""), dict(b_lower=True, a_lower=al, b_upper=False, a_upper=False)))
    for al in (False, True):
        for au in (False, True):
            arms.append(("sqrt/both%s%s" % ("+al" if al else "", "+au" if au else ""), dict(b_lower=True, a_lower=al, b_upper=True, a_upper=au)))
    return arms


def build_sqrt(prog, spec, scale=1, ctx=None):
    ctx = ctx or Context()
    seeds = {}
    if spec["a_lower"]:
        seeds["a == 0.0"] = False
        seeds["a_lower == 0.0"] = False
    if spec["a_upper"]:
        seeds["b == 0.0"] = False
        seeds["a_upper == 0.0"] = False
    ex = SpacingEx(prog, ctx, CLS, seeds)
    L, N, Nn = ctx.sym("L"), ctx.sym("N") * scale, ctx.sym("N_norm") * scale
    kw = {k: (ctx.sym(k) if v else None) for k, v in spec.items()}
    f = ex.call_method("getSqrtPoloidalDistanceFunc", [L, N, Nn], kw)
    return ctx, ex, f, dict(L=L, N=N, N_norm=Nn, **kw)


def build_mono(prog, concave, scale=1, ctx=None):
    ctx = ctx or Context()
    ex = SpacingEx(prog, ctx, CLS, {"1.0e-8 * length": concave})
    L, N, Nn = ctx.sym("L"), ctx.sym("N") * scale, ctx.sym("N_norm") * scale
    f = ex.call_method("getMonotonicPoloidalDistanceFunc", [L, N, Nn], {"d_lower": ctx.sym("d_lower"), "d_upper": ctx.sym("d_upper")})
    return ctx, ex, f, dict(L=L, N=N, N_norm=Nn, d_lower=ctx.sym("d_lower"), d_upper=ctx.sym("d_upper"))


def build_linear(prog, scale=1, ctx=None):
    ctx = ctx or Context()
    ex = SpacingEx(prog, ctx, CLS, {})
    L, N = ctx.sym("L"), ctx.sym("N") * scale
    f = ex.call_method("getLinearPoloidalDistanceFunc", [L, N], {})
    return ctx, ex, f, dict(L=L, N=N, N_norm=ctx.sym("N_norm") * scale)


def value(ex, f, i):
    v = ex.call_closure(f, [i], {})
    if isinstance(v, Piecewise):
        return v.pieces["inside"], v
    return v, None


def run(rep, tier):
    prog = Program()
    rep.analysed_add("files", [EQ])
    rep.rule("R1", "s(0)==0, s(N)==L; extrapolation pieces continuous at the joins")
    rep.rule("R2", "end gradients in units of the normalised index")
    rep.rule("R3", "resolution invariance; N_norm == N_norm_prefactor*ny_total at call sites")
    rep.rule("R4", "combined spacing: affine combination, weights sum to one, 1/0 at the ends")
    rep.rule("R5", "every returned spacing function passed the monotonicity guard")
    rep.rule("R6", "regridding keeps end points")
    rep.rule("R7", "target parameter option names exist")
    rep.trust("numpy.piecewise(i,[i<0,i>N],[f0,f1,f]) selects f0 below 0, f1 above N, f otherwise")
    builders = []
    for label, spec in sqrt_arms():
        builders.append((label, (lambda s=spec: (lambda scale=1, ctx=None: build_sqrt(prog, s, scale, ctx)))(), "sqrt", spec))
    builders.append(("monotonic/convex", lambda scale=1, ctx=None: build_mono(prog, False, scale, ctx), "mono", None))
    builders.append(("monotonic/concave", lambda scale=1, ctx=None: build_mono(prog, True, scale, ctx), "mono", None))
    builders.append(("linear", lambda scale=1, ctx=None: build_linear(prog, scale, ctx), "lin", None))
    site = EQ
    narms = 0
    for label, build, kind, spec in builders:
        try:
            ctx, ex, f, sy = build()
            i = ctx.sym("i")
            inside, pw = value(ex, f, i)
        except (AlgError, PathRaises) as e:
            rep.error("R1", "%s: constructor arm not representable: %s" % (label, e), site)
            continue
        narms += 1
        L, N, Nn = sy["L"], sy["N"], sy["N_norm"]
        cons = constraint_value(ex)
        s0 = inside.subs({"i": 0})
        sN = inside.subs({"i": N})
        for nm, val, tgt in (("s(0) == 0", s0, ctx.const(0)), ("s(N) == L", sN, L)):
            e = val - tgt
            how = "exact" if e.is_zero() else None
            if how is None and cons is not None:
                if (e - cons).is_zero() or (e + cons).is_zero():
                    how = "== +-constraint(root): zero to the root finder's tolerance"
            rep.ob("R1", "%s: %s" % (label, nm), how is not None, site, how or "residual " + e.residual()[:200], key="%s/%s" % (label, nm.split(" ")[0]))
        if pw is not None:
            for piece, at, atl in (("below", 0, "0"), ("above", N, "N")):
                if piece in pw.pieces:
                    d = pw.pieces[piece].subs({"i": at}) - inside.subs({"i": at})
                    okc = d.is_zero() or (cons is not None and ((d - cons).is_zero() or (d + cons).is_zero()))
                    rep.ob("R1", "%s: extrapolation %s i=%s joins the interior continuously" % (label, piece, atl), okc, site,
                           "residual " + d.residual()[:160], key="%s/join-%s" % (label, piece))
            if pw.top is not None:
                rep.ob("R1", "%s: upper break point of the piecewise function is N" % label, (pw.top - N).is_zero(), site, pw.top.show(), key=label + "/top")
        # R2 gradients
        try:
            gradients(rep, label, kind, spec, ctx, inside, pw, sy, site)
        except AlgError as e:
            rep.ob("R2", "%s: end-gradient clause" % label, False, site, "not representable: %s" % e, key=label + "/gradients")
        # R3 scaling
        try:
            ctx2 = Context()
            _, ex1, f1, sy1 = build(1, ctx2)
            _, ex2, f2, sy2 = build(2, ctx2)
            i2 = ctx2.sym("i")
            v1, _ = value(ex1, f1, i2)
            v2, _ = value(ex2, f2, 2 * i2)
            if ex2.roots:
                sub = {ex2.roots[0][0].as_atom(): ex1.roots[0][0]}
                c1 = ex1.roots[0][2]
                c2 = ex2.roots[0][2].subs(sub)
                okc = (c1 - c2).is_zero()
                v2 = v2.subs(sub)
            else:
                okc = True
            d = v2 - v1
            rep.ob("R3", "%s: s[2N, 2N_norm](2i) == s[N, N_norm](i)%s" % (label, " with the root constraint invariant" if ex2.roots else ""),
                   okc and d.is_zero(), site, "residual " + d.residual()[:160], key=label + "/scale")
        except AlgError as e:
            rep.ob("R3", "%s: s[2N, 2N_norm](2i) == s[N, N_norm](i)" % label, False, site, "not representable: %s" % e, key=label + "/scale")
    rep.floor("R1.arms", narms, 12)
    r3_callsites(prog, rep)
    r4(prog, rep)
    r5(prog, rep)
    r6(prog, rep)
    r7(prog, rep)
    # the two ends of a contour are handled by duplicated blocks: each sided name from its own side
    from .. import sides
    rep.rule("R8", "lower/upper (start/end) side agreement in the contour and spacing code")
    n = sides.check(prog, rep, "R8", lambda f: f.module.rel == "hypnotoad/core/equilibrium.py", "contour and spacing code (core/equilibrium.py)")
    rep.floor("R8.sided-sites", n, 80)
    # "region end points are not moved by redistribution": the end point is remembered as a marker
    # into the point list; guard points added before regridding must shift it per point
    rep.rule("R9", "premise: start/end markers stay on the same points when guard points are added (C11.R4)")
    from ..report import Premise
    from . import c11
    c11.marker_shift_rules(prog, Premise(rep, "R9", "C11"))
    rep.undecided("interior monotonicity for all parameter values (run-time _checkMonotonic)")
    return __doc__


def gradients(rep, label, kind, spec, ctx, inside, pw, sy, site):
    L, N, Nn = sy["L"], sy["N"], sy["N_norm"]
    D = inside.diff("i") * Nn
    if kind == "mono":
        for nm, at, atl in (("d_lower", 0, "0"), ("d_upper", N, "N")):
            e = D.subs({"i": at}) - sy[nm]
            rep.ob("R2", "%s: ds/d(i/N_norm) at i=%s == %s" % (label, atl, nm), e.is_zero(), site, "residual " + e.residual()[:160], key="%s/grad-%s" % (label, atl))
        if pw is not None:
            for piece, nm in (("below", "d_lower"), ("above", "d_upper")):
                e = pw.pieces[piece].diff("i") * Nn - sy[nm]
                rep.ob("R2", "%s: extrapolation %s has gradient %s" % (label, piece, nm), e.is_zero(), site, "", key="%s/extrap-grad-%s" % (label, piece))
        return
    if kind == "lin":
        return
    # sqrt family
    S0 = ctx.call("sqrt", ctx.sym("i") / Nn)
    S1 = ctx.call("sqrt", (N - ctx.sym("i")) / Nn)
    for end, at, b, a, S in (("lower", 0, "b_lower", "a_lower", S0), ("upper", N, "b_upper", "a_upper", S1)):
        if sy.get(b) is None:
            continue
        av = sy.get(a)
        if av is None:
            e = D.subs({"i": at}) - sy[b]
            rep.ob("R2", "%s: regular gradient at the %s end == %s" % (label, end, b), e.is_zero(), site, "residual " + e.residual()[:160], key="%s/reg-%s" % (label, end))
        else:
            sing = (D * S).subs({"i": at}) - av
            rep.ob("R2", "%s: singular coefficient at the %s end == %s" % (label, end, a), sing.is_zero(), site, "residual " + sing.residual()[:160], key="%s/sing-%s" % (label, end))
            reg = (D - av / S).subs({"i": at}) - sy[b]
            rep.ob("R2", "%s: regular part of the gradient at the %s end == %s" % (label, end, b), reg.is_zero(), site, "residual " + reg.residual()[:160], key="%s/reg-%s" % (label, end))
    if pw is not None:
        for piece, at in (("below", 0), ("above", N)):
            if piece in pw.pieces:
                e = (pw.pieces[piece].diff("i") - inside.diff("i")).subs({"i": at})
                rep.ob("R2", "%s: extrapolation %s matches the interior gradient at the join" % (label, piece), e.is_zero(), site, "residual " + e.residual()[:160], key="%s/extrap-grad-%s" % (label, piece))
                # curvature continuity of the guard-cell extrapolation is what the source
                # comment promises but not what the property states: advisory only
                e2 = (pw.pieces[piece].diff("i").diff("i") - inside.diff("i").diff("i")).subs({"i": at})
                if not e2.is_zero():
                    rep.notes.append("advisory: %s: extrapolation %s does not match the interior curvature at the join (source comment says it does)" % (label, piece))


def r3_callsites(prog, rep):
    mod = prog.module(EQ)
    n = 0
    for f in mod.funcs.values():
        if f.cls != CLS:
            continue
        localdefs = {}
        for s in walk_own(f.node):
            if isinstance(s, ast.Assign) and isinstance(s.targets[0], ast.Name):
                localdefs[s.targets[0].id] = s.value
        for c in walk_own(f.node):
            if isinstance(c, ast.Call) and _dotted(c.func) in ("self.getSqrtPoloidalDistanceFunc", "self.getMonotonicPoloidalDistanceFunc"):
                if len(c.args) < 3:
                    rep.ob("R3", "N_norm passed positionally", False, f.site(c), "", key="callsite/%s/shape" % f.name)
                    continue
                a = c.args[2]
                if isinstance(a, ast.Name) and a.id in localdefs:
                    a = localdefs[a.id]
                ctx = Context()
                ex = Extractor(ctx, mod)
                ex.on_attr = lambda d, node, env: ctx.sym(d)
                try:
                    v = ex.expr(a, {})
                    ok = (v - ctx.sym("self.user_options.N_norm_prefactor") * ctx.sym("self.ny_total")).is_zero()
                    detail = v.show()
                except AlgError as e:
                    ok, detail = False, str(e)
                n += 1
                rep.ob("R3", "%s: N_norm argument == N_norm_prefactor*ny_total" % f.qualname, ok, f.site(c), detail, key="callsite/%s/%s" % (f.name, _dotted(c.func)))
    rep.floor("R3.callsites", n, 3)
    m = 0
    for f in mod.funcs.values():
        if f.cls != CLS:
            continue
        for s in walk_own(f.node):
            if isinstance(s, ast.Assign) and isinstance(s.targets[0], ast.Name) and s.targets[0].id == "N_norm":
                ctx = Context()
                ex = Extractor(ctx, mod)
                ex.on_attr = lambda d, node, env: ctx.sym(d)
                try:
                    v = ex.expr(s.value, {})
                    ok = (v - ctx.sym("self.user_options.N_norm_prefactor") * ctx.sym("self.ny_total")).is_zero()
                    detail = v.show()
                except AlgError as e:
                    ok, detail = False, str(e)
                m += 1
                rep.ob("R3", "%s: local N_norm == N_norm_prefactor*ny_total" % f.qualname, ok, f.site(s), detail, key="nnorm-local/%s" % f.name)
    rep.floor("R3.nnorm-locals", m, 2)
    length_arguments(prog, rep)


def length_arguments(prog, rep):
    """s(N) == L puts the last index on the end of the contour only if L is the contour's length
    between its start and end markers: at every call of a spacing-function constructor the length
    argument is distance[endInd] - distance[startInd] of the contour being gridded (directly,
    through totalDistance(), or a parameter that is forwarded), and totalDistance is that
    difference."""
    from ..model import inline_temporaries
    n = 0
    length_pos = {"getSfuncFixedSpacing": 1, "getSqrtPoloidalDistanceFunc": 0, "getMonotonicPoloidalDistanceFunc": 0, "getLinearPoloidalDistanceFunc": 0}
    for rel in (EQ, "hypnotoad/core/mesh.py"):
        mod = prog.module(rel)
        for f in mod.funcs.values():
            params = {a.arg for a in f.node.args.args + f.node.args.kwonlyargs}
            if f.parent is not None:
                params |= {a.arg for a in f.parent.node.args.args + f.parent.node.args.kwonlyargs}
            for c in walk_own(f.node):
                if not (isinstance(c, ast.Call) and isinstance(c.func, ast.Attribute) and c.func.attr in length_pos):
                    continue
                k = length_pos[c.func.attr]
                if len(c.args) <= k:
                    continue
                a = c.args[k]
                n += 1
                unpacked_from = None
                if isinstance(a, ast.Name):
                    for st in walk_own(f.node):
                        if isinstance(st, ast.Assign) and isinstance(st.targets[0], ast.Tuple) and isinstance(st.value, ast.Call) and isinstance(st.value.func, ast.Attribute) \
                                and len(st.targets[0].elts) == 2 and isinstance(st.targets[0].elts[1], ast.Name) and st.targets[0].elts[1].id == a.id:
                            unpacked_from = st.value.func.attr
                if isinstance(a, ast.Name) and a.id in params:
                    ok, detail = True, "parameter `%s` forwarded" % a.id
                elif unpacked_from == "interpSSperp":
                    # the fixed-perpendicular-spacing variant distributes points in the distance
                    # perpendicular to a direction vector: its length is the total perpendicular
                    # distance that interpSSperp returns next to the s(s_perp) map (documented there)
                    ok, detail = True, "total perpendicular distance returned by interpSSperp"
                else:
                    t = mod.code(inline_temporaries(f.node, a, inline_calls=True))
                    m = re.fullmatch(r"(\w[\w.]*)\.get_distance\((?:psi=[\w.]+)?\)\[(\w[\w.]*)\.endInd\]-(\w[\w.]*)\.get_distance\((?:psi=[\w.]+)?\)\[(\w[\w.]*)\.startInd\]", t)
                    m2 = re.fullmatch(r"(\w[\w.]*)\.totalDistance\((?:psi=[\w.]+)?\)", t)
                    if m:
                        ok = len(set(m.groups())) == 1
                        detail = "" if ok else "distance, endInd and startInd are taken from different contours: %s" % t
                    elif m2:
                        ok, detail = True, "totalDistance of %s" % m2.group(1)
                    elif re.search(r"get_distance\([^)]*\)\[", t):
                        ok, detail = False, "length is %s, not distance[endInd] - distance[startInd]" % t
                    else:
                        ok, detail = False, "unmodelled length argument %s" % t[:80]
                rep.ob("R3", "%s: the length given to %s is the contour's distance from startInd to endInd" % (f.qualname, c.func.attr), ok, f.site(c), detail,
                       key="length/%s/%s/%d" % (f.qualname, c.func.attr, sum(1 for x in walk_own(f.node) if isinstance(x, ast.Call) and isinstance(x.func, ast.Attribute) and x.func.attr == c.func.attr and x.lineno < c.lineno)))
    rep.floor("R3.length-arguments", n, 9)
    eqm = prog.module(EQ)
    for qn in ("PsiContour.totalDistance", "FineContour.totalDistance"):
        f = eqm.funcs.get(qn)
        if f is None:
            raise AnalysisError("%s not found" % qn)
        rets = [r for r in walk_own(f.node) if isinstance(r, ast.Return)]
        t = eqm.code(inline_temporaries(f.node, rets[0].value, inline_calls=True)) if len(rets) == 1 else ""
        ok = t in (K("self.distance[self.endInd] - self.distance[self.startInd]"), K("self.get_distance(psi=psi)[self.endInd] - self.get_distance(psi=psi)[self.startInd]"))
        rep.ob("R3", "%s is distance[endInd] - distance[startInd]" % qn, ok, f.site(), t, key="length/def/" + qn)


def r4(prog, rep):
    mod = prog.module(EQ)
    f = mod.funcs.get(CLS + ".combineSfuncs")
    if f is None:
        raise AnalysisError("combineSfuncs not found")
    rep.analysed_add("functions", [f.site()])
    n = 0
    for g in [x for x in ast.walk(f.node) if isinstance(x, ast.FunctionDef) and x is not f.node]:
        ctx = Context()
        ex = WeightEx(ctx, mod)
        env = {"i": ctx.sym("i"), "index_length": ctx.sym("index_length"), "N_norm": ctx.sym("N_norm"),
               "this_range_lower": ctx.sym("range_lower"), "this_range_upper": ctx.sym("range_upper")}
        ret = None
        masked = False
        for s in g.body:
            if isinstance(s, ast.AugAssign) and isinstance(s.target, ast.Subscript):
                masked = True  # renormalisation where the weights exceed one: scales both weights
                continue
            if isinstance(s, ast.Assign) and isinstance(s.targets[0], ast.Name) and s.targets[0].id in ("weight", "weight_over_slice"):
                continue
            try:
                ex.stmt(s, env)
            except ReturnValue as r:
                ret = r.value
        n += 1
        label = "new_sfunc@%d" % g.lineno
        if isinstance(ret, Piecewise):
            keys = list(ret.pieces)
        else:
            keys = ["inside"]
            ret = Piecewise({"inside": ret})
        X = ctx.sym("X")
        names = {"sfixed_lower": "sfunc_fixed_lower(i)", "sfixed_upper": "sfunc_fixed_upper(i)", "sorth": "sfunc_orthogonal(i)"}
        ok = True
        detail = ""
        for k in keys:
            v = ret.pieces[k]
            if not isinstance(v, Rat):
                ok = False
                detail = "piece %s not extractable: %r" % (k, v)
                break
            w = v.subs({ctx.sym(a).as_atom(): X for a in names.values()})
            if not (w - X).is_zero():
                ok = False
                detail = "piece %s: with all component functions equal to X the result is %s" % (k, w.reduced().show(120))
        rep.ob("R4", "%s: weights of the combined spacing function sum to one (affine combination)%s" % (label, " [masked renormalisation scales both weights]" if masked else ""),
               ok, f.site(g), detail, key="combine/%d/affine" % n)
        # end values of the weights
        wl, wu = env.get("weight_lower"), env.get("weight_upper")
        Lx = ctx.sym("index_length")
        if isinstance(wl, Piecewise):
            e = wl.pieces["inside"].subs({"i": 0}) - 1
            rep.ob("R4", "%s: weight_lower == 1 at i=0 and for i<0, 0 above" % label,
                   e.is_zero() and (wl.pieces.get("below", ctx.const(1)) - 1).is_zero() and wl.pieces.get("above", ctx.const(0)).is_zero(), f.site(g), "", key="combine/%d/wl" % n)
        if isinstance(wu, Piecewise):
            e = wu.pieces["inside"].subs({"i": Lx}) - 1
            rep.ob("R4", "%s: weight_upper == 1 at i=index_length and above, 0 below" % label,
                   e.is_zero() and (wu.pieces.get("above", ctx.const(1)) - 1).is_zero() and wu.pieces.get("below", ctx.const(0)).is_zero(), f.site(g), "", key="combine/%d/wu" % n)
        if isinstance(wl, Piecewise) and isinstance(wu, Piecewise) and not masked:
            e = wl.pieces["inside"] + wu.pieces["inside"] - 1
            rep.ob("R4", "%s: weight_lower + weight_upper == 1 inside" % label, e.is_zero(), f.site(g), "residual " + e.residual()[:100], key="combine/%d/sum" % n)
    rep.floor("R4.combined-functions", n, 5)
    # index_length is the last index of the regridded contour
    ok = False
    for s in walk_own(f.node):
        if isinstance(s, ast.Assign) and isinstance(s.targets[0], ast.Name) and s.targets[0].id == "index_length":
            ctx = Context()
            ex = Extractor(ctx, mod)
            ex.on_attr = lambda d, node, env: ctx.sym(d)
            v = ex.expr(s.value, {})
            ok = (v - 2 * ctx.sym("self.ny_noguards")).is_zero()
    rep.ob("R4", "index_length == 2*ny_noguards (last index of the 2*ny+1 points)", ok, f.site(), "", key="combine/index_length")


class WeightEx(PiecewiseMixin, Extractor):
    """plain Extractor with piecewise support"""

    def on_call(self, node, fname, args, kwargs, env):
        if fname in ("sfunc_fixed_lower", "sfunc_fixed_upper", "sfunc_orthogonal"):
            return self.ctx.sym("%s(i)" % fname)
        raise AlgError("call %s" % fname)


def r5(prog, rep):
    """must-flow: a returned name was checked (or produced by a constructor that checks)"""
    mod = prog.module(EQ)
    checked_producers = ("self.getSfuncFixedSpacing", "self.combineSfuncs")
    total = 0
    for name in ("getSfuncFixedSpacing", "combineSfuncs"):
        f = mod.funcs.get(CLS + "." + name)
        if f is None:
            raise AnalysisError("%s not found" % name)
        rets = []

        def transfer(s, facts):
            if isinstance(s, ast.Assign) and len(s.targets) == 1 and isinstance(s.targets[0], ast.Name):
                t = s.targets[0].id
                facts = facts - {t}
                if isinstance(s.value, ast.Call) and _dotted(s.value.func) in checked_producers:
                    facts = facts | {t}
                elif isinstance(s.value, ast.Name) and s.value.id in facts:
                    facts = facts | {t}
                return facts
            if isinstance(s, ast.FunctionDef):
                return facts - {s.name}
            if isinstance(s, ast.Expr) and isinstance(s.value, ast.Call) and _dotted(s.value.func) == "self._checkMonotonic":
                a = s.value.args[0] if s.value.args else None
                if isinstance(a, ast.List) and a.elts and isinstance(a.elts[0], ast.Tuple) and isinstance(a.elts[0].elts[0], ast.Name):
                    return facts | {a.elts[0].elts[0].id}
            return facts

        def on_return(node, facts):
            if node is None:
                return
            v = node.value
            if isinstance(v, ast.Call) and _dotted(v.func) in checked_producers:
                rets.append((node, True, "returns the result of a checking constructor"))
            elif isinstance(v, ast.Name):
                rets.append((node, v.id in facts, "returned name %s; checked names on this path: %s" % (v.id, sorted(facts))))
            else:
                rets.append((node, False, "return expression not understood"))

        MustFlow(transfer, on_return).run(f.node)
        for k, (node, ok, detail) in enumerate(rets):
            total += 1
            rep.ob("R5", "%s: return at line %d yields a guard-checked spacing function" % (name, node.lineno), ok, f.site(node), detail, key="guard/%s/%d" % (name, k))
    rep.floor("R5.returns", total, 4)
    # the guard itself: raises when any consecutive difference is negative, over the used index range
    g = mod.funcs.get(CLS + "._checkMonotonic")
    if g is None:
        raise AnalysisError("_checkMonotonic not found")
    src = " ".join(mod.text(g.node).split())
    rng = "numpy.arange( -self.extend_lower, 2 * self.ny_noguards + self.extend_upper + 1, dtype=float, )" in src or "numpy.arange(-self.extend_lower, 2 * self.ny_noguards + self.extend_upper + 1, dtype=float)" in src
    # every raise of the guard stands under exactly "some consecutive value decreases"
    # (guard clause or nested if, the comparison possibly held in a temporary)
    from ..stores import effects
    raises = [e for e in effects(g.node) if e.kind == "raise"]
    cond = bool(raises) and all([mod.code(c) for c in e.conds if not isinstance(c, str)] == [K("numpy.any(scheck[1:] < scheck[:-1])")] for e in raises)
    rep.ob("R5", "guard evaluates the function on every used index (-extend_lower .. 2*ny+extend_upper) and raises on any decrease", rng and cond, g.site(), "", key="guard/def")


def r6(prog, rep):
    mod = prog.module(EQ)
    f = mod.funcs.get("PsiContour.getRegridded")
    if f is None:
        raise AnalysisError("PsiContour.getRegridded not found")
    src = [" ".join(mod.text(s).split()) for s in f.node.body]
    want = {
        "startInd": "new_contour.startInd = self.extend_lower",
        "endInd": "new_contour.endInd = len(new_contour) - 1 - self.extend_upper",
        "keep-start": "new_contour.replace(new_contour.startInd, self[self.startInd])",
        "keep-end": "new_contour.replace(new_contour.endInd, self[self.endInd])",
    }
    pos = {}
    for k, w in want.items():
        pos[k] = src.index(w) if w in src else -1
        rep.ob("R6", "regridded contour: %s" % w, pos[k] >= 0, f.site(), "", key="regrid/" + k)
    # order: indices set before the replacements; refine afterwards skips the end points
    ok = 0 <= pos["startInd"] < pos["keep-start"] and 0 <= pos["endInd"] < pos["keep-end"]
    rep.ob("R6", "start/end indices are set before the original end points are put back", ok, f.site(), str(pos), key="regrid/order")
    refine = [n for n in ast.walk(f.node) if isinstance(n, ast.Call) and _dotted(n.func) == "new_contour.refine"]
    ok = len(refine) == 1 and any(k.arg == "skip_endpoints" and isinstance(k.value, ast.Constant) and k.value.value is True for k in refine[0].keywords)
    rep.ob("R6", "refinement after regridding skips the end points", ok, f.site(), "", key="regrid/skip-endpoints")
    later = [n for n in ast.walk(f.node) if isinstance(n, ast.Call) and _dotted(n.func) in ("new_contour.replace", "new_contour.insert", "new_contour.prepend", "new_contour.append")]
    rep.ob("R6", "no other point edits of the new contour", len(later) == 2, f.site(), "%d edits" % len(later), key="regrid/edits")


def _target_leg_names(mod, g):
    """the leg names getTargetParameter puts between prefix and suffix, over all outcomes of its
    membership tests on the region's name (`"inner" in self.name`, ...): the function is replayed
    on every truth assignment; string-valued locals are followed; the name handed to getattr is
    read as prefix + <leg> + suffix"""
    import itertools
    from ..stores import effects
    effs = effects(g.node, inline=False)
    tests = sorted({mod.code(c) for e in effs for c in e.conds if not isinstance(c, str) and isinstance(c, ast.Compare) and isinstance(c.ops[0], (ast.In, ast.NotIn))
                    and isinstance(c.left, ast.Constant)} | set())
    base = sorted({mod.code(ast.Compare(left=c.left, ops=[ast.In()], comparators=c.comparators)) for e in effs for c in e.conds
                   if not isinstance(c, str) and isinstance(c, ast.Compare) and isinstance(c.ops[0], (ast.In, ast.NotIn)) and isinstance(c.left, ast.Constant) and mod.code(c.comparators[0]) == "self.name"})
    out = set()

    def pieces(n, env):
        if isinstance(n, ast.Constant) and isinstance(n.value, str):
            return [n.value]
        if isinstance(n, ast.Name):
            return list(env.get(n.id, ["<%s>" % n.id]))
        if isinstance(n, ast.BinOp) and isinstance(n.op, ast.Add):
            return pieces(n.left, env) + pieces(n.right, env)
        raise ValueError(mod.code(n))

    for values in itertools.product((True, False), repeat=len(base)):
        truth = dict(zip(base, values))

        def holds(c):
            if isinstance(c, str):
                return True
            if isinstance(c, ast.Compare) and isinstance(c.ops[0], (ast.In, ast.NotIn)) and isinstance(c.left, ast.Constant):
                k = mod.code(ast.Compare(left=c.left, ops=[ast.In()], comparators=c.comparators))
                if k in truth:
                    return truth[k] == isinstance(c.ops[0], ast.In)
            return True  # conditions on something else (which options object) do not matter here

        env = {}
        for e in effs:
            if not all(holds(c) for c in e.conds):
                continue
            try:
                if e.kind == "store" and isinstance(e.target, ast.Name):
                    env[e.target.id] = pieces(e.value, env)
                elif e.kind == "raise":
                    break
                elif e.kind == "return" and isinstance(e.value, ast.Call) and _dotted(e.value.func) == "getattr" and len(e.value.args) == 2:
                    ps = pieces(e.value.args[1], env)
                    mid = [x for x in ps if not x.startswith("<")]
                    out.add("".join(mid))
                    break
            except ValueError:
                continue
    return {x for x in out if x}


def r7(prog, rep):
    sch = Schemas(prog)
    mod = prog.module(EQ)
    g = mod.funcs.get(CLS + ".getTargetParameter")
    gs = mod.funcs.get(CLS + ".getSpacings")
    if g is None or gs is None:
        raise AnalysisError("getTargetParameter/getSpacings not found")
    # names appended by the lookup
    legs = sorted(_target_leg_names(mod, g))
    rep.floor("R7.legs", len(legs), 4)
    user = set(sch.keys("TokamakEquilibrium.user_options_factory"))
    nonorth = set(sch.keys("TokamakEquilibrium.nonorthogonal_options_factory"))
    n = 0
    for c in ast.walk(gs.node):
        if isinstance(c, ast.Call) and _dotted(c.func) == "self.getTargetParameter" and c.args and isinstance(c.args[0], ast.Constant):
            sp = c.args[0].value
            parts = sp.split("target")
            prefix, suffix = parts[0] + "target_", parts[1]
            table = nonorth if "nonorthogonal" in prefix else user
            for leg in legs:
                n += 1
                nm = prefix + leg + suffix
                rep.ob("R7", "option %s exists (lookup %r for a %s leg)" % (nm, sp, leg), nm in table, gs.site(c), "", key="opt/" + nm)
    rep.floor("R7.lookups", n, 16)
    # direct attribute reads of X-point spacing options
    for node in ast.walk(gs.node):
        if isinstance(node, ast.Attribute) and isinstance(node.value, ast.Attribute) and is_self_attr(node.value) and node.value.attr in ("user_options", "nonorthogonal_options"):
            table = user if node.value.attr == "user_options" else nonorth
            rep.ob("R7", "option %s exists" % node.attr, node.attr in table, gs.site(node), "", key="opt/" + node.attr)
