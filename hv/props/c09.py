"""C09 radial psi grid: spacing-function identities (E3), 1-D grid assembly, dx stencil.

R1 end values of every arm of the smooth monotonic grid function: f(0)==lower, f(n)==upper
   exactly, or up to the arm's own root-finder constraint (reported as such).
R2 where a gradient is imposed: f'(end)==grad and f''(end)==0.
R3 at the switching equality the polynomial/trigonometric arm's free coefficient vanishes.
R4 1-D grid: faces on even entries, midpoints on odd ones; NaN-safe monotonicity guard
   dominating the return; dx is face-to-face of the same cell.
R5 segment tables share boundary values and separatrix gradients (see C08 tables, E5).
R6 nesting: f_{2n, grad/2}(2i) == f_{n, grad}(i) for every arm (with the constraint
   invariant under the same scaling).
Not decided: strict monotonicity between the ends for all parameters; root-finder convergence.
"""
import ast

from ..alg import AlgError, Context, Rat
from ..extract import Extractor, Closure, Opaque, PathRaises, ReturnValue, _dotted
from ..spacing import SpacingEx, constraint_value
from ..model import Program, walk_own, is_self_attr, canon
from ..model import canon as K
from ..report import AnalysisError
from .. import slices

EQ = "hypnotoad/core/equilibrium.py"
MESH = "hypnotoad/core/mesh.py"
POLY_TEST = "1.0e-8"

ARMS = [
    # label, grad_lower given, grad_upper given, seed for the |grad*n| < |upper-lower| test
    ("linear", False, False, None),
    ("lower/cubic", True, False, True),
    ("lower/erf", True, False, False),
    ("upper/cubic", False, True, True),
    ("upper/erf", False, True, False),
    ("both/trig", True, True, True),
    ("both/squash", True, True, False),
]


def grid_func(prog):
    fs = [f for f in prog.module(EQ).funcs.values() if f.name == "getSmoothMonotonicGridFunc"]
    if len(fs) != 1:
        raise AnalysisError("getSmoothMonotonicGridFunc not found")
    return fs[0]


def build_arm(prog, arm, scale=None):
    """returns (ctx, ex, closure, symbols dict)"""
    label, gl_on, gu_on, seed = arm
    ctx = Context()
    seeds = {}
    if seed is not None:
        seeds[POLY_TEST] = seed
    ex = SpacingEx(prog, ctx, "Equilibrium", seeds)
    n, lo, up = ctx.sym("n"), ctx.sym("lower"), ctx.sym("upper")
    gl = ctx.sym("grad_lower") if gl_on else None
    gu = ctx.sym("grad_upper") if gu_on else None
    if scale:
        n = n * scale
        gl = gl / scale if gl is not None else None
        gu = gu / scale if gu is not None else None
    f = ex.call_method("getSmoothMonotonicGridFunc", [n, lo, up], {"grad_lower": gl, "grad_upper": gu})
    if not isinstance(f, Closure):
        raise AlgError("constructor did not return a function on arm %s" % label)
    return ctx, ex, f, {"n": n, "lower": lo, "upper": up, "grad_lower": gl, "grad_upper": gu}


def run(rep, tier):
    prog = Program()
    gf = grid_func(prog)
    rep.analysed_add("files", [EQ, MESH])
    rep.analysed_add("functions", [gf.site()])
    rep.rule("R1", "f(0)==lower and f(n)==upper, exactly or modulo the arm's root-finder constraint")
    rep.rule("R2", "imposed end gradient: f'==grad, f''==0 at that end")
    rep.rule("R3", "free coefficient of the polynomial/trigonometric arm vanishes at the switching equality")
    rep.rule("R4", "make1dGrid parity/midpoints/guard; dx face-to-face")
    rep.rule("R5", "segment tables: adjoining segments share boundary value and separatrix gradient; split segments share exactly one element")
    rep.rule("R6", "nesting under (i,n,grad)->(2i,2n,grad/2)")
    rep.trust("scipy.special.erf, sici (Si odd, Ci even for real arguments); brentq returns a root of its constraint to rtol")
    site = gf.site()
    # which arm is taken must not depend on the sign convention of psi (decreasing psi negates
    # lower, upper and the gradients): otherwise an arm is used outside the parameter range for
    # which it is monotonic (rule instances of C16.R4)
    rep.rule("R0", "premise: arm selection of the grid function compares magnitudes, each arm is odd under psi -> -psi (C16.R4)")
    from ..report import Premise
    from . import c16
    c16.r4(prog, Premise(rep, "R0", "C16"))
    n_arms = 0
    for arm in ARMS:
        label = arm[0]
        try:
            ctx, ex, f, sy = build_arm(prog, arm)
        except (AlgError, PathRaises) as e:
            rep.ob("R1", "%s: arm extractable" % label, False, site, str(e), key=label + "/extract")
            continue
        n_arms += 1
        i = ctx.sym("i")
        try:
            fi = ex.call_closure(f, [i], {})
        except AlgError as e:
            rep.error("R1", "%s: returned function not representable: %s" % (label, e), site)
            continue
        if not isinstance(fi, Rat):
            rep.ob("R1", "%s: function value extractable" % label, False, site, repr(fi), key=label + "/value")
            continue
        cons = constraint_value(ex)
        n, lo, up = sy["n"], sy["lower"], sy["upper"]
        f0 = fi.subs({"i": 0})
        fn = fi.subs({"i": n})
        for end, val, target in (("0", f0, lo), ("n", fn, up)):
            e = val - target
            how = None
            if e.is_zero():
                how = "exact"
            elif cons is not None and (e - cons).is_zero():
                how = "== +constraint(root) (zero to the root finder's tolerance)"
            elif cons is not None and (e + cons).is_zero():
                how = "== -constraint(root) (zero to the root finder's tolerance)"
            rep.ob("R1", "%s: f(%s) == %s" % (label, end, "lower" if end == "0" else "upper"), how is not None, site,
                   how or ("residual " + e.residual()[:200]), key="%s/f(%s)" % (label, end))
        # R2
        d1 = fi.diff("i")
        d2 = d1.diff("i")
        for gname, at, atl in (("grad_lower", 0, "0"), ("grad_upper", n, "n")):
            g = sy[gname]
            if g is None:
                continue
            try:
                e1 = d1.subs({"i": at}) - g
                e2 = d2.subs({"i": at})
                ok1, ok2 = e1.is_zero(), e2.is_zero()
                det1, det2 = "residual " + e1.residual()[:160], "residual " + e2.residual()[:160]
            except AlgError as e:
                # never a silent pass: filed as not decided
                rep.ob("R2", "%s: f'(%s) == %s" % (label, atl, gname), False, site, "not representable: %s" % e, key="%s/f'(%s)" % (label, atl))
                continue
            rep.ob("R2", "%s: f'(%s) == %s" % (label, atl, gname), ok1, site, det1, key="%s/f'(%s)" % (label, atl))
            rep.ob("R2", "%s: f''(%s) == 0" % (label, atl), ok2, site, det2, key="%s/f''(%s)" % (label, atl))
        # R6 nesting
        try:
            ctx2, ex2, f2, sy2 = build_arm(prog, arm, scale=2)
            i2 = ctx2.sym("i")
            f2v = ex2.call_closure(f2, [2 * i2], {})
            # express both in the same context: rebuild unscaled in ctx2
            ex1 = SpacingEx(prog, ctx2, "Equilibrium", ex.seeds)
            f1 = ex1.call_method("getSmoothMonotonicGridFunc", [ctx2.sym("n"), ctx2.sym("lower"), ctx2.sym("upper")],
                                 {"grad_lower": ctx2.sym("grad_lower") if arm[1] else None, "grad_upper": ctx2.sym("grad_upper") if arm[2] else None})
            f1v = ex1.call_closure(f1, [i2], {})
            ok = False
            detail = ""
            if not ex2.roots:
                d = f2v - f1v
                ok = d.is_zero()
                detail = "residual " + d.residual()[:160]
            else:
                r2, c2, _v2 = ex2.roots[0]
                r1, c1, _v1 = ex1.roots[0]
                for k in (1, 2, 4, 8, ctx2.const(1) / 2, ctx2.const(1) / 4, ctx2.const(1) / 8):
                    sub = {r2.as_atom(): r1 * k}
                    cons2 = _v2.subs(sub)
                    cons1 = _v1
                    if (cons2 - cons1).is_zero():
                        d = f2v.subs(sub) - f1v
                        ok = d.is_zero()
                        detail = "root scales by %s; constraint invariant; residual %s" % (k if not isinstance(k, Rat) else k.show(), d.residual()[:120])
                        break
                else:
                    detail = "no scaling of the root parameter leaves the constraint invariant"
            rep.ob("R6", "%s: f[2n, grad/2](2i) == f[n, grad](i)" % label, ok, site, detail, key=label + "/nesting")
        except AlgError as e:
            rep.ob("R6", "%s: f[2n, grad/2](2i) == f[n, grad](i)" % label, False, site, "not representable: %s" % e, key=label + "/nesting")
    rep.floor("R1.arms", n_arms, 7)
    r3(prog, rep, gf)
    r4(prog, rep)
    r5(prog, rep)
    rep.undecided("strict monotonicity between the ends for all parameters (only ends + run-time guard)")
    rep.undecided("decaying arms tend to the unperturbed profile at the switch (a limit)")
    return __doc__


class _AbsFree(Extractor):
    """evaluates one side of an arm-selection test with |u| read as u (positive orientation)"""

    def on_name(self, name, env):
        return self.ctx.sym(name)

    def on_call(self, node, fname, args, kwargs, env):
        if fname in ("numpy.abs", "np.abs", "abs"):
            return args[0]
        raise AlgError("call %s" % fname)


def switch_totals(gf, ctx):
    """for each arm-selection test `|X| < |upper - lower| * (1 + tol)` of the grid function: the
    quantity X (total change of the unperturbed profile) as written in the test, keyed by the
    set of gradient arguments it mentions"""
    out = {}
    mod = gf.module
    for nd in walk_own(gf.node):
        if isinstance(nd, ast.If) and isinstance(nd.test, ast.Compare) and len(nd.test.ops) == 1 and isinstance(nd.test.ops[0], (ast.Lt, ast.LtE)):
            names = {x.id for x in ast.walk(nd.test.left) if isinstance(x, ast.Name)} & {"grad_lower", "grad_upper"}
            rnames = {x.id for x in ast.walk(nd.test.comparators[0]) if isinstance(x, ast.Name)}
            if names and {"upper", "lower"} <= rnames:
                try:
                    v = _AbsFree(ctx, mod).expr(nd.test.left, {})
                    v = v.subs({a: a.args[0] for a in v.all_atoms() if a.fname == "abs"})
                    out[frozenset(names)] = (v, nd)
                except AlgError:
                    pass
    return out


def r3(prog, rep, gf):
    """at the equality of the arm-selection test (|X| == |upper-lower|) the free coefficient is 0:
    the arm reduces to the unperturbed profile, so the two arms join continuously there"""
    for arm, switch in ((ARMS[1], "lower"), (ARMS[3], "upper"), (ARMS[5], "both")):
        label = arm[0]
        ctx = Context()
        ex = SpacingEx(prog, ctx, "Equilibrium", {POLY_TEST: True})
        n, lo = ctx.sym("n"), ctx.sym("lower")
        gl = ctx.sym("grad_lower") if arm[1] else None
        gu = ctx.sym("grad_upper") if arm[2] else None
        totals = switch_totals(gf, ctx)
        key = frozenset(k for k, on in (("grad_lower", arm[1]), ("grad_upper", arm[2])) if on)
        if key not in totals:
            rep.ob("R3", "%s: arm-selection test found" % label, False, gf.site(), "no test of the form |X| < |upper-lower|*(1+tol) mentioning %s" % sorted(key), key=label + "/switch-test")
            continue
        up = lo + totals[key][0]
        f = ex.call_method("getSmoothMonotonicGridFunc", [n, lo, up], {"grad_lower": gl, "grad_upper": gu})
        i = ctx.sym("i")
        fi = ex.call_closure(f, [i], {})
        if switch == "both":
            expect = lo + (gl + gu) / 2 * i + (gl - gu) / 2 * n / ctx.sym("pi") * ctx.call("sin", ctx.sym("pi") * i / n)
        elif switch == "lower":
            expect = lo + gl * i
        else:
            expect = up + gu * (i - n)
        d = fi - expect
        rep.ob("R3", "%s: at the switching equality the arm reduces to the unperturbed profile" % label, d.is_zero(), gf.site(),
               "residual " + d.residual()[:160], key=label + "/switch")


def r4(prog, rep):
    mod = prog.module(EQ)
    f = mod.funcs.get("Equilibrium.make1dGrid")
    if f is None:
        raise AnalysisError("make1dGrid not found")
    rep.analysed_add("functions", [f.site()])
    facts = slices.grid1d_facts(mod, f)
    for k, (ok, detail, node) in facts.items():
        rep.ob("R4", "make1dGrid: " + k, ok, f.site(node) if node is not None else f.site(), detail, key="grid1d/" + k)
    # dx: face-to-face of the same cell
    mm = prog.module(MESH)
    g1 = prog.unique_func_assigning(["dx", "bpsign"], MESH)
    n = 0
    for s in walk_own(g1.node):
        if isinstance(s, ast.Assign) and isinstance(s.targets[0], ast.Attribute) and is_self_attr(s.targets[0].value, "dx"):
            loc = s.targets[0].attr
            n += 1
            from ..model import inline_temporaries
            ok, detail = slices.is_face_difference(mm, inline_temporaries(g1.node, s.value), "psi_vals")
            rep.ob("R4", "dx.%s == psi_vals at the cell's upper x-face minus lower x-face" % loc, ok, g1.site(s), detail, key="dx/" + loc)
    rep.floor("R4.dx", n, 2)


def segment_pairs(prog, rep, grad=True):
    """adjoining radial segments of every region: shared boundary psi (and, with grad, the same
    spacing gradient at the common separatrix).  Also used as a premise of C08."""
    from .. import tables
    from ..tables import Leaf, Sliced
    n_pairs = 0
    for t in tables.all_topologies(prog):
        if "start_at_upper_outer" in t.name:
            continue
        for rname, reg in t.regions.items():
            segs = reg["segments"]
            for k in range(len(segs) - 1):
                a, b = t.segments[segs[k]], t.segments[segs[k + 1]]
                key = "%s/%s/%s|%s" % (t.name, rname, segs[k], segs[k + 1])
                n_pairs += 1
                pa, pb = a.get("psi_vals"), b.get("psi_vals")
                # end specification of the lower segment / start specification of the upper one
                def end_spec(seg):
                    pv = seg.get("psi_vals")
                    if isinstance(pv, Sliced) and pv.lo is not None and pv.hi is None:
                        return pv.base.attrs["spec"]["psi_end"], pv.base.attrs["spec"].get("grad_end")  # tail slice keeps the end
                    if isinstance(pv, Sliced):
                        return None, None  # truncated: its end is the shared element (checked below)
                    return seg.get("psi_end"), seg.get("grad_end")
                if isinstance(pa, Sliced) and isinstance(pb, Sliced) and pa.base == pb.base:
                    # split of one gridded segment: [: -2k] and [-(2k+1):] share exactly one element
                    ok = pa.lo is None and pb.hi is None and isinstance(pa.hi, Rat) and isinstance(pb.lo, Rat) and (pb.lo - (pa.hi - 1)).is_zero()
                    nx2 = b.get("nx")
                    ok = ok and isinstance(nx2, Rat) and (pa.hi + 2 * nx2).is_zero()
                    rep.ob("R5", "%s, %s: split segments %s|%s share exactly one psi value and the tail holds 2*nx+1 values" % (t.name, rname, segs[k], segs[k + 1]), ok, tables.TOK,
                           "%r | %r" % (pa, pb), key=key + "/split")
                    continue
                pe, ge = end_spec(a)
                ps, gs = b.get("psi_start"), b.get("grad_start")
                ok = isinstance(pe, Rat) and isinstance(ps, Rat) and (pe - ps).is_zero()
                rep.ob("R5", "%s, %s: segments %s|%s share their boundary psi value" % (t.name, rname, segs[k], segs[k + 1]), ok, tables.TOK,
                       "%s vs %s" % (pe.show(60) if isinstance(pe, Rat) else pe, ps.show(60) if isinstance(ps, Rat) else ps), key=key + "/psi")
                if not grad:
                    continue
                ok = isinstance(ge, Rat) and isinstance(gs, Rat) and (ge - gs).is_zero()
                rep.ob("R5", "%s, %s: segments %s|%s have the same radial spacing gradient at their common separatrix" % (t.name, rname, segs[k], segs[k + 1]), ok, tables.TOK,
                       "%s vs %s" % (ge.show(80) if isinstance(ge, Rat) else ge, gs.show(80) if isinstance(gs, Rat) else gs), key=key + "/grad")
    rep.floor("R5.segment-pairs", n_pairs, 20)


from .. import tables  # noqa: E402


def segment_adapter_rule(prog, rep):
    """The segment tables give each radial segment nx, psi_start, psi_end and optionally
    grad_start / grad_end; `segmentsWithPsivals` turns a table entry into the call of the grid
    function.  The table rules above (and the table model of hv/tables.py) assume that it hands
    every entry over under its own role - both gradients when both are present (the
    inter-separatrix segment of a disconnected double null).  Decided here on the call as written."""
    from ..model import inline_temporaries
    from . import c13
    mod = prog.module(tables.TOK)
    f = mod.funcs.get("TokamakEquilibrium.segmentsWithPsivals")
    if f is None:
        raise AnalysisError("TokamakEquilibrium.segmentsWithPsivals not found")
    calls = [n for n in ast.walk(f.node) if isinstance(n, ast.Call) and mod.code(n.func) == "self.getSmoothMonotonicGridFunc"]
    if len(calls) != 1:
        rep.ob("R5", "segmentsWithPsivals calls the grid function once per segment", False, f.site(), "%d calls" % len(calls), key="adapter/call")
        return
    c = calls[0]
    pos = [mod.code(inline_temporaries(f.node, a)) for a in c.args]
    kw, spread = c13._expanded_keywords(mod, f.node, c)
    loop = next((l for l in ast.walk(f.node) if isinstance(l, ast.For) and any(x is c for x in ast.walk(l))), None)
    seg = loop.target.elts[1].id if loop is not None and isinstance(loop.target, ast.Tuple) and len(loop.target.elts) == 2 else "segment"
    want_pos = [K('%s["nx"]' % seg), K('%s["psi_start"]' % seg), K('%s["psi_end"]' % seg)]
    ok_pos = pos == want_pos or (not pos and [kw.get(k) for k in ("n", "lower", "upper")] == want_pos)
    rep.ob("R5", "segmentsWithPsivals: the grid function gets (nx, psi_start, psi_end) of the segment in this order", ok_pos, f.site(c), str(pos), key="adapter/positional")
    forms = lambda key: (K('%s.get("%s", None)' % (seg, key)), K('%s.get("%s")' % (seg, key)))
    if not spread:
        ok = kw.get("grad_lower") in forms("grad_start") and kw.get("grad_upper") in forms("grad_end")
        detail = "grad_lower=%s, grad_upper=%s" % (kw.get("grad_lower"), kw.get("grad_upper"))
    else:
        ok, detail = _spread_gradients(mod, f, loop, seg, spread)
    rep.ob("R5", "segmentsWithPsivals: grad_start is handed over as grad_lower and grad_end as grad_upper, each whenever the segment has it (both for a segment that has both)", ok,
           f.site(c), detail, key="adapter/gradients")
    mk = [n for n in ast.walk(f.node) if isinstance(n, ast.Call) and mod.code(n.func) == "self.make1dGrid"]
    ok = len(mk) == 1 and mod.code(inline_temporaries(f.node, mk[0].args[0])) == want_pos[0] and isinstance(mk[0].args[1], ast.Name)
    rep.ob("R5", "segmentsWithPsivals: the 1-D grid is made with the segment's nx from that grid function", ok, f.site(), "", key="adapter/make1dGrid")


def _spread_gradients(mod, f, loop, seg, spread):
    """the optional gradients passed as `**d`: d is replayed on each of the four combinations of
    `"grad_start" in segment` / `"grad_end" in segment`; it must hold grad_lower exactly when the
    segment has grad_start and grad_upper exactly when it has grad_end"""
    import itertools
    from ..stores import effects
    if len(spread) != 1 or loop is None:
        return False, "unmodelled: several run-time dictionaries are spread into the call"
    d = spread[0]
    effs = [e for e in effects(loop, inline=False) if (e.kind == "store" and (mod.code(e.target) == d or (isinstance(e.target, ast.Subscript) and mod.code(e.target.value) == d)))
            or (e.kind == "call" and mod.code(e.value.func) == d + ".update")] if False else None
    # effects() works on a function node: wrap the loop body
    wrapper = ast.FunctionDef(name="_loop", args=ast.arguments(posonlyargs=[], args=[], kwonlyargs=[], kw_defaults=[], defaults=[]), body=loop.body, decorator_list=[], lineno=loop.lineno, col_offset=0)
    effs = effects(wrapper, inline=False)
    has = {"grad_start": K('"grad_start" in %s' % seg), "grad_end": K('"grad_end" in %s' % seg)}
    want_val = {"grad_lower": (K('%s["grad_start"]' % seg), K('%s.get("grad_start")' % seg), K('%s.get("grad_start", None)' % seg)),
                "grad_upper": (K('%s["grad_end"]' % seg), K('%s.get("grad_end")' % seg), K('%s.get("grad_end", None)' % seg))}
    for gs, ge in itertools.product((True, False), repeat=2):
        truth = {has["grad_start"]: gs, has["grad_end"]: ge}
        cur = None
        for e in effs:
            conds = [c for c in e.conds if not isinstance(c, str)]
            take = True
            for c in conds:
                t = mod.code(c)
                neg = False
                if isinstance(c, ast.Compare) and isinstance(c.ops[0], ast.NotIn):
                    t = mod.code(ast.Compare(left=c.left, ops=[ast.In()], comparators=c.comparators))
                    neg = True
                if t not in truth:
                    return False, "unmodelled condition `%s` on the construction of %s" % (t, d)
                if truth[t] == neg:
                    take = False
            if not take:
                continue
            if e.kind == "store" and mod.code(e.target) == d:
                if not (isinstance(e.value, ast.Dict) and all(isinstance(k, ast.Constant) for k in e.value.keys)):
                    return False, "unmodelled value of %s: %s" % (d, mod.code(e.value)[:60])
                cur = {k.value: mod.code(v) for k, v in zip(e.value.keys, e.value.values)}
            elif e.kind == "store" and isinstance(e.target, ast.Subscript) and mod.code(e.target.value) == d and isinstance(e.target.slice, ast.Constant):
                if cur is None:
                    return False, "unmodelled: %s is filled before it is created" % d
                cur[e.target.slice.value] = mod.code(e.value)
            elif e.kind == "call" and mod.code(e.value.func) == "self.getSmoothMonotonicGridFunc":
                break
        if cur is None:
            return False, "unmodelled: %s is not built in the segment loop" % d
        want_keys = ({"grad_lower"} if gs else set()) | ({"grad_upper"} if ge else set())
        present = {k for k, v in cur.items() if v not in ("None",)}
        if present != want_keys or any(cur[k] not in want_val[k] for k in present):
            return False, "a segment %s grad_start and %s grad_end is gridded with %s" % ("with" if gs else "without", "with" if ge else "without", cur or "no end gradient")
    return True, "both combinations of present keys handed over through **%s" % d


def r5(prog, rep):
    from .. import tables
    segment_pairs(prog, rep, grad=True)
    segment_adapter_rule(prog, rep)
    # the gradient term scales like 1/nx (needed for nesting): every candidate of min_abs is (psi difference)/nx_k
    t = tables.topology(prog, "LDN")
    g = t.segments["core"]["grad_end"]
    mins = [a for a in g.all_atoms() if a.fname == "min_abs"]
    ok = len(mins) == 1
    if ok:
        for arg in mins[0].args:
            den_atoms = {a.name for a in arg.atoms() if a.name.startswith("nx")}
            num_has_nx = any(a.name.startswith("nx") for m in arg.num for k, e in m for a in [arg.ctx.atoms[k]])
            ok = ok and len(den_atoms) == 1 and not num_has_nx
    rep.ob("R5", "the separatrix gradient is a minimum of terms (psi difference)/nx_k, so it halves when every nx doubles", ok, tables.TOK, g.show(200), key="grad/scaling")
    # psi limits come from psi_* options with psinorm_* as default
    mod = prog.module(tables.TOK)
    f = mod.funcs.get("TokamakEquilibrium.makeRegions")
    from ..stores import effects
    limits = {}
    for e in effects(f.node, calls=True):
        if e.kind == "store" and isinstance(e.target, ast.Attribute) and mod.code(e.target).startswith("self.psi_"):
            limits.setdefault(mod.code(e.target), []).append(mod.code(e.value))
    n = 0
    for nm in ("core", "sol", "sol_inner", "pf_lower", "pf_upper"):
        w = canon("with_default(self.user_options.psi_%s, self._psinorm_to_psi(self.user_options.psinorm_%s))" % (nm, nm))
        n += 1
        got = limits.get("self.psi_" + nm, [])
        rep.ob("R5", "psi_%s is the psi_* option, defaulting to the psinorm_* option converted to psi" % nm, got == [w], f.site(), "assigned: %s" % got, key="limits/" + nm)
    g2 = mod.funcs.get("TokamakEquilibrium._psinorm_to_psi")
    ctx = Context()
    ex = Extractor(ctx, mod)
    ex.on_attr = lambda d, node, env: ctx.sym(d)
    ex.on_subscript = lambda node, value, env: ctx.sym(mod.code(node))
    ret = [r for r in walk_own(g2.node) if isinstance(r, ast.Return) and r.value is not None and not isinstance(r.value, ast.Constant)]
    v = ex.expr(ret[-1].value, {"psinorm": ctx.sym("psinorm")})
    ok = (v.subs({"psinorm": 0}) - ctx.sym("self.psi_axis")).is_zero() and (v.subs({"psinorm": 1}) - ctx.sym("self.psi_sep[0]")).is_zero() and v.diff("psinorm").diff("psinorm").is_zero()
    rep.ob("R5", "psinorm -> psi is the affine map with 0 -> psi_axis and 1 -> psi_sep[0]", ok, g2.site(), v.show(), key="limits/psinorm-map")
