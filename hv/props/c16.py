"""C16 equivariance under reflection and field reversal (tables + parity).

R1 mirror equivariance of the topology tables: with mu = {lower<->upper in names and
   options, y-order reversed, kinds and start/end swapped, connections reversed},
   tables(USN) == mu(tables(LSN)), tables(UDN, start_at_upper_outer) == mu(tables(LDN)),
   tables(CDN upper-primary, start_at_upper_outer) == mu(tables(CDN)); the default orderings
   are cyclic rotations of these; ixseps1/2 swap between LDN and UDN.
R2 psi-family consistency: every sign/scale option applies one operator to every member of
   the family it must; f_psi_sign is applied identically in fpol, fpolprime, pressure and at
   spline construction.
R3 parity: under psi -> -psi and under fpol -> -fpol every written field of the orthogonal
   arm has a definite parity; position-related quantities and magnitudes are even.
Not decided: numerical equality of mirrored grids.
"""
import ast
import re

from ..alg import AlgError, Context, Rat
from ..extract import Extractor, PathRaises, _dotted
from ..model import Program, walk_own, is_self_attr
from ..report import AnalysisError
from .. import tables
from ..tables import Leaf, Sliced
from . import common, c08
from ..model import canon as K

TOK = tables.TOK
MESH = common.MESH


def swap_lu(name):
    return re.sub(r"lower|upper", lambda m: "upper" if m.group(0) == "lower" else "lower", name)


def mu_value(v, ctx_to):
    """mirror image of a table value, re-expressed in context ctx_to"""
    if isinstance(v, Rat):
        # rename leaves lower<->upper
        m = {}
        for a in v.all_atoms():
            if a.fname is None and swap_lu(a.name) != a.name:
                m[a] = ctx_to.sym(swap_lu(a.name))
        return transplant(v, ctx_to, rename=swap_lu)
    if isinstance(v, Leaf):
        return Leaf(v.name, **v.attrs)
    if isinstance(v, Sliced):
        return Sliced(mu_value(v.base, ctx_to), v.lo, v.hi, v.step)
    if isinstance(v, list):
        return [mu_value(x, ctx_to) for x in v]
    return v


def transplant(r, ctx, rename=lambda s: s):
    """rebuild Rat r inside another context, renaming leaves"""
    def atom(a):
        if a.fname is None:
            return ctx.sym(rename(a.name))
        args = [transplant(x, ctx, rename) for x in a.args]
        if a.fname == "min_abs":
            args = sorted(args, key=lambda x: x.show(400))
            return Rat.from_atom(ctx, ctx.func_atom("min_abs", args))
        return ctx.call(a.fname, *args)

    def poly(p):
        tot = ctx.const(0)
        for m, c in p.items():
            t = ctx.const(c)
            for k, e in m:
                t = t * atom(r.ctx.atoms[k]) ** e
            tot = tot + t
        return tot
    return poly(r.num) / poly(r.den)


def mirror(t, ctx):
    """mu(tables): dict with order, regions, connections"""
    order = [swap_lu(n) for n in reversed(t.order)]
    regs = {}
    for n in t.order:
        r = t.regions[n]
        k0, k1 = r["kind"].split(".")
        nr = {"segments": [swap_lu(s) for s in r["segments"]], "kind": k1 + "." + k0}
        if "xpoints_at_start" in r:
            nr["xpoints_at_end"] = r["xpoints_at_start"]
        if "xpoints_at_end" in r:
            nr["xpoints_at_start"] = r["xpoints_at_end"]
        if "wall_at_start" in r:
            nr["wall_at_end"] = r["wall_at_start"]
        if "wall_at_end" in r:
            nr["wall_at_start"] = r["wall_at_end"]
        pts = r.get("points")
        if pts is not None:
            # the same traced leg, traversed the other way round
            if isinstance(pts, Sliced):
                nr["points"] = pts.base
            else:
                nr["points"] = Sliced(pts, None, None, ctx.const(-1))
        regs[swap_lu(n)] = nr
    conns = sorted((swap_lu(b), j, swap_lu(a), i) for (a, i, b, j) in t.connections)
    return order, regs, conns


def same_points(a, b):
    def norm(p):
        if isinstance(p, Sliced):
            st = p.step.as_const() if isinstance(p.step, Rat) else p.step
            return (repr(p.base).replace("lower", "X").replace("upper", "X"), st)
        return (repr(p).replace("lower", "X").replace("upper", "X"), None) if p is not None else None
    return norm(a) == norm(b)


def compare_tables(rep, label, t_img, t_target, ctx):
    site = TOK
    order, regs, conns = mirror(t_img, ctx)
    rep.ob("R1", "%s: region order" % label, order == t_target.order, site, "mu(order)=%s ; target=%s" % (order, t_target.order), key=label + "/order")
    rep.ob("R1", "%s: connection set" % label, conns == sorted(t_target.connections), site,
           "only in mu(image): %s ; only in target: %s" % (sorted(set(conns) - set(t_target.connections)), sorted(set(t_target.connections) - set(conns))), key=label + "/connections")
    for n in sorted(set(regs) | set(t_target.regions)):
        a, b = regs.get(n), t_target.regions.get(n)
        if a is None or b is None:
            rep.ob("R1", "%s: region %s exists on both sides" % (label, n), False, site, "", key="%s/region/%s" % (label, n))
            continue
        diffs = []
        for k in ("segments", "kind", "xpoints_at_start", "xpoints_at_end"):
            if a.get(k) != b.get(k):
                diffs.append("%s: %s vs %s" % (k, a.get(k), b.get(k)))
        for k in ("wall_at_start", "wall_at_end"):
            if (k in a) != (k in b):
                diffs.append("%s presence differs" % k)
        if not same_points(a.get("points"), b.get("points")):
            diffs.append("points: %r vs %r" % (a.get("points"), b.get("points")))
        rep.ob("R1", "%s: region %s is the mirror image (segments, kind, pins, wall ends, point order)" % (label, n), not diffs, site, "; ".join(diffs), key="%s/region/%s" % (label, n))
    # segment specifications
    for sname, seg in t_img.segments.items():
        tn = swap_lu(sname)
        tgt = t_target.segments.get(tn)
        if tgt is None:
            rep.ob("R1", "%s: segment %s exists" % (label, tn), False, site, "", key="%s/segment/%s" % (label, tn))
            continue
        diffs = []
        for k in ("nx", "psi_start", "psi_end", "grad_start", "grad_end"):
            x, y = seg.get(k), tgt.get(k)
            if (x is None) != (y is None):
                diffs.append("%s presence" % k)
            elif isinstance(x, Rat):
                xm = transplant(x, ctx, swap_lu)
                ym = transplant(y, ctx)
                if not (xm - ym).is_zero():
                    diffs.append("%s: mu=%s target=%s" % (k, xm.show(100), ym.show(100)))
        rep.ob("R1", "%s: radial segment %s has the mirrored specification (nx, psi range, separatrix gradients)" % (label, tn), not diffs, site, "; ".join(diffs), key="%s/segment/%s" % (label, tn))


def run(rep, tier):
    prog = Program()
    common.set_prog(prog)
    rep.analysed_add("files", [TOK, MESH])
    rep.rule("R1", "mirror equivariance of topology tables")
    rep.rule("R2", "psi-family consistency of sign/scale options; f_psi_sign uniformity")
    rep.rule("R3", "definite parity of written fields under psi and fpol reversal")
    rep.rule("R5", "poloidal spacing functions of a region and of its mirror image (lower/upper end parameters exchanged) are reflections of each other, s'(i) = L - s(N - i), for all indices including the guard-cell extrapolations")
    rep.rule("R4", "the radial grid function is odd under psi -> -psi: arm selection does not depend on the sign of psi, each arm maps (-lower,-upper,-grads) to the negated function")
    T = lambda n, s=False: tables.topology(prog, n, s)
    pairs = [("mu(LSN)==USN", T("LSN"), T("USN")),
             ("mu(USN)==LSN", T("USN"), T("LSN")),
             ("mu(LDN)==UDN/start_at_upper_outer", T("LDN"), T("UDN", True)),
             ("mu(UDN)==LDN/start_at_upper_outer", T("UDN"), T("LDN", True)),
             ("mu(CDN)==CDN(upper primary)/start_at_upper_outer", T("CDN"), T("CDN(upper primary)", True))]
    for label, a, b in pairs:
        compare_tables(rep, label, a, b, Context())
    # default orderings are cyclic rotations of the start_at_upper_outer ones
    for nm in ("CDN", "LDN", "UDN"):
        d, s = T(nm).order, T(nm, True).order
        ok = any(d[k:] + d[:k] == s for k in range(len(d)))
        rep.ob("R1", "%s: the start_at_upper_outer ordering is a cyclic rotation of the default one" % nm, ok, TOK, "%s vs %s" % (d, s), key="%s/cyclic" % nm)
        rep.ob("R1", "%s: connections and regions do not depend on the ordering option" % nm, sorted(T(nm).connections) == sorted(T(nm, True).connections), TOK, "", key="%s/order-independent" % nm)
    # ixseps swap
    c1, i1, e1, f1 = c08.writer_integers(prog, T("LDN"))
    c2, i2, e2, f2 = c08.writer_integers(prog, T("UDN"))
    ok = i1 is not None and i2 is not None
    if ok:
        pos = lambda ints, facts, nm: [k for k, x in enumerate(facts["self.x_startinds"]) if (ints[nm] - x).is_zero()]
        ok = pos(i1, f1, "ixseps1") == pos(i2, f2, "ixseps2") == [1] and pos(i1, f1, "ixseps2") == pos(i2, f2, "ixseps1") == [2]
    rep.ob("R1", "ixseps1 and ixseps2 exchange roles between lower and upper disconnected double null (inner separatrix <-> outer separatrix)", ok, MESH, "", key="ixseps/swap")
    r2(prog, rep)
    r3(prog, rep)
    r4(prog, rep)
    r5(prog, rep)
    rep.undecided("numerical equality of mirrored grids; leg tracing order inner/outer by strike-point R (C19)")
    return __doc__


def r5(prog, rep):
    """Reflection in the midplane turns an `X.wall` leg into a `wall.X` leg: the poloidal index runs
    the other way and the parameters given for the lower end are now those of the upper end.  The
    reflected grid has the reflected points iff s_mirror(i) == L - s(N - i) for every index the
    function is evaluated at - interior indices and, with y_boundary_guards > 0, the extrapolated
    guard-cell indices below 0 and above N.  Decided as identities between the constructor arms of
    C10 (sqrt family with every combination of given end parameters, monotonic, linear)."""
    from . import c10
    from ..spacing import Piecewise
    site = c10.EQ
    swap = {"a_lower": "a_upper", "a_upper": "a_lower", "b_lower": "b_upper", "b_upper": "b_lower", "d_lower": "d_upper", "d_upper": "d_lower"}
    pairs = []
    arms = dict(c10.sqrt_arms())
    for label, spec in arms.items():
        mspec = {k: spec[swap[k]] for k in spec}
        mlabel = next(l for l, sp in arms.items() if sp == mspec)
        pairs.append((label, mlabel, lambda ctx, sp=spec: c10.build_sqrt(prog, sp, 1, ctx), lambda ctx, sp=mspec: c10.build_sqrt(prog, sp, 1, ctx)))
    for conc in (False, True):
        lab = "monotonic/%s" % ("concave" if conc else "convex")
        pairs.append((lab, lab, lambda ctx, c=conc: c10.build_mono(prog, c, 1, ctx), lambda ctx, c=conc: c10.build_mono(prog, c, 1, ctx)))
    pairs.append(("linear", "linear", lambda ctx: c10.build_linear(prog, 1, ctx), lambda ctx: c10.build_linear(prog, 1, ctx)))
    n = 0
    for label, mlabel, build_a, build_b in pairs:
        ctx = Context()
        try:
            _, exa, fa, sya = build_a(ctx)
            _, exb, fb, syb = build_b(ctx)
            i = ctx.sym("i")
            va = exa.call_closure(fa, [i], {})
            vb = exb.call_closure(fb, [i], {})
        except (AlgError, PathRaises) as e:
            rep.ob("R5", "%s: arm and its mirror arm extractable" % label, False, site, "not representable: %s" % e, key="spacing-mirror/%s/extract" % label)
            continue
        if getattr(exa, "roots", None) or getattr(exb, "roots", None):
            # arms closed by a root finder: the reflected constraint has the reflected root; the
            # identity is checked with the root symbol shared
            if exa.roots and exb.roots:
                sub_root = {exb.roots[0][0].as_atom(): exa.roots[0][0]}
            else:
                sub_root = {}
        else:
            sub_root = {}
        L, N = sya["L"], sya["N"]
        # exchange the roles of the end parameters in the mirror arm (simultaneous substitution)
        tmp = {k: ctx.sym("tmp_" + k) for k in swap}
        def mirror_params(v):
            v = v.subs({k: tmp[k] for k in swap if syb.get(k) is not None})
            return v.subs({"tmp_" + k: ctx.sym(swap[k]) for k in swap})
        if sub_root:
            # the mirror arm's root is the same number only if its constraint, with the end
            # parameters exchanged, is the same equation for the root
            try:
                same = (mirror_params(exb.roots[0][2]).subs(sub_root) - exa.roots[0][2]).is_zero() or (mirror_params(exb.roots[0][2]).subs(sub_root) + exa.roots[0][2]).is_zero()
            except AlgError:
                same = False
            if not same:
                rep.undecided("%s: reflection identity of an arm closed by a root finder whose constraint is not symmetric under the exchange of the end parameters (the reflected root is a different number)" % label)
                continue
        pa = va.pieces if isinstance(va, Piecewise) else {"inside": va}
        pb = vb.pieces if isinstance(vb, Piecewise) else {"inside": vb}
        for piece_a, piece_b, what in (("inside", "inside", "interior"), ("above", "below", "guard cells above N <-> below 0"), ("below", "above", "guard cells below 0 <-> above N")):
            if piece_a not in pa and piece_b not in pb:
                continue
            n += 1
            key = "spacing-mirror/%s/%s" % (label, piece_a)
            if piece_a not in pa or piece_b not in pb:
                rep.ob("R5", "%s <-> %s: %s: both arms extrapolate" % (label, mlabel, what), False, site,
                       "only one of the two mirror arms has an extrapolation piece there: the guard cells of one target are extrapolated, those of its mirror image are not", key=key)
                continue
            try:
                a_ref = pa[piece_a].subs({"i": N - i})        # s(N - i)
                b_val = mirror_params(pb[piece_b]).subs(sub_root) if sub_root else mirror_params(pb[piece_b])
                d = b_val - (L - a_ref)
                ok = d.is_zero()
                if not ok and sub_root:
                    # equal up to the arm's own root-finder constraint (zero at the root)
                    cons = exa.roots[0][2]
                    ok = (d - cons).is_zero() or (d + cons).is_zero()
                    if not ok:
                        # ... or: the difference does not depend on i (its derivative vanishes
                        # identically; logarithms of i-dependent arguments drop out there) and at
                        # i = 0 it is the constraint
                        d0 = d.subs({"i": 0})
                        ok = d.diff("i").is_zero() and (d0.is_zero() or (d0 - cons).is_zero() or (d0 + cons).is_zero())
                detail = "" if ok else "residual " + d.residual()[:200]
            except AlgError as e:
                ok, detail = False, "not representable: %s" % e
            rep.ob("R5", "%s <-> %s: %s: s_mirror(i) == L - s(N - i)" % (label, mlabel, what), ok, site, detail, key=key)
    rep.floor("R5.pieces", n, 14)


def r4(prog, rep):
    """psi -> -psi negates lower, upper, grad_lower, grad_upper of every radial segment.  The grid
    must come out negated, so (a) every test that selects an arm of the grid function compares
    quantities that are unchanged by the joint negation, (b) each arm's function is odd."""
    from . import c09
    from ..spacing import SpacingEx
    gf = c09.grid_func(prog)
    mod = gf.module
    ODD = ("lower", "upper", "grad_lower", "grad_upper")
    n_tests = 0
    for n in walk_own(gf.node):
        if not (isinstance(n, ast.If) and isinstance(n.test, ast.Compare) and len(n.test.ops) == 1):
            continue
        t = n.test
        names = {x.id for x in ast.walk(t) if isinstance(x, ast.Name)}
        if not (names & set(ODD)) or isinstance(t.ops[0], (ast.Is, ast.IsNot)):
            continue
        n_tests += 1
        ctx = Context()
        ex = FamEx(ctx, mod)
        env = {k: ctx.sym(k) for k in ODD + ("n",)}
        envf = {k: (-ctx.sym(k) if k in ODD else ctx.sym(k)) for k in ODD + ("n",)}
        try:
            l, r = ex.expr(t.left, dict(env)), ex.expr(t.comparators[0], dict(env))
            lf, rf = ex.expr(t.left, dict(envf)), ex.expr(t.comparators[0], dict(envf))
            same = (l - lf).is_zero() and (r - rf).is_zero()
            mirrored = (l + lf).is_zero() and (r + rf).is_zero() and False  # a flipped inequality would select the other arm
            ok = same or mirrored
            detail = "" if ok else "left side %s -> %s, right side %s -> %s under the reversal" % (l.show(80), lf.show(80), r.show(80), rf.show(80))
        except AlgError as e:
            ok, detail = False, "test not representable: %s" % e
        rep.ob("R4", "arm selection `%s` is unchanged by psi -> -psi" % mod.code(t)[:90], ok, gf.site(n), detail, key="gridfunc/test/%s" % mod.code(t)[:90])
    rep.floor("R4.arm-tests", n_tests, 3)
    # the separatrix spacing handed to the grid function: chosen among the candidate average
    # spacings by magnitude, so that the choice does not depend on the sign of psi
    n_sel = 0
    for t in tables.all_topologies(prog):
        for sname, seg in sorted(t.segments.items()):
            for fld in ("grad_start", "grad_end"):
                v = seg.get(fld)
                if isinstance(v, Rat):
                    sel = [a for a in v.all_atoms() if a.fname in ("min_abs", "min_signed", "max_signed")]
                    if sel:
                        n_sel += 1
                        bad = [a.fname for a in sel if a.fname != "min_abs"]
                        rep.ob("R4", "%s: %s of segment %s is selected by magnitude (min(..., key=abs))" % (t.name, fld, sname), not bad, TOK,
                               "plain min/max over quantities that change sign with psi" if bad else "", key="gridfunc/select/%s/%s/%s" % (t.name, sname, fld))
    rep.floor("R4.selections", n_sel, 10)
    # (b) oddness of each arm
    for arm in c09.ARMS:
        label = arm[0]
        try:
            ctx, ex, f, sy = c09.build_arm(prog, arm)
            i = ctx.sym("i")
            fi = ex.call_closure(f, [i], {})
            roots = [r_[0] for r_ in getattr(ex, "roots", [])]
            cons = c09.constraint_value(ex)
        except (AlgError, PathRaises) as e:
            rep.ob("R4", "%s: arm extractable" % label, False, gf.site(), str(e), key="gridfunc/odd/%s/extract" % label)
            continue
        sub = {k: -ctx.sym(k) for k in ODD}
        try:
            ff = fi.subs(sub)
            ok = (ff + fi).is_zero()
            detail = "" if ok else "f(-args)+f(args) = " + (ff + fi).residual()[:160]
            if cons is not None:
                cf = cons.subs(sub)
                okc = (cf + cons).is_zero() or (cf - cons).is_zero()
                rep.ob("R4", "%s: the root-finder constraint keeps its root under psi -> -psi (it is odd or even in the reversed quantities)" % label, okc, gf.site(), "", key="gridfunc/odd/%s/constraint" % label)
        except AlgError as e:
            ok, detail = False, "not representable: %s" % e
        rep.ob("R4", "%s: f(i; -lower, -upper, -grads) == -f(i; lower, upper, grads)" % label, ok, gf.site(), detail, key="gridfunc/odd/%s" % label)


class FamEx(Extractor):
    def on_name(self, name, env):
        return self.ctx.sym(name)

    def on_attr(self, d, node, env):
        if d in ("np.pi", "numpy.pi"):
            return self.ctx.sym("pi")
        return self.ctx.sym(d)


def r2(prog, rep):
    mod = prog.module(TOK)
    f = mod.funcs.get("TokamakEquilibrium.__init__")
    if f is None:
        raise AnalysisError("TokamakEquilibrium.__init__ not found")
    want = {
        "reverse_current": {"psi2D": "neg", "psi1D": "neg"},
        "psi_divide_twopi": {"psi2D": "twopi", "psi1D": "twopi", "psi_axis_gfile": "twopi", "psi_bdry_gfile": "twopi"},
        "reverse_Bt": {"fpol1D": "neg"},
    }
    params = {a.arg for a in f.node.args.args + f.node.args.kwonlyargs}
    seen_opts = set()
    for s in f.node.body:
        if not isinstance(s, ast.If):
            continue
        t = mod.text(s.test)
        opt = next((o for o in want if "self.user_options." + o in t and "extrapolate" not in t), None)
        if opt is None:
            continue
        ctx = Context()
        ex = FamEx(ctx, mod)
        env = {}
        got = {}
        stmts = []
        for st in s.body:
            stmts.append(st)
            if isinstance(st, ast.If):
                stmts.extend(st.body)
        for st in stmts:
            if isinstance(st, ast.Assign) and isinstance(st.targets[0], ast.Name):
                nm = st.targets[0].id
                try:
                    v = ex.expr(st.value, env)
                except AlgError:
                    continue
                if nm == "twopi":
                    env[nm] = v
                    continue
                x = ctx.sym(nm)
                if (v + x).is_zero():
                    got[nm] = "neg"
                elif isinstance(env.get("twopi"), Rat) and (v - x / env["twopi"]).is_zero():
                    got[nm] = "twopi"
                else:
                    got[nm] = v.show(60)
            elif isinstance(st, ast.AugAssign) and isinstance(st.target, ast.Name):
                nm = st.target.id
                v = ex.expr(st.value, env)
                if isinstance(st.op, ast.Mult) and v.as_const() == -1:
                    got[nm] = "neg"
                elif isinstance(st.op, ast.Div) and isinstance(env.get("twopi"), Rat) and (v - env["twopi"]).is_zero():
                    got[nm] = "twopi"
                else:
                    got[nm] = "?"
        # only the data handed to the constructor is "family"; a block that touches none of it
        # (a local sign factor chosen under the same option) is not a family block
        got = {k: v for k, v in got.items() if k in params}
        if not got:
            continue
        seen_opts.add(opt)
        tw = env.get("twopi")
        if opt == "psi_divide_twopi":
            rep.ob("R2", "twopi == 2*pi", isinstance(tw, Rat) and (tw - 2 * ctx.sym("pi")).is_zero(), f.site(s), "", key="family/twopi-def")
        rep.ob("R2", "option %s applies one operator to exactly its family %s" % (opt, sorted(want[opt])), got == want[opt], f.site(s), "found %s" % got, key="family/" + opt)
    for opt in want:
        if opt not in seen_opts:
            rep.ob("R2", "option %s applies one operator to exactly its family %s" % (opt, sorted(want[opt])), False, f.site(), "found {}: no block under this option modifies constructor data", key="family/" + opt)
    # gfile comparisons use the reversal sign
    src = mod.code(f.node)
    # psi_reverse_sign is -1.0 exactly when reverse_current is set (conditional expression or if/else),
    # wherever it is defined, and both gfile comparisons use it
    defs_ok, ndefs = True, 0
    for n_ in ast.walk(f.node):
        if isinstance(n_, ast.Assign) and isinstance(n_.targets[0], ast.Name) and n_.targets[0].id == "psi_reverse_sign" and isinstance(n_.value, ast.IfExp):
            ndefs += 1
            defs_ok = defs_ok and mod.code(n_.value) == K("-1.0 if self.user_options.reverse_current else 1.0")
        if isinstance(n_, ast.If) and mod.code(n_.test) == "self.user_options.reverse_current":
            a = [s_ for s_ in n_.body if isinstance(s_, ast.Assign) and mod.code(s_.targets[0]) == "psi_reverse_sign"]
            b = [s_ for s_ in n_.orelse if isinstance(s_, ast.Assign) and mod.code(s_.targets[0]) == "psi_reverse_sign"]
            if a or b:
                ndefs += 1
                defs_ok = defs_ok and len(a) == 1 and len(b) == 1 and mod.code(a[0].value) == K("-1.0") and mod.code(b[0].value) == K("1.0")
    ok = defs_ok and ndefs >= 1 and K("abs(self.psi_axis-psi_reverse_sign*psi_axis_gfile)>1.0e-3") in src and K("abs(self.psi_bdry-psi_reverse_sign*psi_bdry_gfile)>1.0e-3") in src
    rep.ob("R2", "the gfile axis/boundary values are compared with the same reversal sign as applied to psi", ok, f.site(), "", key="family/gfile-compare")
    # f_psi_sign uniformity
    ctx = Context()
    ex = FamEx(ctx, mod)
    ex.on_call = lambda node, fname, args, kwargs, env: ctx.call(fname, *[a for a in args if isinstance(a, Rat)])
    s_ = ctx.sym("self.f_psi_sign")
    psi = ctx.sym("psi")
    args = {}
    for nm in ("fpol", "fpolprime", "pressure"):
        g = mod.funcs.get("TokamakEquilibrium." + nm)
        if g is None:
            raise AnalysisError("TokamakEquilibrium.%s not found" % nm)
        rets = [n for n in walk_own(g.node) if isinstance(n, ast.Return) and n.value is not None and not (isinstance(n.value, ast.Constant) and n.value.value is None)]
        v = ex.expr(rets[-1].value, {"psi": psi})
        spl = [a for a in v.all_atoms() if a.fname and a.fname.startswith("self.")]
        ok = len(spl) == 1 and (spl[0].args[0] - psi * s_).is_zero()
        rep.ob("R2", "%s evaluates its spline at psi*f_psi_sign" % nm, ok, g.site(), v.show(100), key="fpsisign/" + nm)
    cons = {}
    for n in walk_own(f.node):
        if isinstance(n, ast.Assign) and is_self_attr(n.targets[0]) and n.targets[0].attr in ("f_spl", "p_spl") and isinstance(n.value, ast.Call) and n.value.args:
            cons[n.targets[0].attr] = mod.code(n.value.args[0])
    ok = cons.get("f_spl") == K("psi1D*self.f_psi_sign") and cons.get("p_spl") == K("psi1D*self.f_psi_sign")
    rep.ob("R2", "both profile splines are built on the abscissa psi1D*f_psi_sign", ok, f.site(), str(cons), key="fpsisign/construction")
    sg = [n for n in walk_own(f.node) if isinstance(n, ast.If) and mod.code(n.test) == K("psi1D[-1]<psi1D[0]")]
    ok = len(sg) == 1 and mod.code(sg[0].body[0]) == K("self.f_psi_sign=-1.0")
    rep.ob("R2", "f_psi_sign is -1 exactly when the (possibly reversed/extended) psi1D is decreasing", ok, f.site(), "", key="fpsisign/definition")


def r3(prog, rep):
    from . import c02, c07
    fm = c02.metric_function(prog)
    fg1 = prog.unique_func_assigning(["Brxy", "Bzxy", "Bpxy", "Btxy"], MESH)
    fg2 = prog.unique_func_assigning(["dphidy"], MESH)
    fc = c07.curvature_function(prog)
    for psi_decr in (False, True):
        ctx = Context()
        common.declare_equilibrium(ctx)
        common._models.clear()
        env = common.eval_geometry1(prog, ctx, fg1, psi_decr, psi_decr)
        ex2 = c02.MetricEx(ctx, fg2.module, {})
        for s in fg2.node.body:
            if isinstance(s, ast.Assign) and any(is_self_attr(t, "dphidy") for t in s.targets):
                ex2.stmt(s, env)
        exm = c02.MetricEx(ctx, fm.module, {"orthogonal": True})
        exm.prog = prog
        for s in fm.node.body:
            try:
                exm.stmt(s, env)
            except (AlgError, PathRaises):
                break
            if "self.g_23" in env and isinstance(s, ast.If):
                break
        seeds = {'curvature_type == "curl(b/B) with x-y derivatives"': False, 'curvature_type == "curl(b/B)"': True, "orthogonal": True}
        exc = c07.CurvEx(ctx, fc.module, prog, seeds, "spline")
        env["self.I"] = ctx.const(0)
        exc.block(fc.node.body, env)
        R, Z = ctx.sym("R"), ctx.sym("Z")
        # psi -> -psi: psi and all its partials change sign, bpsign changes sign (psi_vals order), fpol(psi) as a profile value is unchanged
        odd_psi = {}
        for a in ctx.atoms:
            if a.fname and a.fname.startswith("psi"):
                odd_psi[a] = -Rat.from_atom(ctx, a)
        # fpol(psi(R,Z)) is an atom whose argument flips: keep the profile value (fpol(-psi) of the reversed profile == fpol(psi))
        fields = ["psixy", "Brxy", "Bzxy", "Bpxy", "Btxy", "Bxy", "dphidy", "g11", "g22", "g33", "g12", "g13", "g23", "J", "g_11", "g_22", "g_33", "g_12", "g_13", "g_23",
                  "curl_bOverB_x", "curl_bOverB_y", "curl_bOverB_z", "bxcvx", "bxcvy", "bxcvz"]
        want_even_psi = {"Btxy", "Bxy", "g11", "g22", "g33", "g_11", "g_22", "g_33", "g23", "g_23"}
        want_odd_psi = {"psixy", "Brxy", "Bzxy", "dphidy"}
        label = "bpsign=%+d" % (-1 if psi_decr else 1)
        for fld in fields:
            v = env.get("self." + fld)
            if not isinstance(v, Rat):
                rep.ob("R3", "%s: field %s extractable" % (label, fld), False, MESH, str(v), key="parity/%s/%s/extract" % (label, fld))
                continue
            # (a) psi reversal with the branch sign unchanged: magnitude-level parity
            # d fpol/d psi also changes sign when psi does (the profile is reflected with it)
            w = flip(v, ctx, lambda a: a.fname is not None and (a.fname.startswith("psi") or a.fname == "fpolprime"))
            par = "even" if (w - v).is_zero() else ("odd" if (w + v).is_zero() else None)
            rep.ob("R3", "%s: %s has a definite parity under psi -> -psi (fixed branch)" % (label, fld), par is not None, MESH, "parity: %s" % par, key="parity/%s/%s/psi" % (label, fld))
            # (b) fpol reversal
            w2 = flip(v, ctx, lambda a: a.fname == "fpol" or a.fname == "fpolprime")
            par2 = "even" if (w2 - v).is_zero() else ("odd" if (w2 + v).is_zero() else None)
            rep.ob("R3", "%s: %s has a definite parity under fpol -> -fpol" % (label, fld), par2 is not None, MESH, "parity: %s" % par2, key="parity/%s/%s/fpol" % (label, fld))
            if fld in ("Brxy", "Bzxy", "Bpxy", "psixy", "g11", "g22", "g_11", "g_22", "g_33", "Bxy", "J"):
                rep.ob("R3", "%s: %s does not change under fpol -> -fpol" % (label, fld), par2 == "even", MESH, str(par2), key="parity/%s/%s/fpol-even" % (label, fld))
            if fld in ("Btxy", "dphidy", "g23", "g_23"):
                rep.ob("R3", "%s: %s changes sign under fpol -> -fpol" % (label, fld), par2 == "odd", MESH, str(par2), key="parity/%s/%s/fpol-odd" % (label, fld))
    # the two branches are images of each other under psi -> -psi: every field squared agrees
    rep.analysed_add("parity", ["orthogonal arm, curl(b/B) curvature, both sign branches"])


def flip(v, ctx, pred):
    """value of v with every atom satisfying pred negated (function atoms keep their arguments)"""
    m = {}
    for a in v.all_atoms():
        if pred(a):
            m[a] = -Rat.from_atom(ctx, a)
    if not m:
        return v
    # direct polynomial substitution by atom id (do not recurse into arguments)
    def poly(p):
        out = {}
        for mono, c in p.items():
            sgn = 1
            for k, e in mono:
                if ctx.atoms[k] in m and e % 2:
                    sgn = -sgn
            out[mono] = c * sgn
        return out
    # atoms nested inside sqrt etc.: sqrt(psi_R^2+psi_Z^2) is even automatically since its argument is even;
    # verify that by checking the argument of every non-flipped function atom is invariant
    for a in v.atoms():
        if a.fname in ("sqrt", "abs") and a not in m:
            arg = a.args[0]
            if not (flip(arg, ctx, pred) - arg).is_zero():
                raise AlgError("argument of %s is not invariant" % a.name)
    return Rat(ctx, poly(v.num), poly(v.den))
