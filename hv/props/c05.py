"""C05 hy and poloidal_distance are arc lengths (stencil structure, E4).

R1 hy*dy at a location is the contour distance between logical y+1/2 and y-1/2 on the
   contour of that radial position; joins add the neighbour's last half-cell; boundaries
   double the half-cell; all four locations are divided by dy and guarded positive.
R2 poloidal_distance: offset by the distance at the contour's own startInd; centre/xlow
   use odd points, ylow/corners even points, on the contour of the right radial parity;
   hand-over from logical y=ny; total_poloidal_distance only for periodic chains.
R3 distances are cumulative chord sums; the point distance is a convex interpolation between
   the two nearest fine points; the monotonicity guard is NaN-safe.
R4 origin of closed surfaces (documented: first core cell in y-index order) - decided by
   the y-grouping model over the topology tables (shared with C08.R7).
Not decided: quadratic convergence in finecontour_Nfine; interpolation accuracy.
"""
import ast
from fractions import Fraction

from ..alg import AlgError, Context, Rat
from ..extract import Extractor
from ..model import strip_comments, Program, walk_own, is_self_attr, dotted, inline_temporaries
from ..report import AnalysisError
from ..slices import Affine
from .. import stagger, contours
from ..stagger import StencilError
from ..model import canon as K

MESH = "hypnotoad/core/mesh.py"
EQ = "hypnotoad/core/equilibrium.py"
HALF = Fraction(1, 2)
LOCS = ("centre", "xlow", "ylow", "corners")


def T(mod, node):
    return mod.code(node)


def run(rep, tier):
    prog = Program()
    rep.analysed_add("files", [MESH, EQ])
    rep.rule("R1", "hy stencils")
    rep.rule("R2", "poloidal_distance stencils and hand-over")
    rep.rule("R3", "distance definition")
    rep.rule("R4", "origin of closed surfaces (see C08.R7)")
    r1(prog, rep)
    r2(prog, rep)
    r3(prog, rep)
    from . import c08
    c08.y_group_origin(prog, rep, "R4")
    # hy and poloidal_distance read the contour's cached distance: it must belong to the current
    # points (rule instances of C15.R3)
    from ..report import Premise
    from . import c15
    rep.rule("R0", "premise: the cached contour distance is invalidated by every change of the point list (C15.R3)")
    c15.cache_rules(prog, Premise(rep, "R0", "C15"))
    rep.undecided("quadratic convergence of the chord-sum distance in finecontour_Nfine")
    return __doc__


def r1(prog, rep):
    f = None
    for g in prog.module(MESH).funcs.values():
        if g.cls == "MeshRegion" and any(isinstance(n, ast.Return) and isinstance(n.value, ast.Name) and n.value.id == "hy" for n in walk_own(g.node)):
            f = g
    if f is None:
        raise AnalysisError("method returning hy not found")
    mod = f.module
    rep.analysed_add("functions", [f.site()])
    loops = [s for s in f.node.body if isinstance(s, ast.For)]
    nst = 0
    for loop in loops:
        if not isinstance(loop.target, ast.Name):
            continue  # not a loop over contour indices (e.g. a loop over location names): the statement floor below decides
        lv = loop.target.id
        rng = T(mod, loop.iter).replace(" ", "")
        arrays = {}  # local distance array -> (who, contour (a,b))
        for s in sorted(walk_own(loop), key=lambda n: (getattr(n, "lineno", 0), getattr(n, "col_offset", 0))):
            if isinstance(s, ast.Assign) and isinstance(s.targets[0], ast.Name):
                v = s.value
                txt = T(mod, v)
                # d = numpy.array(self.contours[2*i+1].get_distance(...)) ; cbelow = nb.contours[...]; dbelow = cbelow.get_distance()
                for n in ast.walk(v):
                    if isinstance(n, ast.Subscript) and isinstance(n.value, ast.Attribute) and n.value.attr == "contours":
                        who = "self" if is_self_attr(n.value) else ("lower" if K('"lower"') in txt else ("upper" if K('"upper"') in txt else "?"))
                        try:
                            arrays[s.targets[0].id] = (who, contours.contour_index(n.slice, lv))
                        except StencilError:
                            pass
                if isinstance(v, ast.Call) and isinstance(v.func, ast.Attribute) and v.func.attr == "get_distance" and isinstance(v.func.value, ast.Name) and v.func.value.id in arrays:
                    arrays[s.targets[0].id] = arrays[v.func.value.id]
        for s in walk_own(loop):
            if not (isinstance(s, ast.Assign) and isinstance(s.targets[0], ast.Subscript)):
                continue
            la = stagger.loc_array(s.targets[0])
            if not la or T(mod, la[0]) != "hy":
                continue
            loc = la[1]
            nst += 1
            key = "hy/%s/%s" % (loc, T(mod, s.targets[0].slice).replace(" ", ""))
            try:
                sl = s.targets[0].slice
                xs, ys = sl.elts
                if not (isinstance(xs, ast.Name) and xs.id == lv):
                    raise StencilError("x index is not the loop variable")
                ysel = stagger.axis_sel(ys, stagger.YLEN[loc])
                y0 = stagger.first_of(ysel) + stagger.YHALF[loc]
                terms = contours.linear_terms(s.value)
                per = {}
                for c, arr, sel in terms:
                    if arr not in arrays:
                        raise StencilError("array %s is not a contour distance" % arr)
                    who, (ca, cb) = arrays[arr]
                    # radial parity: contour 2i+1 <-> x = i+1/2 ; 2i <-> x = i
                    if Fraction(cb, 2) != stagger.XHALF[loc] or ca != 2:
                        raise StencilError("contour %d*i+%d does not lie at the radial position of %s" % (ca, cb, loc))
                    ps = contours.point_sel(sel)
                    if ps[0] == "range":
                        if ysel[0] != "range" or ps[2] != 2 or not (ps[3] == stagger.count_of(ysel)):
                            raise StencilError("point slice %s does not step one cell per element / wrong count" % (ps,))
                    yy = Affine(ps[1].c0 / 2, ps[1].c1 / 2)  # logical y of the first selected point (own array coordinates)
                    if who == "lower":
                        yy = yy - Affine(0, 1)  # neighbour below: its y=ny is our y=0
                    elif who == "upper":
                        yy = yy + Affine(0, 1)
                    d = yy - y0
                    if d.c1 != 0:
                        raise StencilError("sample offset depends on ny: %s" % d)
                    per.setdefault(who, []).append((c, d.c0))
                # each array contributes a difference; intervals must tile [y0-1/2, y0+1/2]
                cover = []
                for who, lst in per.items():
                    if sum(c for c, _ in lst) != 0 or len(lst) != 2:
                        raise StencilError("samples of the %s contour do not form one difference" % who)
                    (c1, o1), (c2, o2) = sorted(lst, key=lambda t: t[1])
                    if not (c1 < 0 < c2 and c2 == -c1):
                        raise StencilError("difference has the wrong sign")
                    cover.append((o1, o2, c2))
                cover.sort()
                full = [(-HALF, HALF, 1)]
                join_low = [(-HALF, Fraction(0), 1), (Fraction(0), HALF, 1)]
                bnd_low = [(Fraction(0), HALF, 2)]
                bnd_high = [(-HALF, Fraction(0), 2)]
                at_low = ysel[0] == "index" and stagger.first_of(ysel) == Affine(0)
                at_high = ysel[0] == "index" and stagger.first_of(ysel).c1 == 1
                if cover == full:
                    kind, ok = "arc from y-1/2 to y+1/2", True
                elif cover == join_low and (at_low or at_high) and set(per) == ({"self", "lower"} if at_low else {"self", "upper"}):
                    kind, ok = "own half-cell plus the neighbour's half-cell across the join", True
                elif cover == bnd_low and at_low and set(per) == {"self"}:
                    kind, ok = "twice the first half-cell (no neighbour)", True
                elif cover == bnd_high and at_high and set(per) == {"self"}:
                    kind, ok = "twice the last half-cell (no neighbour)", True
                else:
                    kind, ok = "covers %s" % cover, False
                rep.ob("R1", "hy.%s[%s] (loop %s): %s" % (loc, T(mod, s.targets[0].slice), rng, kind), ok, f.site(s), "", key=key + "/" + "+".join(sorted(per)))
                want_rng = "range(self.nx)" if stagger.XHALF[loc] == HALF else "range(self.nx+1)"
                if rng != want_rng:
                    rep.ob("R1", "hy.%s is filled for every radial index" % loc, False, f.site(loop), "loop over %s" % rng, key="hy/%s/xrange" % loc)
            except (StencilError, ValueError) as e:
                rep.ob("R1", "hy.%s[%s] understood as an arc-length stencil" % (loc, T(mod, s.targets[0].slice)), False, f.site(s), str(e), key=key)
    rep.floor("R1.hy-statements", nst, 12)
    div = [s for s in f.node.body if isinstance(s, ast.AugAssign) and isinstance(s.op, ast.Div) and T(mod, s.target) == "hy" and T(mod, s.value) == "self.dy"]
    rep.ob("R1", "hy is divided by dy (all locations at once) before the checks", len(div) == 1, f.site(), "", key="hy/div-dy")


def r2(prog, rep):
    f = prog.unique_func_assigning(["total_poloidal_distance"], MESH)
    mod = f.module
    rep.analysed_add("functions", [f.site()])
    # offsets and accumulations
    seen = {}
    for loop in [n for n in walk_own(f.node) if isinstance(n, ast.For)]:
        lv = loop.target.id if isinstance(loop.target, ast.Name) else None
        rng = T(mod, loop.iter).replace(" ", "")
        cidx = None
        for s in loop.body:
            if isinstance(s, ast.Assign) and isinstance(s.targets[0], ast.Name) and s.targets[0].id == "c":
                sub = s.value
                if isinstance(sub, ast.Subscript) and T(mod, sub.value) == "region.contours":
                    cidx = contours.contour_index(sub.slice, lv)
            if isinstance(s, ast.AugAssign):
                la = stagger.loc_array(s.target)
                if la and T(mod, la[0]) == "region.poloidal_distance":
                    loc = la[1]
                    v = s.value
                    sel = T(mod, v.slice).replace(" ", "") if isinstance(v, ast.Subscript) else None
                    is_c = isinstance(v, ast.Subscript) and isinstance(v.value, ast.Call) and T(mod, v.value.func) == "c.get_distance"
                    seen.setdefault(loc, []).append((type(s.op).__name__, sel, cidx, rng, is_c, T(mod, s.target.slice).replace(" ", "")))
    for loc in LOCS:
        par = (2, 1) if stagger.XHALF[loc] == HALF else (2, 0)
        rng = "range(self.nx)" if stagger.XHALF[loc] == HALF else "range(self.nx+1)"
        pts = "1::2" if stagger.YHALF[loc] == HALF else "::2"
        got = seen.get(loc, [])
        off = [g for g in got if g[0] == "Sub"]
        acc = [g for g in got if g[0] == "Add"]
        ok = len(off) == 1 and off[0][1] == "c.startInd" and off[0][2] == par and off[0][3] == rng and off[0][4] and off[0][5] == K("i,:")
        rep.ob("R2", "poloidal_distance.%s is offset by the distance at startInd of contour %d*i+%d" % (loc, par[0], par[1]), ok, f.site(), str(off), key="pd/offset/" + loc)
        ok = len(acc) == 1 and acc[0][1] == pts and acc[0][2] == par and acc[0][3] == rng and acc[0][4] and acc[0][5] == K("i,:")
        rep.ob("R2", "poloidal_distance.%s accumulates points [%s] of contour %d*i+%d" % (loc, pts, par[0], par[1]), ok, f.site(), str(acc), key="pd/accumulate/" + loc)
    # start, hand-over
    first = [s for s in f.node.body if isinstance(s, ast.If)][0]
    rep.ob("R2", "only the first region of a y-group starts a chain", T(mod, first.test) == K("self.yGroupIndex != 0") and isinstance(first.body[0], ast.Return), f.site(first), "", key="pd/start")
    hand = {}
    for s in walk_own(f.node):
        if isinstance(s, ast.Assign) and isinstance(s.targets[0], ast.Subscript):
            la = stagger.loc_array(s.targets[0])
            if la and T(mod, la[0]) == "next_region.poloidal_distance":
                src = stagger.loc_array(s.value)
                if src and T(mod, src[0]) == "region.poloidal_distance":
                    sx, sy = stagger.selectors(src[2], src[1])
                    hand[la[1]] = (src[1], stagger.first_of(sy) + stagger.YHALF[src[1]])
    want = {"centre": "ylow", "ylow": "ylow", "xlow": "corners", "corners": "corners"}
    for loc, srcloc in want.items():
        got = hand.get(loc)
        ok = got is not None and got[0] == srcloc and got[1] == Affine(0, 1)
        rep.ob("R2", "hand-over: next region's poloidal_distance.%s starts from %s at logical y = ny" % (loc, srcloc), ok, f.site(), str(got), key="pd/handover/" + loc)
    src = mod.code(f.node)
    rep.ob("R2", "the chain stops at a missing neighbour or on return to the first region", K('ifnext_regionisNoneornext_regionisself:') in src and K("region=next_region") in src, f.site(), "", key="pd/stop")
    tot = {}
    for s in walk_own(f.node):
        if isinstance(s, ast.If) and T(mod, s.test) == K('self.connections["lower"] is not None'):
            for st in s.body:
                if isinstance(st, ast.Assign):
                    la = stagger.loc_array(st.targets[0])
                    if la and T(mod, la[0]) == "self.total_poloidal_distance":
                        tot[la[1]] = mod.code(st.value)
    ok = tot.get("centre") == K("region.poloidal_distance.ylow[:,-1]") and tot.get("xlow") == K("region.poloidal_distance.corners[:,-1]")
    rep.ob("R2", "total_poloidal_distance is the last region's value at y=ny, only for periodic chains", ok and len(tot) == 2, f.site(), str(tot), key="pd/total")


def _chord_cumsum(mod, f):
    """the value stored to self.distance[1:] is cumsum(|p[k+1] - p[k]|): after inlining
    temporaries it is numpy.cumsum(numpy.sqrt(numpy.sum(D**2, axis=1))) (or D*D) with
    D = self.positions[1:] - self.positions[:-1] or numpy.diff(self.positions, axis=0).
    A difference of two other slices of the positions is a violation; any other spelling is
    reported as unmodelled (undecided)."""
    stores = [s for s in walk_own(f.node) if isinstance(s, ast.Assign) and mod.code(s.targets[0]) == K("self.distance[1:]")]
    if len(stores) != 1:
        return False, "%d stores to self.distance[1:]" % len(stores)
    v = inline_temporaries(f.node, stores[0].value, inline_calls=True)

    def call(n, name, nargs=1):
        return isinstance(n, ast.Call) and mod.code(n.func) == name and len(n.args) == nargs

    def axis(n, k):
        return any(kw.arg == "axis" and isinstance(kw.value, ast.Constant) and kw.value.value == k for kw in n.keywords)

    if not (call(v, "numpy.cumsum") and not v.keywords):
        return False, "unmodelled: outermost operation is not numpy.cumsum: %s" % mod.code(v)[:80]
    x = v.args[0]
    if not (call(x, "numpy.sqrt") and call(x.args[0], "numpy.sum") and axis(x.args[0], 1)):
        return False, "unmodelled: not sqrt(sum(.., axis=1)): %s" % mod.code(x)[:80]
    sq = x.args[0].args[0]
    if isinstance(sq, ast.BinOp) and isinstance(sq.op, ast.Pow) and isinstance(sq.right, ast.Constant) and sq.right.value == 2:
        d = sq.left
    elif isinstance(sq, ast.BinOp) and isinstance(sq.op, ast.Mult) and mod.code(sq.left) == mod.code(sq.right):
        d = sq.left
    else:
        return False, "unmodelled: summand is not a square: %s" % mod.code(sq)[:80]
    if call(d, "numpy.diff") and mod.code(d.args[0]) == "self.positions":
        ok = axis(d, 0) and not any(kw.arg == "n" for kw in d.keywords)
        return ok, "" if ok else "numpy.diff not along the point axis: %s" % mod.code(d)
    if isinstance(d, ast.BinOp) and isinstance(d.op, ast.Sub) and all(isinstance(z, ast.Subscript) and mod.code(z.value) == "self.positions" for z in (d.left, d.right)):
        ok = mod.code(d.left.slice) in ("1:", "1:None") and mod.code(d.right.slice) in (":-1", "None:-1", "0:-1")
        return ok, "" if ok else "difference %s is not between consecutive points" % mod.code(d)
    return False, "unmodelled: displacement %s" % mod.code(d)[:80]


def _nearer_neighbour(test):
    """`i1 + 1` / `i1 - 1`: the neighbour whose segment is nearer when `test` holds, for tests
    of the form [not] closest_approach(.., positions[i1 +- 1]) <op> closest_approach(.., positions[i1 -+ 1])"""
    neg = False
    while isinstance(test, ast.UnaryOp) and isinstance(test.op, ast.Not):
        neg, test = not neg, test.operand
    if not (isinstance(test, ast.Compare) and len(test.ops) == 1):
        return None
    sides = []
    for x in (test.left, test.comparators[0]):
        if not (isinstance(x, ast.Call) and ast.unparse(x.func).endswith("closest_approach")):
            return None
        t = ast.unparse(x).replace(" ", "")
        plus, minus = "[i1+1]" in t, "[i1-1]" in t
        if plus == minus:
            return None
        sides.append("i1 + 1" if plus else "i1 - 1")
    if sides[0] == sides[1]:
        return None
    op = test.ops[0]
    if isinstance(op, (ast.Lt, ast.LtE)):
        first_nearer = True
    elif isinstance(op, (ast.Gt, ast.GtE)):
        first_nearer = False
    else:
        return None
    if neg:
        first_nearer = not first_nearer
    return sides[0] if first_nearer else sides[1]


def neighbour_rules(mod, rep):
    """FineContour.getDistance interpolates between the closest fine point i1 and one of its
    neighbours i1-1 / i1+1.  A neighbour may be ruled out only because it does not exist (index
    below 0 or beyond the last point of the *array*) - the fine contour extends past startInd /
    endInd exactly so that guard-cell points are interpolated, not extrapolated; where both exist
    the choice is by the closest approach to the two adjacent segments.

    Decided over the finite set of orderings of i1 against 0 and n-1: the index tests are
    evaluated for n in 2..6 and every i1 in range(n) (they are comparisons of i1 +- const with
    the array length, nothing else is accepted), the geometric test is left free."""
    from ..stores import effects
    g = mod.funcs.get("FineContour.getDistance")
    if g is None:
        raise AnalysisError("FineContour.getDistance not found")
    stores = [e for e in effects(g.node, inline=True, keep=("i1", "distance_from_points"), calls=True) if e.kind == "store" and isinstance(e.target, ast.Name) and e.target.id == "i2"]
    if not stores:
        raise AnalysisError("FineContour.getDistance: no store to i2 (the second interpolation point)")
    lengths = {K("len(distance_from_points)"), K("len(self.positions)"), K("self.positions.shape[0]"), K("distance_from_points.shape[0]"), K("len(self.distance)"),
               K("self.distance.shape[0]"), K("len(self)"), K("self.positions.shape[0]")}
    # distance_from_points is a temporary that inlining replaces by its definition
    def is_length(node):
        t = mod.code(node)
        if t in lengths:
            return True
        if isinstance(node, ast.Call) and mod.code(node.func) == "len" and len(node.args) == 1:
            inner = mod.code(node.args[0])
            return inner.startswith("numpy.sqrt(numpy.sum((self.positions") or inner.startswith("numpy.linalg.norm(self.positions")
        return False

    class _Len(ast.NodeTransformer):
        def generic_visit(self, node):
            if is_length(node):
                return ast.copy_location(ast.Name(id="__n", ctx=ast.Load()), node)
            return super().generic_visit(node)

    def closed(node):
        """compiled test over (i1, n), or None when it reads anything else"""
        t = ast.fix_missing_locations(_Len().visit(ast.parse(ast.unparse(node), mode="eval")))
        names = {x.id for x in ast.walk(t) if isinstance(x, ast.Name)}
        if not names <= {"i1", "__n"} or any(isinstance(x, (ast.Call, ast.Attribute, ast.Subscript)) for x in ast.walk(t)):
            return None
        return compile(t, "<test>", "eval")

    bad, unknown = [], []
    arms = []
    for e in stores:
        idx, geo = [], False
        for c in e.conds:
            if isinstance(c, str):
                unknown.append("store inside a loop/marker %s" % c)
                continue
            text = mod.code(c)
            if "endInd" in text or "startInd" in text:
                bad.append("neighbour chosen by `%s`: the start/end marker is not where the fine contour ends" % text[:80])
                continue
            if "closest_approach(" in text:
                geo = True
                want_v = _nearer_neighbour(c)
                if want_v is None:
                    unknown.append("geometric test `%s`" % text[:80])
                elif K(want_v) != mod.code(e.value):
                    bad.append("under `%s` the nearer adjacent segment ends at %s but the second point is %s" % (ast.unparse(c)[:90], want_v, ast.unparse(e.value)))
                continue
            k = closed(c)
            if k is None:
                unknown.append("test `%s`" % text[:80])
            else:
                idx.append(k)
        v = closed(e.value)
        if v is None:
            unknown.append("value `%s`" % mod.code(e.value)[:60])
        arms.append((idx, geo, v, mod.code(e.value)))
    problems = []
    if not bad and not unknown:
        for n in range(2, 7):
            for i1 in range(n):
                envv = {"i1": i1, "__n": n}
                live = [(geo, eval(v, {}, envv), txt) for idx, geo, v, txt in arms if all(eval(k, {}, envv) for k in idx)]
                vals = {x[1] for x in live}
                want = {j for j in (i1 - 1, i1 + 1) if 0 <= j < n}
                if vals != want:
                    problems.append("n=%d i1=%d: second point in %s, neighbours that exist are %s" % (n, i1, sorted(vals), sorted(want)))
                elif len(want) == 2 and not all(geo for geo, _, _ in live):
                    problems.append("n=%d i1=%d: both neighbours exist but the choice is not by closest approach" % (n, i1))
    ok = not bad and not unknown and not problems
    detail = ("definite: " + "; ".join(bad)) if bad else ("not representable: " + "; ".join(unknown[:3])) if unknown else ("definite: " + "; ".join(problems[:3])) if problems else \
        "%d stores to i2 replayed for n=2..6, every i1" % len(arms)
    rep.ob("R3", "getDistance: a neighbour of the closest fine point is ruled out only where the array ends; otherwise the nearer adjacent segment is taken", ok, g.site(),
           detail, key="dist/neighbour")


def reverse_rules(mod, rep):
    """FineContour.reverse: point k becomes point n-1-k, so the marked interval [startInd, endInd]
    becomes [n-1-endInd, n-1-startInd] and the distance of new point k is total - old distance of
    point n-1-k.  Decided by replaying the stores with symbols for the old state."""
    f = mod.funcs.get("FineContour.reverse")
    if f is None:
        raise AnalysisError("FineContour.reverse not found")
    from ..stores import effects
    ctx = Context()
    S, E, n = ctx.sym("S"), ctx.sym("E"), ctx.sym("n")
    state = {"self.startInd": S, "self.endInd": E}
    ex = Extractor(ctx, mod)
    ex.on_attr = lambda d, node, env: state.get(d, ctx.sym(d))
    ex.on_subscript = lambda node, value, env: n if mod.code(node) == K("self.positions.shape[0]") else ctx.sym(mod.code(node))
    ex.on_call = lambda node, fname, args, kwargs, env: n if mod.code(node) in (K("len(self.positions)"), K("len(self)")) else ctx.sym(mod.code(node))
    env = {}
    texts = {}
    try:
        effs = [e for e in effects(f.node, inline=False) if e.kind == "store"]
        k = 0
        while k < len(effs):
            # the stores of one statement (`a, b = x, y`) happen at once: all right-hand sides are
            # evaluated in the state before any of them is stored
            group = [e for e in effs[k:] if e.node is effs[k].node]
            k += len(group)
            pending = []
            for e in group:
                t = mod.code(e.target)
                texts[t] = mod.code(e.value)
                if t in ("self.distance", "self.positions"):
                    continue
                pending.append((e, t, ex.expr(e.value, env)))
            for e, t, v in pending:
                if isinstance(e.target, ast.Name):
                    env[t] = v
                else:
                    state[t] = v
        ok = (state["self.startInd"] - (n - 1 - E)).is_zero() and (state["self.endInd"] - (n - 1 - S)).is_zero()
        detail = "startInd -> %s, endInd -> %s" % (state["self.startInd"].show(), state["self.endInd"].show())
    except AlgError as e:
        ok, detail = False, "not representable: %s" % e
    rep.ob("R3", "reversing a fine contour maps [startInd, endInd] to [n-1-endInd, n-1-startInd]", ok, f.site(), detail, key="dist/reverse/indices")
    ok = texts.get("self.distance") == K("self.distance[-1] - self.distance[::-1]") and texts.get("self.positions") in (K("self.positions[::-1, :]"), K("self.positions[::-1]"))
    rep.ob("R3", "reversing a fine contour reverses the points and re-measures the distance from the new first point (total - old, reversed)", ok, f.site(),
           "distance: %s; positions: %s" % (texts.get("self.distance"), texts.get("self.positions")), key="dist/reverse/distance")


def r3(prog, rep):
    mod = prog.module(EQ)
    f = mod.funcs.get("FineContour.calcDistance")
    if f is None:
        raise AnalysisError("FineContour.calcDistance not found")
    ok, detail = _chord_cumsum(mod, f)
    rep.ob("R3", "fine-contour distance is the cumulative sum of chord lengths between consecutive points, starting at 0", ok, f.site(), detail, key="dist/cumsum")
    zero = False
    for s in walk_own(f.node):
        if isinstance(s, ast.Assign) and mod.code(s.targets[0]) == "self.distance" and isinstance(s.value, ast.Call) and mod.code(s.value.func) == "numpy.zeros" and s.value.args:
            n = mod.code(inline_temporaries(f.node, s.value.args[0]))
            zero = n in (K("self.positions.shape[0]"), K("len(self.positions)"))
    rep.ob("R3", "distance[0] == 0 (array allocated as zeros, entries 1.. overwritten)", zero, f.site(), "", key="dist/zero")
    reverse_rules(mod, rep)
    neighbour_rules(mod, rep)
    g = mod.funcs.get("FineContour.getDistance")
    if g is None:
        raise AnalysisError("FineContour.getDistance not found")
    ctx = Context()
    ex = Extractor(ctx, mod)
    ex.on_attr = lambda d, node, env: ctx.sym(d)
    ex.on_subscript = lambda node, value, env: ctx.sym(mod.code(node))
    env = {"d1": ctx.sym("d1"), "d2": ctx.sym("d2")}
    ret = None
    for s in g.node.body:
        if isinstance(s, ast.Assign) and isinstance(s.targets[0], ast.Name) and s.targets[0].id == "r":
            ex.stmt(s, env)
        if isinstance(s, ast.Return):
            ret = ex.expr(s.value, env)
    D1, D2 = ctx.sym("self.distance[i1]"), ctx.sym("self.distance[i2]")
    ok = isinstance(ret, Rat)
    if ok:
        w1 = ret.subs({D1.as_atom(): 1, D2.as_atom(): 0})
        w2 = ret.subs({D1.as_atom(): 0, D2.as_atom(): 1})
        ok = (w1 + w2 - 1).is_zero() and (ret.subs({"d1": 0}) - D1).is_zero() and (ret.subs({"d2": 0}) - D2).is_zero()
    rep.ob("R3", "point distance is a convex interpolation: weights sum to 1, equals the nearer point's distance when the point coincides with it", ok, g.site(),
           ret.show() if isinstance(ret, Rat) else str(ret), key="dist/interp")
