"""C18 derived fields are derivatives of the one interpolant (E3 differentiation).

R1 helper chain (Bzeta..dBdZ) are the formal R/Z derivatives of Bp_R, Bp_Z, Bzeta, B2, B;
   div B == 0.  Per interpolation arm.
R2 DCT_2D: the summands of ddR, ddZ, d2dR2, d2dZ2, d2dRdZ are the formal derivatives of
   __call__'s summand under dR*(nR-1)=Rsize, dZ*(nZ-1)=Zsize; normalisation of the
   coefficients matches the DCT-II/III inversion (node reproduction).
R3 location fan-out blocks mention one location each and cover all four.
R4 both arms of the interpolant builder define the same functions with the same meaning.
R5 fpolprime is d(fpol)/dpsi in every Equilibrium implementation.
R6 the functions the interpolant builder defines keep nothing between calls: no store to
   (or in-place change of) a variable of the enclosing scope, the equilibrium or a module
   global.  A kept reference to the caller's argument array is a definite violation; any
   other kept state is reported as undecided.
Not decided: interpolation error, agreement of the two methods on data.
"""
import ast

from ..alg import AlgError, Context, Rat
from ..extract import Extractor, Closure, Opaque, _dotted
from ..classex import ClassEx, class_methods
from ..model import Program, walk_own, is_self_attr
from ..report import AnalysisError
from . import common

EQ = common.EQ
DCT = "hypnotoad/utils/dct_interpolation.py"
MLA = "hypnotoad/core/multilocationarray.py"
LOCS = ("centre", "xlow", "ylow", "corners")


def run(rep, tier):
    prog = Program()
    common.set_prog(prog)
    rep.analysed_add("files", [EQ, DCT, MLA, "hypnotoad/cases/tokamak.py", "hypnotoad/cases/circular.py", "hypnotoad/cases/torpex.py"])
    rep.trust("RectBivariateSpline.__call__(x,y,dx=a,dy=b,grid=False) is the (a,b) partial derivative of the spline (scipy)")
    rep.trust("numpy.clip(R,Rmin,Rmax) is the identity inside the domain")
    r1_r4(prog, rep)
    r2(prog, rep)
    r3(prog, rep)
    r5(prog, rep)
    evaluator_state_rule(prog, rep)
    rep.undecided("interpolation error; agreement of spline and DCT on data")
    return __doc__


def interpolant_obligations(rep, rule, label, ctx, call, site):
    """call(name, (R,Z)) -> Rat ; checks the defining relations against psi partials"""
    R, Z = ctx.sym("R"), ctx.sym("Z")
    P = lambda a, b: common.psi_partial(ctx, a, b, R, Z)
    g2 = P(1, 0) ** 2 + P(0, 1) ** 2
    want = {
        "psi": P(0, 0),
        "Bp_R": P(0, 1) / R,
        "Bp_Z": -P(1, 0) / R,
        "f_R": P(1, 0) / g2,
        "f_Z": P(0, 1) / g2,
        "d2psidR2": P(2, 0),
        "d2psidZ2": P(0, 2),
        "d2psidRdZ": P(1, 1),
    }
    vals = {}
    for name, w in want.items():
        try:
            v = call(name, (R, Z))
            ok = isinstance(v, Rat) and (v - w).is_zero()
            detail = "found %s ; expected %s" % (v.show(160) if isinstance(v, Rat) else v, w.show(160))
        except AlgError as e:
            ok, detail, v = False, "not extractable: %s" % e, None
        vals[name] = v
        rep.ob(rule, "%s: %s == %s" % (label, name, w.show(80)), ok, site, detail, key="%s/%s" % (label, name))
    return vals


def chain_obligations(rep, rule, label, ctx, call, site):
    R, Z = ctx.sym("R"), ctx.sym("Z")
    v = {}
    for n in common.EQ_METHODS + ("Bp_R", "Bp_Z"):
        try:
            v[n] = call(n, (R, Z))
        except AlgError as e:
            rep.ob(rule, "%s: %s extractable" % (label, n), False, site, str(e), key="%s/%s/extract" % (label, n))
            return
    B = ctx.call("sqrt", v["B2"])
    want = {
        "Bzeta": ctx.call("fpol", common.psi_partial(ctx, 0, 0, R, Z)) / R,
        "B2": v["Bp_R"] ** 2 + v["Bp_Z"] ** 2 + v["Bzeta"] ** 2,
        "dBzetadR": v["Bzeta"].diff("R"),
        "dBzetadZ": v["Bzeta"].diff("Z"),
        "dBRdR": v["Bp_R"].diff("R"),
        "dBRdZ": v["Bp_R"].diff("Z"),
        "dBZdR": v["Bp_Z"].diff("R"),
        "dBZdZ": v["Bp_Z"].diff("Z"),
        "dB2dR": v["B2"].diff("R"),
        "dB2dZ": v["B2"].diff("Z"),
        "dBdR": B.diff("R"),
        "dBdZ": B.diff("Z"),
    }
    for n, w in want.items():
        d = v[n] - w
        rep.ob(rule, "%s: %s is the formal derivative/definition" % (label, n), d.is_zero(), site,
               "residual " + d.residual()[:300], key="%s/%s" % (label, n))
    div = (R * v["Bp_R"]).diff("R") / R + v["Bp_Z"].diff("Z")
    rep.ob(rule, "%s: div B == (1/R) d(R B_R)/dR + dB_Z/dZ == 0" % label, div.is_zero(), site, "residual " + div.residual()[:200], key=label + "/divB")
    # the two derivative helpers used for dB agree with d(B2) = 2 B dB
    return v


def r1_r4(prog, rep):
    rep.rule("R1", "helper chain Bzeta..dBdZ equals formal derivatives of Bp_R, Bp_Z, Bzeta, B2, sqrt(B2); div B = 0")
    rep.rule("R4", "each arm of the interpolant builder defines psi, f_R, f_Z, Bp_R, Bp_Z, d2psi* with their defining relations")
    names = {}
    for option in ("spline", "dct"):
        ctx = Context()
        common.declare_equilibrium(ctx)
        model = common.EqModel(prog, ctx, option)
        site = model.builder.site()
        rep.analysed_add("functions", [site])
        interpolant_obligations(rep, "R4", option, ctx, model.call, site)
        names[option] = set(n for n in model.defs if n in common.EQ_FUNCS)
        chain_obligations(rep, "R1", option, ctx, model.call, prog.module(EQ).rel + " (Equilibrium helper chain)")
        if model.ex.clipped:
            rep.assume("f_R/f_Z clip their arguments to the data domain; identities are for points inside it")
        if option == "spline":
            # ... which is only true if each clamp uses the bounds of the axis its coordinate runs along
            for c, fname, ok, detail in common.clip_bound_sites(model.builder):
                rep.ob("R4", "%s: clamp bound of `%s` is the min/max of the grid axis that coordinate runs along" % (fname, model.builder.module.code(c.args[0]) if c.args else "?"), ok,
                       model.builder.site(c), detail, key="clip/%s/%s" % (fname, model.builder.module.code(c.args[0]) if c.args else "?"))
    rep.ob("R4", "both arms define the same function set", names["spline"] == names["dct"], "", str(names), key="arms/same-names")


# ---------------------------------------------------------------------------------
class DctEx(Extractor):
    def on_attr(self, d, node, env):
        return self.ctx.sym(d)

    def on_call(self, node, fname, args, kwargs, env):
        if fname in ("numpy.sum", "np.sum"):
            return args[0]
        if fname in ("numpy.array", "np.array"):
            return args[0]
        if fname == "isinstance":
            return False
        if fname == "len":
            return Opaque("len")
        raise AlgError("unmodelled call %s" % fname)


def dct_summand(prog, ctx, mname):
    mod = prog.module(DCT)
    f = mod.funcs.get("DCT_2D." + mname)
    if f is None:
        raise AnalysisError("DCT_2D.%s not found" % mname)
    ex = DctEx(ctx, mod)
    env = {"R": ctx.sym("R"), "Z": ctx.sym("Z")}
    inner = None
    for s in f.node.body:
        if isinstance(s, ast.FunctionDef):
            inner = s
            continue
        if isinstance(s, ast.Assign) and isinstance(s.targets[0], ast.Name) and s.targets[0].id in ("iR", "iZ"):
            ex.stmt(s, env)
    if inner is None or "iR" not in env or "iZ" not in env:
        raise AnalysisError("DCT_2D.%s: index-space statements or inner evaluator not found" % mname)
    # find the `result[...] = +-numpy.sum(...)` statement
    tgt = None
    for n in ast.walk(inner):
        if isinstance(n, ast.Assign) and isinstance(n.targets[0], ast.Subscript):
            tgt = n
    if tgt is None:
        raise AnalysisError("DCT_2D.%s: summation statement not found" % mname)
    # the loop variables ir, iz iterate over this_iR, this_iZ which are iR, iZ at a location
    loopvars = None
    for n in ast.walk(inner):
        if isinstance(n, ast.For) and isinstance(n.target, ast.Tuple):
            loopvars = [e.id for e in n.target.elts]
    params = [a.arg for a in inner.args.args]
    if loopvars is None or len(loopvars) < 2 or len(params) != 2:
        raise AnalysisError("DCT_2D.%s: nditer loop shape not understood" % mname)
    env[loopvars[0]] = env["iR"]
    env[loopvars[1]] = env["iZ"]
    # the call sites pass (iR.<loc>, iZ.<loc>) in this order
    for n in walk_own(f.node):
        if isinstance(n, ast.Call) and isinstance(n.func, ast.Name) and n.func.id == inner.name:
            a0, a1 = [ex.text(a) for a in n.args]
            if not (a0.startswith("iR") and a1.startswith("iZ")):
                raise AlgError("evaluator called with swapped index arrays: %s, %s" % (a0, a1))
    return ex.expr(tgt.value, env), f


def r2(prog, rep):
    rep.rule("R2", "DCT_2D derivative summands are formal derivatives of the __call__ summand (dR*(nR-1)=Rsize, dZ*(nZ-1)=Zsize); coefficient normalisation matches DCT-II/III inversion")
    ctx = Context()
    dR, dZ = ctx.sym("self.dR"), ctx.sym("self.dZ")
    nR, nZ = ctx.sym("self.nR"), ctx.sym("self.nZ")
    ctx.add_relation(ctx.sym("self.Rsize"), 1, dR * (nR - 1), "uniform grid: Rsize = Rarray[-1]-Rarray[0] = (nR-1)*dR, enforced by the linspace guard in __init__")
    ctx.add_relation(ctx.sym("self.Zsize"), 1, dZ * (nZ - 1), "uniform grid, as for R")
    rep.relations = rep.relations + list(ctx.relation_notes)
    base, f0 = dct_summand(prog, ctx, "__call__")
    rep.analysed_add("functions", [f0.site()])
    want = {
        "ddR": base.diff("R"),
        "ddZ": base.diff("Z"),
        "d2dR2": base.diff("R").diff("R"),
        "d2dZ2": base.diff("Z").diff("Z"),
        "d2dRdZ": base.diff("R").diff("Z"),
    }
    for m, w in want.items():
        try:
            v, f = dct_summand(prog, ctx, m)
            d = v - w
            rep.ob("R2", "DCT_2D.%s summand == formal derivative of __call__ summand" % m, d.is_zero(), f.site(),
                   "found %s ; expected %s" % (v.show(200), w.reduced().show(200)), key="dct/" + m)
        except AlgError as e:
            rep.ob("R2", "DCT_2D.%s summand extractable" % m, False, DCT, str(e), key="dct/" + m)
    # evaluating the interpolant must not change it: no evaluation method (nor a function nested
    # in it) stores to an attribute of self or modifies in place an object reached from self
    # (`c = self.psiDCT; c *= k` rescales the stored coefficients for every later call)
    from ..effects import param_mutations
    mod_ = prog.module(DCT)
    npure = 0
    for m in ("__call__", "ddR", "ddZ", "d2dR2", "d2dZ2", "d2dRdZ"):
        fm = mod_.funcs.get("DCT_2D." + m)
        if fm is None:
            raise AnalysisError("DCT_2D.%s not found" % m)
        bad = []
        for fn in [fm.node] + [n for n in ast.walk(fm.node) if isinstance(n, (ast.FunctionDef, ast.Lambda)) and n is not fm.node and isinstance(n, ast.FunctionDef)]:
            for node, who, kind in param_mutations(fn, mod_, extra_owned=("self",)):
                if who == "self" or who not in [a.arg for a in fn.args.args]:
                    bad.append((node, who, kind))
            for n in walk_own(fn):
                if isinstance(n, (ast.Assign, ast.AugAssign)):
                    for t in (n.targets if isinstance(n, ast.Assign) else [n.target]):
                        b = t
                        while isinstance(b, (ast.Attribute, ast.Subscript)):
                            b = b.value
                        if isinstance(t, (ast.Attribute, ast.Subscript)) and isinstance(b, ast.Name) and b.id == "self" and (n, "self", "store") not in [(x[0], x[1], "store") for x in bad]:
                            bad.append((n, "self", "store to the interpolant's own state"))
        npure += 1
        rep.ob("R2", "DCT_2D.%s does not modify the interpolant (no store to self, no in-place change of an object reached from self)" % m, not bad,
               fm.site(bad[0][0]) if bad else fm.site(), "; ".join("%s: %s" % (mod_.code(n_)[:60], k) for n_, w, k in bad[:3]), key="dct/pure/" + m)
    rep.floor("R2.pure-methods", npure, 6)
    # normalisation in __init__
    mod = prog.module(DCT)
    init = mod.funcs.get("DCT_2D.__init__")
    if init is None:
        raise AnalysisError("DCT_2D.__init__ not found")
    facts = dct_init_facts(mod, init)
    for k, (ok, detail) in facts.items():
        rep.ob("R2", "DCT_2D.__init__: " + k, ok, init.site(), detail, key="dct/init/" + k)
    # node reproduction: at R = Rmin + j*dR the phase is coef*(j+1/2)
    j = ctx.sym("j")
    iR = None
    ex = DctEx(ctx, mod)
    env = {"R": ctx.sym("self.Rmin") + j * dR, "Z": ctx.sym("self.Zmin") + j * dZ}
    for s in f0.node.body:
        if isinstance(s, ast.Assign) and isinstance(s.targets[0], ast.Name) and s.targets[0].id in ("iR", "iZ"):
            ex.stmt(s, env)
    for nm in ("iR", "iZ"):
        v = env.get(nm)
        ok = isinstance(v, Rat) and (v - j).is_zero()
        rep.ob("R2", "index-space coordinate %s equals j at node j" % nm, ok, f0.site(), (v.reduced().show() if isinstance(v, Rat) else str(v)), key="dct/node/" + nm)
    # the __call__ summand has the DCT-III form c * cos(kR*(iR+1/2)) * cos(kZ*(iZ+1/2))
    c, kR, kZ = ctx.sym("self.psiDCT"), ctx.sym("self.coef_R"), ctx.sym("self.coef_Z")
    iRv = (ctx.sym("R") - ctx.sym("self.Rmin")) / ctx.sym("self.Rsize") * (nR - 1)
    iZv = (ctx.sym("Z") - ctx.sym("self.Zmin")) / ctx.sym("self.Zsize") * (nZ - 1)
    half = ctx.const(1) / 2
    form = c * ctx.call("cos", kR * (iRv + half)) * ctx.call("cos", kZ * (iZv + half))
    rep.ob("R2", "__call__ summand == psiDCT*cos(coef_R*(iR+1/2))*cos(coef_Z*(iZ+1/2))", (base - form).is_zero(), f0.site(), base.show(200), key="dct/call-form")


def dct_init_facts(mod, init):
    """structural facts about coefficient normalisation, from __init__'s statements"""
    facts = {}
    src = {}
    for s in walk_own(init.node):
        if isinstance(s, (ast.Assign, ast.AugAssign)):
            t = s.targets[0] if isinstance(s, ast.Assign) else s.target
            txt = " ".join(mod.text(t).split())
            src.setdefault(txt, []).append(s)
    # transform along both axes with the default (type II, unnormalised) transform
    ok = False
    detail = ""
    for s in src.get("self.psiDCT", []):
        if isinstance(s, ast.Assign) and isinstance(s.value, ast.Call) and _dotted(s.value.func) == "dct":
            outer = s.value
            inner = outer.args[0] if outer.args else None
            if isinstance(inner, ast.Call) and _dotted(inner.func) == "dct":
                ax = set()
                extra = []
                for c in (outer, inner):
                    for k in c.keywords:
                        if k.arg == "axis" and isinstance(k.value, ast.Constant):
                            ax.add(k.value.value)
                        else:
                            extra.append(k.arg)
                ok = ax == {0, 1} and not extra and len(outer.args) == 1 and len(inner.args) == 1
                detail = "axes %s extra keywords %s" % (sorted(ax), extra)
    facts["coefficients are the type-II transform along both axes (no norm=, no type=)"] = (ok, detail)
    ctx = Context()
    ex = DctEx(ctx, mod)

    def rhs_of_division():
        for s in src.get("self.psiDCT", []):
            if isinstance(s, ast.Assign) and isinstance(s.value, ast.BinOp) and isinstance(s.value.op, ast.Div):
                try:
                    v = ex.expr(s.value, {})
                    return v
                except AlgError:
                    return None
            if isinstance(s, ast.AugAssign) and isinstance(s.op, ast.Div):
                try:
                    return ctx.sym("self.psiDCT") / ex.expr(s.value, {})
                except AlgError:
                    return None
        return None

    v = rhs_of_division()
    ok = isinstance(v, Rat) and (v - ctx.sym("self.psiDCT") / (ctx.sym("self.nR") * ctx.sym("self.nZ"))).is_zero()
    facts["coefficients divided by nR*nZ"] = (ok, v.show() if isinstance(v, Rat) else "division statement not found")
    for key, want in (("self.psiDCT[0, :]", "zero-frequency row halved"), ("self.psiDCT[:, 0]", "zero-frequency column halved")):
        ok = False
        detail = "statement not found"
        for s in src.get(key, []):
            if isinstance(s, ast.AugAssign) and isinstance(s.op, ast.Div):
                try:
                    c = ex.expr(s.value, {}).as_const()
                    ok = c == 2
                    detail = "divided by %s" % c
                except AlgError as e:
                    detail = str(e)
        facts[want] = (ok, detail)
    # frequencies pi*k/N, R along axis 1 (columns), Z along axis 0 (rows) after the transpose
    for nm, n, axis in (("self.coef_R", "self.nR", 1), ("self.coef_Z", "self.nZ", 0)):
        ok = False
        detail = "statement not found"
        for s in src.get(nm, []):
            if isinstance(s, ast.Assign) and isinstance(s.value, ast.Subscript):
                sub = s.value
                idx = [" ".join(mod.text(e).split()) for e in (sub.slice.elts if isinstance(sub.slice, ast.Tuple) else [sub.slice])]
                ex2 = ArangeEx(ctx, mod)
                try:
                    v = ex2.expr(sub.value, {})
                    good_val = (v - ctx.sym("pi") * ctx.sym("k(%s)" % n) / ctx.sym(n)).is_zero()
                except AlgError as e:
                    good_val = False
                    v = str(e)
                want_idx = ["numpy.newaxis", ":"] if axis == 1 else [":", "numpy.newaxis"]
                ok = good_val and idx == want_idx
                detail = "value %s index %s" % (v.show() if isinstance(v, Rat) else v, idx)
        facts["%s == pi*k/%s varying along axis %d" % (nm.split(".")[1], n.split(".")[1], axis)] = (ok, detail)
    # grid scalars used by the evaluators: origin, extent, spacing of each axis from that axis' own array
    for nm, want in (("self.dR", "self.Rarray[1]-self.Rarray[0]"), ("self.dZ", "self.Zarray[1]-self.Zarray[0]"), ("self.Rmin", "self.Rarray[0]"), ("self.Zmin", "self.Zarray[0]"),
                     ("self.Rsize", "self.Rarray[-1]-self.Rarray[0]"), ("self.Zsize", "self.Zarray[-1]-self.Zarray[0]")):
        got = [mod.code(s.value) for s in src.get(nm, []) if isinstance(s, ast.Assign)]
        facts["%s == %s" % (nm[5:], want.replace("self.", ""))] = (got == [want], "found %s" % got)
    for nm, arr in (("self.nR", "Rarray"), ("self.nZ", "Zarray")):
        got = [mod.code(s.value) for s in src.get(nm, []) if isinstance(s, ast.Assign)]
        facts["%s is the length of %s" % (nm[5:], arr)] = (bool(got) and all(g in ("len(%s)" % arr, "len(self.%s)" % arr, "self.%s.shape[0]" % arr, "%s.shape[0]" % arr, "self.%s.size" % arr, "%s.size" % arr) for g in got), "found %s" % got)
    # psiRZ transposed once so that rows are Z
    tr = [s for s in src.get("psiRZ", []) if isinstance(s, ast.Assign) and " ".join(mod.text(s.value).split()) == "psiRZ.T"]
    facts["input transposed exactly once (rows=Z, columns=R)"] = (len(tr) == 1, "%d transposes" % len(tr))
    # uniform-grid guard
    guards = 0
    for n in walk_own(init.node):
        if isinstance(n, ast.If) and any(isinstance(b, ast.Raise) for b in n.body):
            t = " ".join(mod.text(n.test).split())
            if "linspace" in t and ("Rarray" in t or "Zarray" in t):
                guards += 1
    facts["uniform-spacing guard (raise) for both axes"] = (guards >= 2, "%d guards" % guards)
    return facts


class ArangeEx(DctEx):
    def on_call(self, node, fname, args, kwargs, env):
        if fname in ("numpy.arange", "np.arange"):
            return self.ctx.sym("k(%s)" % self.text(node.args[0]))
        return super().on_call(node, fname, args, kwargs, env)


# ---------------------------------------------------------------------------------
def mla_rules(prog, rep, R="R3"):
    """the container itself: every location property reads, allocates and writes its own backing
    array, with the shape of that location (the assumption under the location-set analysis)"""
    mod = prog.module(MLA)
    shapes = {"centre": "[self.nx,self.ny]", "xlow": "[self.nx+1,self.ny]", "ylow": "[self.nx,self.ny+1]", "corners": "[self.nx+1,self.ny+1]",
              "lower_right_corners": "[self.nx+1,self.ny+1]", "upper_right_corners": "[self.nx+1,self.ny+1]", "upper_left_corners": "[self.nx+1,self.ny+1]"}
    cls = mod.classes.get("MultiLocationArray")
    if cls is None:
        raise AnalysisError("MultiLocationArray not found")
    n = 0
    for fn in cls.body:
        if not isinstance(fn, ast.FunctionDef) or fn.name not in shapes:
            continue
        n += 1
        loc = fn.name
        role = "setter" if len(fn.args.args) == 2 else "getter"
        backing = sorted({x.attr for x in ast.walk(fn) if isinstance(x, ast.Attribute) and isinstance(x.value, ast.Name) and x.value.id == "self" and x.attr.startswith("_") and x.attr.endswith("_array")})
        allocs = [mod.code(c.args[0]) for c in ast.walk(fn) if isinstance(c, ast.Call) and _dotted(c.func) in ("numpy.zeros", "np.zeros") and c.args]
        ok = backing == ["_%s_array" % loc] and allocs == [shapes[loc]]
        if role == "getter":
            rets = [r for r in ast.walk(fn) if isinstance(r, ast.Return)]
            ok = ok and len(rets) == 1 and mod.code(rets[0].value) == "self._%s_array" % loc
        else:
            stores = [s for s in ast.walk(fn) if isinstance(s, ast.Assign) and isinstance(s.targets[0], ast.Subscript)]
            ok = ok and len(stores) == 1 and mod.code(stores[0].targets[0]) == "self._%s_array[...]" % loc and mod.code(stores[0].value) == fn.args.args[1].arg
        rep.ob(R, "MultiLocationArray.%s %s uses only its own backing array, allocated with shape %s" % (loc, role, shapes[loc]), ok, "%s:%d" % (MLA, fn.lineno),
               "backing %s alloc %s" % (backing, allocs), key="mla/%s/%s" % (loc, role))
    rep.floor(R + ".mla-properties", n, 14)
    cp = mod.funcs.get("MultiLocationArray.copy")
    copied = sorted({t.attr for s in ast.walk(cp.node) if isinstance(s, ast.Assign) for t in s.targets if isinstance(t, ast.Attribute) and isinstance(t.value, ast.Name) and t.attr in shapes}) if cp else []
    ok = copied == ["centre", "corners", "xlow", "ylow"] and all(mod.code(s.value) == "self.%s.copy()" % s.targets[0].attr for s in ast.walk(cp.node)
                                                             if isinstance(s, ast.Assign) and isinstance(s.targets[0], ast.Attribute) and s.targets[0].attr in shapes)
    rep.ob(R, "MultiLocationArray.copy copies each of the four locations from the same location", ok, cp.site() if cp else MLA, str(copied), key="mla/copy")
    # every construction site: MultiLocationArray(<x extent>, <y extent>) - the extents of one and
    # the same object in that order, or (<x extent>, 1) for an x-direction array
    nsites, bad = 0, []
    for m in prog.modules.values():
        for c in ast.walk(m.tree):
            if isinstance(c, ast.Call) and isinstance(c.func, ast.Name) and c.func.id == "MultiLocationArray" and len(c.args) == 2 and not c.keywords:
                nsites += 1
                a, b = c.args
                def ext(e):
                    """(object text, attribute, padding) of `X.nx` or `X.nx + k`"""
                    pad = 0
                    if isinstance(e, ast.BinOp) and isinstance(e.op, ast.Add) and isinstance(e.right, ast.Constant) and isinstance(e.right.value, int):
                        e, pad = e.left, e.right.value
                    return (m.code(e.value), e.attr, pad) if isinstance(e, ast.Attribute) else None
                ea, eb = ext(a), ext(b)
                good = ea is not None and ea[1] == "nx" and ((eb is not None and eb[1] == "ny" and eb[0] == ea[0] and eb[2] == ea[2]) or (isinstance(b, ast.Constant) and b.value == 1))
                if not good:
                    bad.append("%s:%d %s" % (m.rel, c.lineno, m.code(c)))
                    rep.ob(R, "MultiLocationArray is constructed with (X.nx [+ pad], X.ny [+ the same pad]) of one object, or (X.nx, 1)", False, "%s:%d" % (m.rel, c.lineno), m.code(c), key="mla/construct/%s/%s" % (m.rel, m.code(c)))
    rep.ob(R, "every MultiLocationArray construction passes the x extent first and the y extent second (%d sites)" % nsites, not bad, MLA, "; ".join(bad[:3]), key="mla/construct/all")
    rep.floor(R + ".mla-constructions", nsites, 30)


def r3(prog, rep):
    rep.rule("R3", "location fan-out: each per-location block mentions exactly one location; all four present")
    mla_rules(prog, rep, "R3")
    targets = []
    eqm = prog.module(EQ)
    f = eqm.funcs.get("Equilibrium.handleMultiLocationArray.handler")
    if f is None:
        raise AnalysisError("handleMultiLocationArray.handler not found")
    targets.append(f)
    dm = prog.module(DCT)
    for m in ("__call__", "ddR", "ddZ", "d2dR2", "d2dZ2", "d2dRdZ"):
        g = dm.funcs.get("DCT_2D." + m)
        if g is None:
            raise AnalysisError("DCT_2D.%s not found" % m)
        targets.append(g)
    mm = prog.module(MLA)
    u = mm.funcs.get("MultiLocationArray.__array_ufunc__")
    if u is None:
        raise AnalysisError("__array_ufunc__ not found")
    targets.append(u)
    n_blocks = 0
    for f in targets:
        seen = []
        for n in walk_own(f.node):
            if isinstance(n, ast.If):
                tl = _locs_in(n.test)
                if not tl:
                    continue
                bl = set()
                for b in n.body:
                    bl |= _locs_in(b)
                allm = tl | bl
                n_blocks += 1
                ok = len(allm) == 1
                rep.ob("R3", "%s: block guarded by %s mentions one location" % (f.qualname, sorted(tl)), ok, f.site(n),
                       "locations mentioned: %s" % sorted(allm), key="%s/%s" % (f.qualname, "+".join(sorted(tl))))
                seen.append(frozenset(allm))
        flat = set()
        for s in seen:
            flat |= s
        rep.ob("R3", "%s: all four locations handled" % f.qualname, flat == set(LOCS) and len(seen) == 4, f.site(),
               "blocks: %s" % [sorted(s) for s in seen], key=f.qualname + "/all4")
    rep.floor("R3.blocks", n_blocks, 32)


def _locs_in(node):
    out = set()
    for n in ast.walk(node):
        if isinstance(n, ast.Attribute):
            if n.attr in LOCS:
                out.add(n.attr)
            elif n.attr.startswith("_") and n.attr.endswith("_array") and n.attr[1:-6] in LOCS:
                out.add(n.attr[1:-6])
    return out


# ---------------------------------------------------------------------------------
def r5(prog, rep):
    rep.rule("R5", "fpolprime(psi) == d fpol(psi)/d psi in every Equilibrium implementation")
    count = 0
    # classes deriving from Equilibrium
    for rel, mod in prog.modules.items():
        for cname, cnode in mod.classes.items():
            bases = [b.id if isinstance(b, ast.Name) else getattr(b, "attr", None) for b in cnode.bases]
            if "Equilibrium" not in bases:
                continue
            count += 1
            ctx = Context()
            spl = spline_pairs(mod, cname)
            for fn, dfn in spl["derivative_pairs"]:
                ctx.declare_func(fn, (dfn,))
            ex = ClassEx(prog, ctx, cname)
            ex.spl = spl
            psi = ctx.sym("psi")
            variants = fpol_variants(prog, mod, cname, ex, ctx)
            if not variants:
                rep.ob("R5", "%s defines fpol and fpolprime" % cname, False, rel, "no definition found", key=cname + "/defs")
                continue
            for label, fp, fpp, site in variants:
                try:
                    a = fp(psi)
                    b = fpp(psi)
                    d = ex.num(b) - ex.num(a).diff("psi")
                    ok = d.is_zero()
                    detail = "fpol = %s ; fpolprime = %s ; d fpol/dpsi = %s" % (ex.num(a).show(120), ex.num(b).show(120), ex.num(a).diff("psi").show(120))
                except AlgError as e:
                    ok, detail = False, "not extractable: %s" % e
                rep.ob("R5", "%s%s: fpolprime == d fpol/d psi" % (cname, label), ok, site, detail, key="%s%s" % (cname, label))
    rep.floor("R5.classes", count, 3)


def spline_pairs(mod, cname):
    """`self.B = self.A.derivative()` pairs and lambda alternatives in the class"""
    pairs = []
    lambdas = {}
    for qn, f in mod.funcs.items():
        if f.cls != cname:
            continue
        for n in walk_own(f.node):
            if isinstance(n, ast.Assign) and is_self_attr(n.targets[0]):
                v = n.value
                if isinstance(v, ast.Call) and isinstance(v.func, ast.Attribute) and v.func.attr == "derivative" and is_self_attr(v.func.value) and not v.args:
                    pairs.append((v.func.value.attr, n.targets[0].attr))
                elif isinstance(v, ast.Lambda):
                    lambdas.setdefault(n.targets[0].attr, []).append((v, f, n))
    return {"derivative_pairs": pairs, "lambdas": lambdas}


def fpol_variants(prog, mod, cname, ex, ctx):
    """list of (label, fpol callable, fpolprime callable, site)"""
    out = []
    meths = class_methods(prog, cname)
    spl = ex.spl
    if "fpol" in meths and "fpolprime" in meths and meths["fpol"].cls == cname:
        # spline-backed: self.f_spl(u) is an opaque function whose derivative is the paired attribute
        pair_names = {a for a, b in spl["derivative_pairs"]} | {b for a, b in spl["derivative_pairs"]}

        class E(ClassEx):
            def on_call(self2, node, fname, args, kwargs, env):
                if fname and fname.startswith("self.") and fname[5:] in pair_names:
                    return ctx.call(fname[5:], *args)
                return ClassEx.on_call(self2, node, fname, args, kwargs, env)

        e = E(prog, ctx, cname)
        out.append(("", lambda p: e.call_method("fpol", [p]), lambda p: e.call_method("fpolprime", [p]), meths["fpolprime"].site()))
        # lambda alternatives assigned to the same spline attributes (e.g. empty fpol array)
        for a, b in spl["derivative_pairs"]:
            la, lb = spl["lambdas"].get(a, []), spl["lambdas"].get(b, [])
            for (na, fa, sa), (nb, fb, sb) in zip(la, lb):
                ca, cb = Closure(na, {}, e, a), Closure(nb, {}, e, b)
                out.append(("/%s=lambda" % a, (lambda p, ca=ca: e.call_closure(ca, [p], {})), (lambda p, cb=cb: e.call_closure(cb, [p], {})), fb.site(sb)))
    else:
        la, lb = spl["lambdas"].get("fpol", []), spl["lambdas"].get("fpolprime", [])
        for (na, fa, sa), (nb, fb, sb) in zip(la, lb):
            ca, cb = Closure(na, {}, ex, "fpol"), Closure(nb, {}, ex, "fpolprime")
            out.append(("/lambda", (lambda p, ca=ca: ex.call_closure(ca, [p], {})), (lambda p, cb=cb: ex.call_closure(cb, [p], {})), fb.site(sb)))
    return out


# ---------------------------------------------------------------------------------
def evaluator_state_rule(prog, rep, R="R6"):
    """A field function is a function of its argument only if nothing it (or a helper the
    builder defines next to it) writes survives the call.  Writes that survive: stores and
    in-place changes whose root is a free variable of the nested function, `self`, or a name
    declared nonlocal/global.  What the write keeps decides the verdict:
      - a reference to one of the function's own parameters (`memo["R"] = R`): definite - the
        caller's later in-place updates change what the interpolant compares with or returns;
      - anything else: the rule cannot decide whether the memo is keyed completely -> undecided.
    """
    from ..effects import param_mutations
    rep.rule(R, "functions defined by the interpolant builder (and the multi-location wrapper) keep no state between calls")
    mod = prog.module(EQ)
    builder = prog.unique_func_assigning(["Bp_R", "Bp_Z", "f_R", "f_Z"], EQ)
    hosts = [builder]
    for f in mod.funcs.values():
        if f.qualname.endswith(".handleMultiLocationArray"):
            hosts.append(f)
    nested = []
    for h in hosts:
        for n in ast.walk(h.node):
            if isinstance(n, ast.FunctionDef) and n is not h.node:
                nested.append((h, n))
    rep.floor(R + ".nested-functions", len(nested), 9)
    for h, fn in nested:
        a = fn.args
        params = [x.arg for x in a.posonlyargs + a.args + a.kwonlyargs] + ([a.vararg.arg] if a.vararg else []) + ([a.kwarg.arg] if a.kwarg else [])
        stored, declared = set(), set()
        for n in walk_own(fn):
            if isinstance(n, ast.Name) and isinstance(n.ctx, ast.Store):
                stored.add(n.id)
            if isinstance(n, (ast.Nonlocal, ast.Global)):
                declared.update(n.names)
        local = (set(params) | stored) - declared
        free = set()
        for n in walk_own(fn):
            if isinstance(n, ast.Name) and n.id not in local:
                free.add(n.id)
        free.discard("numpy")
        owned = sorted(free | ({"self"} if "self" in params else set()))
        bad = []
        for node, who, kind in param_mutations(fn, mod, extra_owned=tuple(owned)):
            if who in owned or who in declared:
                bad.append((node, who, kind))
        for n in walk_own(fn):
            if isinstance(n, (ast.Assign, ast.AugAssign)):
                for t in (n.targets if isinstance(n, ast.Assign) else [n.target]):
                    if isinstance(t, ast.Name) and t.id in declared:
                        bad.append((n, t.id, "rebinds a %s variable" % ("nonlocal/global")))
        label = "%s.%s" % (h.qualname.split(".")[-1], fn.name)
        if not bad:
            rep.ob(R, "%s keeps no state between calls" % label, True, h.site(fn), "free variables read: %s" % ", ".join(sorted(free)[:8]), key="stateless/" + label)
            continue
        # what is kept?
        reassigned = stored
        definite = None
        for node, who, kind in bad:
            v = getattr(node, "value", None)
            vals = [v] if v is not None else []
            if isinstance(node, ast.Expr) and isinstance(node.value, ast.Call):
                vals = list(node.value.args) + [k.value for k in node.value.keywords]
            for v in vals:
                cands = [v] + (list(v.elts) if isinstance(v, (ast.Tuple, ast.List)) else []) + (list(v.values) if isinstance(v, ast.Dict) else [])
                for c in cands:
                    if isinstance(c, ast.Name) and c.id in params and c.id != "self" and c.id not in reassigned:
                        definite = (node, who, c.id)
        node0, who0, kind0 = bad[0]
        if definite:
            node, who, pn = definite
            rep.ob(R, "%s keeps no state between calls" % label, False, h.site(node),
                   "definite: `%s` keeps a reference to the argument `%s` in `%s`, which outlives the call; the caller's in-place updates of that array then change what later calls compare with or return" % (mod.code(node)[:70], pn, who),
                   key="stateless/" + label)
        else:
            rep.ob(R, "%s keeps no state between calls" % label, False, h.site(node0),
                   "not representable: `%s` (%s of `%s`) survives the call; whether later results still depend on the argument only is not decided by this rule" % (mod.code(node0)[:70], kind0, who0),
                   key="stateless/" + label)
