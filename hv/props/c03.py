"""C03 field and profile values agree with the equilibrium (formula level).

R1 the geometry method computes Brxy=Bp_R(R,Z), Bzxy=Bp_Z(R,Z), Bpxy^2=Brxy^2+Bzxy^2,
   Btxy=fpol(psi)/R, Bxy^2=Bpxy^2+Btxy^2, psixy=psi(R,Z), pressure=region pressure(psixy).
R2 every Equilibrium implementation's Bp_R, Bp_Z, f_R, f_Z, d2psi* are the stated
   derivatives of its own psi (spline and dct arms; circular overrides).
R3 scalars: psi_axis=psi at first O-point, psi_bdry=psi at first X-point,
   Bt_axis=fpol(psi_axis)/R_axis; the writer writes exactly these.
R4 one sign for the grid: sign(Bpxy)=bpsign on every non-raising path of the sign block.
R5 private-flux reflection psi_leg + s*|psi-psi_leg|, s=sign(psi_sep[0]-psi_axis), and the
   closure holding it does not capture loop-assigned names late.
R6 extrapolated pressure/fpol are continuous at the junction and every name used on a path
   is assigned on it.
Not decided: interpolation accuracy; spline evaluation of the profiles.
"""
import ast

from ..alg import AlgError, Context, Rat
from ..extract import Extractor, Closure, Opaque, PathRaises, ReturnValue, _dotted
from ..classex import ClassEx
from ..model import Program, walk_own, is_self_attr, key_in, canon as K
from ..report import AnalysisError
from ..flow import possibly_undefined
from .. import effects
from . import common, c18

MESH = common.MESH
TOK = "hypnotoad/cases/tokamak.py"
CIRC = "hypnotoad/cases/circular.py"


def run(rep, tier):
    prog = Program()
    common.set_prog(prog)
    rep.analysed_add("files", [MESH, common.EQ, TOK, CIRC])
    rep.rule("R1", "field formulas of the geometry method")
    rep.rule("R2", "interpolant functions are the stated derivatives of psi (all implementations)")
    rep.rule("R3", "psi_axis, psi_bdry, Bt_axis definitions and writer names")
    rep.rule("R4", "sign(Bpxy)==bpsign on every non-raising path")
    rep.rule("R5", "private-flux reflection formula; no late-bound loop variables in the stored closure")
    rep.rule("R6", "extrapolated profiles continuous at the junction; definite assignment")
    r1_r4(prog, rep)
    r2(prog, rep)
    r3(prog, rep)
    r5(prog, rep)
    r6(prog, rep)
    # the profile functions evaluate their splines at psi*f_psi_sign: the splines must be built
    # on that same abscissa, with one sign convention for fpol, fpolprime and pressure
    # (rule instances of C16.R2)
    from ..report import Premise
    from . import c16
    rep.rule("R0", "premise: one psi sign/scale convention across the profile family (C16.R2)")
    c16.r2(prog, Premise(rep, "R0", "C16"))
    # a g-file equilibrium: the (R, Z) grid psi is attached to is the one the file format defines
    rep.rule("R7", "premise: read_geqdsk puts the file's psi on the grid the format defines (rleft..rleft+rdim, zmid-zdim/2..zmid+zdim/2, nx x ny points) (C17.R4)")
    from . import c17
    c17.r4(prog, Premise(rep, "R7", "C17"))
    rep.undecided("interpolation accuracy of psi, fpol and pressure splines")
    return __doc__


def r1_r4(prog, rep):
    fg1 = prog.unique_func_assigning(["Brxy", "Bzxy", "Bpxy", "Btxy"], MESH)
    rep.analysed_add("functions", [fg1.site()])
    live = 0
    for psi_decr in (True, False):
        for bp_neg in (True, False):
            ctx = Context()
            common.declare_equilibrium(ctx)
            common._models.clear()
            label = "psi %s outward, Bp.grad(y) %s" % ("decreasing" if psi_decr else "increasing", "<0" if bp_neg else ">=0")
            try:
                env = common.eval_geometry1(prog, ctx, fg1, psi_decr, bp_neg)
            except PathRaises:
                rep.ob("R4", "%s: inconsistent sign combination is refused (raise)" % label, psi_decr != bp_neg, fg1.site(), "", key="sign/%s/%s" % (psi_decr, bp_neg))
                continue
            live += 1
            rep.ob("R4", "%s: path is live only when the two signs agree" % label, psi_decr == bp_neg, fg1.site(), "", key="sign/%s/%s" % (psi_decr, bp_neg))
            R, Z = ctx.sym("R"), ctx.sym("Z")
            m = common.eq_model(prog, ctx, "spline")
            BR, BZ = m.call("Bp_R", (R, Z)), m.call("Bp_Z", (R, Z))
            psi = common.psi_partial(ctx, 0, 0, R, Z)
            bs = env.get("self.bpsign")
            Bp = env.get("self.Bpxy")
            want_bs = -1 if psi_decr else 1
            ok = isinstance(bs, Rat) and bs.as_const() == want_bs
            rep.ob("R4", "%s: bpsign == %+d" % (label, want_bs), ok, fg1.site(), "", key="bpsign/%s" % psi_decr)
            ok = isinstance(Bp, Rat) and isinstance(bs, Rat) and (Bp - bs * ctx.call("sqrt", BR * BR + BZ * BZ)).is_zero()
            rep.ob("R4", "%s: Bpxy == bpsign*sqrt(Brxy^2+Bzxy^2)" % label, ok, fg1.site(), Bp.show(160) if isinstance(Bp, Rat) else str(Bp), key="Bpxy-sign/%s" % psi_decr)
            checks = [
                ("psixy == psi(Rxy,Zxy)", env.get("self.psixy"), psi),
                ("Brxy == Bp_R(Rxy,Zxy)", env.get("self.Brxy"), BR),
                ("Bzxy == Bp_Z(Rxy,Zxy)", env.get("self.Bzxy"), BZ),
                ("Btxy == fpol(psixy)/Rxy", env.get("self.Btxy"), ctx.call("fpol", psi) / R),
            ]
            for nm, v, w in checks:
                ok = isinstance(v, Rat) and (v - w).is_zero()
                rep.ob("R1", "%s [%s]" % (nm, "bpsign=%+d" % want_bs), ok, fg1.site(), "found %s" % (v.show(120) if isinstance(v, Rat) else v), key="R1/%s/%s" % (nm.split(" ")[0], psi_decr))
            v = env.get("self.Bpxy")
            ok = isinstance(v, Rat) and (v * v - (BR * BR + BZ * BZ)).is_zero()
            rep.ob("R1", "Bpxy^2 == Brxy^2+Bzxy^2 [bpsign=%+d]" % want_bs, ok, fg1.site(), "", key="R1/Bpxy2/%s" % psi_decr)
            v = env.get("self.Bxy")
            Bt = env.get("self.Btxy")
            ok = isinstance(v, Rat) and isinstance(Bt, Rat) and (v * v - (BR * BR + BZ * BZ + Bt * Bt)).is_zero() and (v - ctx.call("sqrt", Bp * Bp + Bt * Bt)).is_zero()
            rep.ob("R1", "Bxy == sqrt(Bpxy^2+Btxy^2) [bpsign=%+d]" % want_bs, ok, fg1.site(), "", key="R1/Bxy/%s" % psi_decr)
    rep.floor("R4.live-paths", live, 2)
    # pressure: region pressure evaluated at psixy
    ok = False
    for s in walk_own(fg1.node):
        if isinstance(s, ast.Assign) and is_self_attr(s.targets[0], "pressure") and isinstance(s.value, ast.Call):
            c = s.value
            t = fg1.module.code(c.func)
            ok = t.endswith(".pressure") and "regions[self.equilibriumRegion.name]" in t and len(c.args) == 1 and is_self_attr(c.args[0], "psixy")
    rep.ob("R1", "pressure == (this region's pressure profile)(psixy)", ok, fg1.site(), "", key="R1/pressure")
    # the direction test uses Bp . (position(y+1) - position(y-1)) at one point of the grid
    src = " ".join(fg1.module.text(fg1.node).split())
    ctx = Context()
    ex = DotEx(ctx, fg1.module)
    v = None
    for s in walk_own(fg1.node):
        if isinstance(s, ast.Assign) and isinstance(s.targets[0], ast.Name) and s.targets[0].id == "Bp_dot_grady":
            try:
                v = ex.expr(s.value, {})
            except AlgError as e:
                v = str(e)
    ok = False
    if isinstance(v, Rat):
        w = ctx.sym("Brxy[c]") * (ctx.sym("Rxy[c+1]") - ctx.sym("Rxy[c-1]")) + ctx.sym("Bzxy[c]") * (ctx.sym("Zxy[c+1]") - ctx.sym("Zxy[c-1]"))
        ok = (v - w).is_zero()
    rep.ob("R4", "direction test is Bp . (x(y+1) - x(y-1)) at one grid point", ok, fg1.site(), v.show(200) if isinstance(v, Rat) else str(v), key="sign/dot")


class DotEx(Extractor):
    """self.F.centre[-1, self.ny // 2 + k] -> atom F[c+k]"""

    def on_subscript(self, node, value, env):
        base = node.value
        if isinstance(base, ast.Attribute) and base.attr == "centre" and is_self_attr(base.value):
            sl = node.slice
            if isinstance(sl, ast.Tuple) and len(sl.elts) == 2:
                t = self.text(sl.elts[1]).replace(" ", "")
                off = {"self.ny//2": "c", "self.ny//2+1": "c+1", "self.ny//2-1": "c-1"}.get(t)
                x = self.text(sl.elts[0]).replace(" ", "")
                if off and x == "-1":
                    return self.ctx.sym("%s[%s]" % (base.value.attr, off))
        raise AlgError("subscript " + self.text(node))


def r2(prog, rep):
    # spline and dct arms
    for option in ("spline", "dct"):
        ctx = Context()
        common.declare_equilibrium(ctx)
        common._models.clear()
        model = common.EqModel(prog, ctx, option)
        c18.interpolant_obligations(rep, "R2", option, ctx, model.call, model.builder.site())
    # circular overrides: psi = psi_r(r(R,Z))
    ctx = Context()
    opaque = {"psi_r": ("dpsidr_r",), "dpsidr_r": ("d2psidr2_r",), "d2psidr2_r": (None,)}
    ex = ClassEx(prog, ctx, "CircularEquilibrium", opaque=opaque)
    R, Z = ctx.sym("R"), ctx.sym("Z")
    site = CIRC + " (CircularEquilibrium)"
    try:
        psi = ex.call_method("psi", [R, Z])
    except AlgError as e:
        rep.ob("R2", "circular: psi extractable", False, site, str(e), key="circular/psi")
        return
    pR, pZ = psi.diff("R"), psi.diff("Z")
    g2 = pR * pR + pZ * pZ
    want = {
        "Bp_R": pZ / R,
        "Bp_Z": -pR / R,
        "f_R": pR / g2,
        "f_Z": pZ / g2,
        "d2psidR2": pR.diff("R"),
        "d2psidZ2": pZ.diff("Z"),
        "d2psidRdZ": pR.diff("Z"),
    }
    for nm, w in want.items():
        try:
            v = ex.call_method(nm, [R, Z])
            d = v - w
            ok = d.is_zero()
            detail = "residual " + d.residual()[:160]
        except AlgError as e:
            ok, detail = False, str(e)
        rep.ob("R2", "circular: %s is the stated derivative of psi = psi_r(r(R,Z))" % nm, ok, site, detail, key="circular/" + nm)
    # the radial profile functions are consistent for a constant safety factor
    ctx2 = Context()
    ex2 = ProfileEx(prog, ctx2, "CircularEquilibrium")
    x = ctx2.sym("x")
    try:
        p = ex2.profile("psi_r", x, ncoef=1)
        dp = ex2.profile("dpsidr_r", x, ncoef=1)
        d2p = ex2.profile("d2psidr2_r", x, ncoef=1)
        e1 = p.diff("x") - dp
        e2 = dp.diff("x") - d2p
        rep.ob("R2", "circular (constant q): d psi_r/dr == dpsidr_r", e1.is_zero(), site, "residual " + e1.residual()[:160], key="circular/profile-1")
        rep.ob("R2", "circular (constant q): d dpsidr_r/dr == d2psidr2_r", e2.is_zero(), site, "residual " + e2.residual()[:160], key="circular/profile-2")
    except AlgError as e:
        # never a silent pass: the two obligations are filed as not decided
        for k in ("circular/profile-1", "circular/profile-2"):
            rep.ob("R2", "circular (constant q): radial profile derivative chain (%s)" % k, False, site, "not representable: %s" % e, key=k)
    # the profile rules below model self.q / self.dqdr as q = a0 + a1 r^2, dq/dr = 2 a1 r: what the
    # two methods actually compute is decided here, as written, for one to three coefficients
    circular_q_rules(prog, rep, site)
    # quadratic safety factor q = a0 + a1 r^2 (closed form with a logarithm of nested radicals)
    from ..alg import radical_rewrite
    ctx3 = Context()
    ex3 = ProfileEx2(prog, ctx3, "CircularEquilibrium")
    x = ctx3.sym("x")
    try:
        p = ex3.profile("psi_r", x, ncoef=2)
        dp = ex3.profile("dpsidr_r", x, ncoef=2)
        d2p = ex3.profile("d2psidr2_r", x, ncoef=2)
        R0, a0, a1 = ctx3.sym("self.user_options.R0"), ctx3.sym("a0"), ctx3.sym("a1")
        S1, S2, S3 = ctx3.sym("sqrt[a1]"), ctx3.sym("sqrt[a0+a1*R0^2]"), ctx3.sym("sqrt[R0^2-x^2]")
        ctx3.add_relation(S1, 2, a1, "radical base")
        ctx3.add_relation(S2, 2, a0 + a1 * R0 ** 2, "radical base")
        ctx3.add_relation(S3, 2, R0 ** 2 - x ** 2, "radical base")
        bases = [(a1, S1), (a0 + a1 * R0 ** 2, S2), (R0 ** 2 - x ** 2, S3), (R0 ** 2, R0)]
        rep.assume("circular, q = a0 + a1 r^2: a1 > 0, a0 + a1 R0^2 > 0, 0 <= r < R0 (real square roots)")
        e1 = radical_rewrite(ctx3, p.diff("x") - dp, bases)
        e2 = radical_rewrite(ctx3, dp.diff("x") - d2p, bases)
        rep.ob("R2", "circular (q = a0 + a1 r^2): d psi_r/dr == dpsidr_r", e1.is_zero(), site, "residual " + e1.residual()[:160], key="circular/profile2-1")
        rep.ob("R2", "circular (q = a0 + a1 r^2): d dpsidr_r/dr == d2psidr2_r", e2.is_zero(), site, "residual " + e2.residual()[:160], key="circular/profile2-2")
    except AlgError as e:
        for k in ("circular/profile2-1", "circular/profile2-2"):
            rep.ob("R2", "circular (q = a0 + a1 r^2): radial profile derivative chain (%s)" % k, False, site, "not representable: %s" % e, key=k)


def circular_q_rules(prog, rep, site):
    """CircularEquilibrium.q is the even polynomial of its documentation, q(r) = a0 + a1 r^2 + a2 r^4 + ...,
    and dqdr is its formal derivative.  Both methods build `sum(c * f(e, x) for c, e in zip(coef_list,
    exponent_list))` with exponent_list a `range(...)` over len(coef_list); the range is evaluated for
    n = 1, 2, 3 coefficients and the sum formed symbolically."""
    mod = prog.module("hypnotoad/cases/circular.py")

    def polynomial(name, n):
        f = mod.funcs.get("CircularEquilibrium." + name)
        if f is None:
            raise AnalysisError("CircularEquilibrium.%s not found" % name)
        ctx = Context()
        x = ctx.sym("x")
        coefs = [ctx.sym("a%d" % k) for k in range(n)]
        # follow the statements of the `if not hasattr` block that apply to n coefficients
        body = next((st.body for st in f.node.body if isinstance(st, ast.If) and "hasattr" in mod.code(st.test)), None)
        if body is None:
            raise AlgError("cached-closure block not found")
        state = {"coef_list": list(coefs)}

        def pyval(e):
            """small integer / list evaluation of the bookkeeping expressions"""
            if isinstance(e, ast.Constant):
                return e.value
            if isinstance(e, ast.Name) and e.id in state:
                return state[e.id]
            if isinstance(e, ast.Call) and mod.code(e.func) == "len" and len(e.args) == 1:
                return len(pyval(e.args[0]))
            if isinstance(e, ast.Call) and mod.code(e.func) == "range":
                return list(range(*[pyval(a) for a in e.args]))
            if isinstance(e, ast.BinOp) and isinstance(e.op, (ast.Add, ast.Sub, ast.Mult)):
                a, b = pyval(e.left), pyval(e.right)
                return a + b if isinstance(e.op, ast.Add) else (a - b if isinstance(e.op, ast.Sub) else a * b)
            if isinstance(e, ast.Subscript) and isinstance(e.slice, ast.Slice):
                lo = pyval(e.slice.lower) if e.slice.lower is not None else None
                hi = pyval(e.slice.upper) if e.slice.upper is not None else None
                return pyval(e.value)[lo:hi]
            if isinstance(e, ast.Attribute) and mod.code(e) == "self.user_options.q_coefficients":
                return list(coefs)
            raise AlgError("unmodelled bookkeeping expression %s" % mod.code(e))

        result = [None]

        def run(stmts):
            for st in stmts:
                if isinstance(st, ast.Assign) and isinstance(st.targets[0], ast.Name):
                    state[st.targets[0].id] = pyval(st.value)
                elif isinstance(st, ast.If):
                    t = st.test
                    if isinstance(t, ast.Compare) and len(t.ops) == 1 and isinstance(t.ops[0], ast.Eq):
                        run(st.body if pyval(t.left) == pyval(t.comparators[0]) else st.orelse)
                    else:
                        raise AlgError("unmodelled test %s" % mod.code(t))
                elif isinstance(st, ast.FunctionDef):
                    rets = [r for r in ast.walk(st) if isinstance(r, ast.Return)]
                    if len(rets) != 1:
                        raise AlgError("closure with %d returns" % len(rets))
                    v = rets[0].value
                    arg = st.args.args[0].arg
                    if isinstance(v, ast.Constant):
                        result[0] = ctx.const(0) if v.value == 0 else None
                    elif isinstance(v, ast.Call) and mod.code(v.func) == "sum" and isinstance(v.args[0], ast.GeneratorExp):
                        g = v.args[0]
                        gen = g.generators[0]
                        if not (isinstance(gen.iter, ast.Call) and mod.code(gen.iter.func) == "zip" and isinstance(gen.target, ast.Tuple) and len(gen.target.elts) == 2):
                            raise AlgError("unmodelled sum %s" % mod.code(v))
                        cs, es = pyval(gen.iter.args[0]), pyval(gen.iter.args[1])
                        cn, en = gen.target.elts[0].id, gen.target.elts[1].id
                        ex = Extractor(ctx, mod)
                        tot = ctx.const(0)
                        for c, e in zip(cs, es):
                            tot = tot + ex.expr(g.elt, {cn: c, en: ctx.const(e), arg: x})
                        result[0] = tot
                    else:
                        raise AlgError("unmodelled closure body %s" % mod.code(v))
        run(body)
        if result[0] is None:
            raise AlgError("no closure value")
        return ctx, x, coefs, result[0]

    for n in (1, 2, 3):
        try:
            ctx, x, coefs, q = polynomial("q", n)
            want = ctx.const(0)
            for k, c in enumerate(coefs):
                want = want + c * x ** (2 * k)
            okq, dq_detail = (q - want).is_zero(), "residual " + (q - want).residual()[:160]
        except AlgError as e:
            okq, dq_detail = False, "not representable: %s" % e
        rep.ob("R2", "circular: q(r) with %d coefficient(s) is a0 + a1 r^2 + ... (even powers, as documented)" % n, okq, site, dq_detail, key="circular/q/%d" % n)
        try:
            ctx2, x2, coefs2, dq = polynomial("dqdr", n)
            want = ctx2.const(0)
            for k, c in enumerate(coefs2):
                if k:
                    want = want + c * (2 * k) * x2 ** (2 * k - 1)
            ok, detail = (dq - want).is_zero(), "residual " + (dq - want).residual()[:160]
        except AlgError as e:
            ok, detail = False, "not representable: %s" % e
        rep.ob("R2", "circular: dqdr with %d coefficient(s) is the derivative of q: sum 2k a_k r^(2k-1)" % n, ok, site, detail, key="circular/dqdr/%d" % n)


class ProfileEx(ClassEx):
    """evaluates the cached-closure idiom `if not hasattr(self,'_f'): def func(x)...; self._f=func; return self._f(r)`
    with q(x) = a0 (one coefficient)"""

    def profile(self, name, x, ncoef=1):
        f = self.methods[name]
        self.module = f.module
        inner = None
        env = {"self": Opaque("self")}
        for s in f.node.body:
            if isinstance(s, ast.If) and "hasattr" in self.text(s.test):
                self._collect(s.body, env, ncoef)
        fn = env.get("func")
        if not isinstance(fn, Closure):
            raise AlgError("cached closure of %s not found" % name)
        return self.call_closure(fn, [x], {})

    def _collect(self, stmts, env, ncoef):
        from ..model import arm_for

        def match(t):
            return isinstance(t, ast.Compare) and len(t.ops) == 1 and isinstance(t.ops[0], ast.Eq) and "len(coef" in self.text(t.left) \
                and isinstance(t.comparators[0], ast.Constant) and t.comparators[0].value == ncoef

        for i, s in enumerate(stmts):
            if isinstance(s, ast.FunctionDef):
                env[s.name] = Closure(s, env, self)
            elif isinstance(s, ast.If):
                if "len(coef" in self.text(s.test):
                    # the arm for this number of coefficients, however the dispatch is spelled
                    arm = arm_for(stmts[i:], match)
                    if arm is not None:
                        self._collect(arm, env, ncoef)
                        return
            elif isinstance(s, ast.Assign):
                try:
                    self.stmt(s, env)
                except AlgError:
                    pass

    def on_call(self, node, fname, args, kwargs, env):
        if fname in ("self.q",):
            return self.ctx.sym("a0")
        if fname == "self.dqdr":
            return self.ctx.const(0)
        return super().on_call(node, fname, args, kwargs, env)

    def on_subscript(self, node, value, env):
        t = self.text(node).replace(" ", "")
        if t == "coef_array[0]":
            return self.ctx.sym("a0")
        return super().on_subscript(node, value, env)


class ProfileEx2(ProfileEx):
    """q(x) = a0 + a1*x**2"""

    def on_call(self, node, fname, args, kwargs, env):
        if fname == "self.q":
            return self.ctx.sym("a0") + self.ctx.sym("a1") * args[0] ** 2
        if fname == "self.dqdr":
            return 2 * self.ctx.sym("a1") * args[0]
        return ClassEx.on_call(self, node, fname, args, kwargs, env)

    def stmt(self, s, env):
        if isinstance(s, ast.Assign) and isinstance(s.targets[0], ast.Tuple) and self.text(s.value) == "coef_array":
            for i, e in enumerate(s.targets[0].elts):
                env[e.id] = self.ctx.sym("a%d" % i)
            return
        return super().stmt(s, env)


def r3(prog, rep):
    mod = prog.module(TOK)
    init = mod.funcs.get("TokamakEquilibrium.__init__")
    if init is None:
        raise AnalysisError("TokamakEquilibrium.__init__ not found")
    from ..model import inline_temporaries
    got = {}
    want_attrs = ("psi_axis", "psi_bdry", "o_point", "x_point")
    for s in walk_own(init.node):
        if not isinstance(s, ast.Assign):
            continue
        t0 = s.targets[0]
        if is_self_attr(t0) and t0.attr in want_attrs:
            got[t0.attr] = " ".join(mod.text(inline_temporaries(init.node, s.value)).split())
        elif isinstance(t0, ast.Tuple) and not isinstance(s.value, (ast.Tuple, ast.Call)):
            # `R, Z, self.psi_axis = opoints[0]`: the k-th target is element k of the value
            for k, e in enumerate(t0.elts):
                if is_self_attr(e) and e.attr in want_attrs:
                    got[e.attr] = " ".join(mod.text(s.value).split()) + "[%d]" % k
    rep.ob("R3", "psi_axis is psi at the first (primary) O-point", got.get("psi_axis") == "opoints[0][2]", init.site(), str(got.get("psi_axis")), key="scalar/psi_axis")
    rep.ob("R3", "psi_bdry is psi at the first (primary) X-point", got.get("psi_bdry") == "xpoints[0][2]", init.site(), str(got.get("psi_bdry")), key="scalar/psi_bdry")
    rep.ob("R3", "o_point is the position of the same O-point", got.get("o_point") == "Point2D(opoints[0][0], opoints[0][1])", init.site(), str(got.get("o_point")), key="scalar/o_point")
    # opoints/xpoints come from find_critical in (R, Z, psi) order
    fc = [n for n in walk_own(init.node) if isinstance(n, ast.Assign) and isinstance(n.value, ast.Call) and _dotted(n.value.func) == "critical.find_critical"]
    ok = bool(fc) and " ".join(mod.text(fc[0].targets[0]).split()) == "opoints, xpoints"
    rep.ob("R3", "O- and X-points are the two results of find_critical, in that order", ok, init.site(), "", key="scalar/find_critical")
    bt = mod.funcs.get("TokamakEquilibrium.Bt_axis")
    ok = False
    if bt is not None:
        ctx = Context()
        ex = Extractor(ctx, mod)
        ex.on_attr = lambda d, node, env: ctx.sym(d)
        ex.on_call = lambda node, fname, args, kwargs, env: ctx.call(fname, *args)
        for n in walk_own(bt.node):
            if isinstance(n, ast.Return):
                v = ex.expr(n.value, {})
                ok = (v - ctx.call("self.fpol", ctx.sym("self.psi_axis")) / ctx.sym("self.o_point.R")).is_zero()
    rep.ob("R3", "Bt_axis == fpol(psi_axis)/R_axis", ok, bt.site() if bt else TOK, "", key="scalar/Bt_axis")
    # writer
    wm = prog.module(MESH).funcs.get("BoutMesh.writeGridfile")
    if wm is None:
        raise AnalysisError("writeGridfile not found")
    pairs = {}
    for n in ast.walk(wm.node):
        if isinstance(n, ast.Call) and isinstance(n.func, ast.Attribute) and n.func.attr == "write" and len(n.args) == 2 and isinstance(n.args[0], ast.Constant):
            pairs[n.args[0].value] = " ".join(wm.module.text(n.args[1]).split())
    for nm in ("psi_axis", "psi_bdry", "Bt_axis"):
        rep.ob("R3", "grid-file variable %s is the equilibrium's %s" % (nm, nm), pairs.get(nm) == "self.equilibrium." + nm, wm.site(), str(pairs.get(nm)), key="writer/" + nm)


def r5(prog, rep):
    mod = prog.module(TOK)
    f = prog.unique_func_assigning_any(mod, "pressure", via="eqreg") if hasattr(prog, "unique_func_assigning_any") else None
    cands = [g for g in mod.funcs.values() if any(isinstance(n, ast.Assign) and isinstance(n.targets[0], ast.Attribute) and n.targets[0].attr == "pressure"
                                                   and isinstance(n.value, ast.Lambda) for n in walk_own(g.node))]
    if len(cands) != 1:
        raise AnalysisError("function storing the private-flux pressure closure not found (%d candidates)" % len(cands))
    f = cands[0]
    rep.analysed_add("functions", [f.site()])
    lam = None
    block = None
    for n in walk_own(f.node):
        if isinstance(n, ast.If):
            for s in n.body:
                if isinstance(s, ast.Assign) and isinstance(s.targets[0], ast.Attribute) and s.targets[0].attr == "pressure" and isinstance(s.value, ast.Lambda):
                    lam, block = s, n
    ctx = Context()
    ex = Extractor(ctx, mod)
    ex.on_attr = lambda d, node, env: ctx.sym(d)
    ex.on_subscript = lambda node, value, env: ctx.sym(mod.code(node))
    captured = {}

    def on_call(node, fname, args, kwargs, env):
        if fname == "self.pressure":
            captured["arg"] = args[0]
            return ctx.call("pressure", args[0])
        raise AlgError("call %s" % fname)

    ex.on_call = on_call
    env = {}
    for s in block.body:
        if s is lam:
            break
        try:
            ex.stmt(s, env)
        except PathRaises:
            pass
    clo = Closure(lam.value, env, ex)
    psi = ctx.sym("psi")
    ex.call_closure(clo, [psi], {})
    arg = captured.get("arg")
    leg = ctx.sym(K('region["psi"]'))
    s_ = ctx.call("sign", ctx.sym("self.psi_sep[0]") - ctx.sym("self.psi_axis"))
    ok = isinstance(arg, Rat) and (arg - (leg + s_ * ctx.call("abs", psi - leg))).is_zero()
    rep.ob("R5", "leg pressure is the core profile at psi_leg + sign(psi_sep[0]-psi_axis)*|psi - psi_leg|", ok, f.site(lam),
           arg.show(200) if isinstance(arg, Rat) else str(arg), key="reflect/formula")
    # guard: leg regions are those whose kind contains a wall
    t = mod.code(block.test)
    rep.ob("R5", "reflection applies to regions with a wall end (legs); other regions use the core profile", t == K('"wall" in region["kind"]') and bool(block.orelse), f.site(block), t, key="reflect/guard")
    # which psi a leg reflects about: the psi of the X-point the leg hangs on (topology tables)
    from .. import tables
    import re as _re
    n_legs = 0
    for t in tables.all_topologies(prog):
        if "start_at_upper_outer" in t.name:
            continue
        for rname, reg in t.regions.items():
            if "wall" not in reg["kind"]:
                continue
            pins = [x for fld in ("xpoints_at_start", "xpoints_at_end") for x in (reg.get(fld) or []) if x is not None]
            idx = {m_.group(1) for x in pins for m_ in [_re.match(r"x_points\[(\d+)\]", repr(x))] if m_}
            psi_txt = repr(reg.get("psi"))
            m2 = _re.match(r"psi_sep\[(\d+)\]", psi_txt)
            n_legs += 1
            ok = len(idx) == 1 and m2 is not None and m2.group(1) in idx
            rep.ob("R5", "%s: leg %s reflects the pressure about the psi of the X-point it is attached to" % (t.name, rname), ok, TOK,
                   "reflection psi %s ; attached X-point(s) %s" % (psi_txt, sorted(idx)), key="reflect/leg-psi/%s/%s" % (t.name, rname))
    rep.floor("R5.legs", n_legs, 16)
    lb = [x for x in effects.late_bound_closures(f.node, mod) if x[3].endswith(".pressure")]
    names = sorted({c for x in lb for c in x[2]})
    rep.ob("R5", "the stored pressure closure does not read loop-assigned names at call time", not lb, f.site(lam),
           "captures %s late: every leg would use the values of the last loop iteration" % names if lb else "", key="reflect/late-binding")


def r6(prog, rep):
    mod = prog.module(TOK)
    init = mod.funcs.get("TokamakEquilibrium.__init__")
    blk = None
    for n in walk_own(init.node):
        if isinstance(n, ast.If) and "extrapolate_profiles" in mod.text(n.test):
            blk = n
    if blk is None:
        raise AnalysisError("extrapolate_profiles block not found")
    # the direction flag the block branches on: psi increases from the axis to the edge of the profile grid
    pi_def = [s for s in walk_own(init.node) if isinstance(s, ast.Assign) and is_self_attr(s.targets[0], "psi_increasing")]
    ok = len(pi_def) == 1 and mod.code(pi_def[0].value) in (K("psi1D[-1] > psi1D[0]"), K("psi1D[0] < psi1D[-1]"))
    rep.ob("R6", "psi_increasing is defined as psi1D[-1] > psi1D[0]", ok, init.site(pi_def[0]) if pi_def else init.site(), mod.code(pi_def[0].value) if pi_def else "", key="extrap/psi_increasing")
    # definite assignment inside the block
    und = [(n, nm) for n, nm in possibly_undefined(init.node) if blk.lineno <= n.lineno <= blk.end_lineno]
    rep.ob("R6", "every name used in the profile-extrapolation block is assigned on every path reaching the use", not und, init.site(blk),
           "possibly unassigned: %s" % sorted({"%s (line %d)" % (nm, n.lineno) for n, nm in und}), key="extrap/definite-assignment")
    # continuity: evaluate the block with versioned array atoms
    ctx = Context()
    ex = VersionEx(ctx, mod)
    env = {}
    appended = {}
    ex.appended = appended
    try:
        ex.block(blk.body, env)
    except (AlgError, PathRaises) as e:
        rep.error("R6", "extrapolation block not representable: %s" % e, init.site(blk))
        return
    for nm in ("pressure", "fpol1D"):
        if nm not in appended:
            rep.ob("R6", "%s is extended by the extrapolation block" % nm, False, init.site(blk), "", key="extrap/%s/appended" % nm)
            continue
        old_last, tail, junction = appended[nm]
        if junction is None:
            rep.ob("R6", "%s: extension abscissa is a linspace tail" % nm, False, init.site(blk), "", key="extrap/%s/abscissa" % nm)
            continue
        val = tail.subs({ctx.sym("$abscissa").as_atom(): junction}) if isinstance(tail, Rat) else None
        ok = isinstance(val, Rat) and (val - old_last).is_zero()
        rep.ob("R6", "extended %s is continuous at the last tabulated point" % nm, ok, init.site(blk),
               "value of the appended expression at the junction: %s ; last tabulated value: %s" % (val.show(160) if isinstance(val, Rat) else val, old_last.show()), key="extrap/%s/continuous" % nm)
    # the abscissa of the appended part starts at the old last psi (first point dropped)
    rep.ob("R6", "extension abscissa is linspace(last psi1D, psi_outer, n)[1:]", ex.linspace_ok, init.site(blk), ex.linspace_detail, key="extrap/abscissa")


class VersionEx(Extractor):
    """1-D profile arrays as versioned atoms; np.concatenate([old, tail]) recorded"""

    def __init__(self, ctx, module):
        super().__init__(ctx, module)
        self.version = {}
        self.linspace_ok = False
        self.linspace_detail = "linspace not found"
        self.junctions = {}

    def choose(self, test, env):
        t = self.text(test)
        if key_in("pressure is not None", t):
            return True
        if "self.psi_increasing" == t:
            return True
        if key_in("psi_outer", t):
            return True
        return None

    def on_attr(self, d, node, env):
        return self.ctx.sym(d)

    def on_name(self, name, env):
        return self.ctx.sym(name)

    def arr(self, name):
        return "%s#%d" % (name, self.version.get(name, 0))

    def on_subscript(self, node, value, env):
        if isinstance(node.value, ast.Name):
            nm = node.value.id
            idx = self.text(node.slice).replace(" ", "")
            if isinstance(env.get(nm), tuple) and env[nm][0] == "linspace" and idx == "1:":
                return ("tail", env[nm])
            return self.ctx.sym("%s[%s]" % (self.arr(nm), idx))
        if isinstance(value, tuple) and value[0] == "linspace" and self.text(node.slice).replace(" ", "") == "1:":
            return ("tail", value)
        raise AlgError("subscript " + self.text(node))

    def on_call(self, node, fname, args, kwargs, env):
        short = (fname or "").split(".")[-1]
        if short == "linspace":
            return ("linspace", args[0], args[1])
        if short in ("max", "min"):
            return self.ctx.sym("psi_outer")
        if short == "full":
            return ("full", args[1])
        if short == "concatenate":
            return ("concat", args[0])
        raise AlgError("call %s" % fname)

    def attr_of(self, value, attr, node, env):
        if attr == "shape":
            return Opaque("shape")
        return super().attr_of(value, attr, node, env)

    def num(self, v, node=None):
        if isinstance(v, tuple) and v[0] == "tail":
            # arithmetic on the tail abscissa: symbolic abscissa variable
            return self.ctx.sym("$abscissa")
        return super().num(v, node)

    def stmt(self, s, env):
        if isinstance(s, ast.Assign) and isinstance(s.targets[0], ast.Name):
            nm = s.targets[0].id
            v = None
            try:
                v = self.expr(s.value, env)
            except AlgError:
                v = None
            if isinstance(v, tuple) and v[0] == "tail":
                lin = v[1]
                start = lin[1]
                self.linspace_ok = isinstance(start, Rat) and (start - self.ctx.sym("%s[-1]" % self.arr("psi1D"))).is_zero()
                self.linspace_detail = "start %s" % (start.show() if isinstance(start, Rat) else start)
                env[nm] = v
                self.junctions[nm] = start
                return
            if isinstance(v, tuple) and v[0] == "concat":
                parts = v[1]
                if isinstance(parts, list) and len(parts) == 2:
                    old, tail = parts
                    old_last = self.ctx.sym("%s[-1]" % self.arr(nm))
                    junction = None
                    if isinstance(tail, tuple) and tail[0] == "full":
                        tail = tail[1]
                        junction = self.ctx.const(0)
                    elif isinstance(tail, tuple) and tail[0] == "tail":
                        tail = None
                    else:
                        # abscissa variable: whichever linspace tail is in scope
                        junction = next(iter(self.junctions.values()), None)
                    if tail is not None:
                        self.appended[nm] = (old_last, tail, junction)
                self.version[nm] = self.version.get(nm, 0) + 1
                env.pop(nm, None)
                return
        return super().stmt(s, env)
