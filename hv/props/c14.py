"""C14 deterministic, side-effect free, reproducible from embedded inputs (effects, flows).

R1 public array inputs are not modified in place (E7a must-fresh dataflow).
R2 no process-global state is written (expected count zero; positive fixture must fire).
R3 nondeterminism sources (uuid, dates, set iteration order) reach only grid_id, the geqdsk
   header date and attributes that are never read.
R4 provenance: the dumped option keys are accepted by the command-line entry point; the
   geqdsk text is stored once, unmodified, and written verbatim; the recreate script writes
   both strings verbatim.
Not decided: bitwise reproducibility of library numerics; worker completion order (C13).
"""
import ast
import os

from ..model import canon as K
from ..model import Program, Module, walk_own, is_self_attr, dotted, canon
from ..options import Schemas
from ..report import AnalysisError, VERIF
from .. import effects

TOK = "hypnotoad/cases/tokamak.py"
MESH = "hypnotoad/core/mesh.py"

# public inputs that are arrays / caller-owned containers (confirmed by reading the docstrings)
INPUT_TABLE = [
    (TOK, "TokamakEquilibrium.__init__", ["R1D", "Z1D", "psi2D", "psi1D", "fpol1D", "pressure", "wall"]),
    ("hypnotoad/utils/critical.py", "find_critical", ["R", "Z", "psi"]),
    ("hypnotoad/utils/dct_interpolation.py", "DCT_2D.__init__", ["Rarray", "Zarray", "psiRZ"]),
    ("hypnotoad/core/equilibrium.py", "Equilibrium.magneticFunctionsFromGrid", ["R", "Z", "psiRZ"]),
    ("hypnotoad/core/equilibrium.py", "find_intersections", ["l1array", "l2start", "l2end"]),
    ("hypnotoad/core/equilibrium.py", "closest_approach", ["point", "a", "b"]),
    ("hypnotoad/utils/polygons.py", "intersect", ["r1", "z1", "r2", "z2"]),
    ("hypnotoad/utils/polygons.py", "area", ["polygon"]),
    ("hypnotoad/utils/polygons.py", "clockwise", ["polygon"]),
    ("hypnotoad/geqdsk/_geqdsk.py", "write", ["data"]),
    ("hypnotoad/geqdsk/_fileutils.py", "write_1d", ["val"]),
    ("hypnotoad/geqdsk/_fileutils.py", "write_2d", ["val"]),
    ("hypnotoad/cases/circular.py", "CircularEquilibrium.__init__", ["settings", "nonorthogonal_settings"]),
]
SCALAR_OK = {("TokamakEquilibrium.__init__", "psi_axis_gfile"): "float: augmented assignment rebinds",
             ("TokamakEquilibrium.__init__", "psi_bdry_gfile"): "float: augmented assignment rebinds"}


def run(rep, tier):
    prog = Program()
    rep.rule("R1", "no in-place modification of caller-owned array inputs")
    rep.rule("R2", "no process-global writes (fixture must fire)")
    rep.rule("R3", "nondeterminism sources reach only allowed sinks")
    rep.rule("R4", "embedded inputs: keys accepted by the CLI; geqdsk text verbatim")
    r1(prog, rep)
    r2(prog, rep)
    r3(prog, rep)
    r4(prog, rep)
    rep.undecided("bitwise reproducibility of scipy/numpy numerics")
    return __doc__


def r1(prog, rep):
    n = 0
    for rel, qn, params in INPUT_TABLE:
        f = prog.func(rel, qn)
        have = {a.arg for a in f.node.args.posonlyargs + f.node.args.args + f.node.args.kwonlyargs}
        missing = [p for p in params if p not in have]
        if missing:
            raise AnalysisError("%s: parameters %s not found (input table out of date)" % (qn, missing))
        muts = effects.param_mutations(f.node, f.module)
        by_param = {}
        for node, p, kind in muts:
            by_param.setdefault(p, []).append((node, kind))
        for p in params:
            n += 1
            hits = by_param.get(p, [])
            detail = "; ".join("line %d: %s `%s`" % (nd.lineno, kind, " ".join(f.module.text(nd).split())[:60]) for nd, kind in hits)
            rep.ob("R1", "%s does not modify its input %s in place" % (qn, p), not hits, f.site(hits[0][0]) if hits else f.site(), detail, key="%s/%s" % (qn, p))
        # also: any other parameter mutated that is not a documented scalar
        for p, hits in by_param.items():
            if p in params or (qn, p) in SCALAR_OK:
                continue
            rep.ob("R1", "%s: parameter %s modified in place" % (qn, p), False, f.site(hits[0][0]), hits[0][1], key="%s/%s" % (qn, p))
    rep.floor("R1.inputs", n, 30)
    rep.analysed_add("input table", ["%s(%s)" % (q, ",".join(p)) for _, q, p in INPUT_TABLE])


def r2(prog, rep):
    found = effects.global_writes(prog)
    rep.analysed_add("functions scanned for global writes", [str(sum(1 for _ in prog.all_funcs()))])
    for f, node, what in found:
        rep.ob("R2", "no process-global write: %s" % what, False, f.site(node), " ".join(f.module.text(node).split())[:100], key="global/%s/%s" % (f.qualname, what))
    rep.ob("R2", "scan of %d functions found no process-global write" % sum(1 for _ in prog.all_funcs()), not found, "", "", key="global/none")
    # positive fixture
    fx = Module(os.path.join(VERIF, "fixtures"), os.path.join(VERIF, "fixtures", "effects_fixture.py"))

    class P:
        modules = {fx.rel: fx}

    got = effects.global_writes(P, skip_prefixes=())
    kinds = sorted({w.split(":")[0].split(" %s" % "")[0] for _, _, w in got})
    want = ["global statement", "mutating call on class-level container", "mutating call on module-level container", "mutating call on mutable default argument",
            "store into module-level container", "store to class attribute"]
    fired = [w for w in want if any(k.startswith(w) for _, _, k in got)]
    if len(fired) != len(want):
        rep.error("R2", "positive fixture: only %s fired of %s" % (fired, want))
    muts = effects.param_mutations(fx.funcs["mutates_input"].node, fx)
    muts2 = effects.param_mutations(fx.funcs["fresh_then_mutate"].node, fx)
    if len(muts) != 2 or muts2:
        rep.error("R1", "positive fixture for parameter mutation: %d hits (want 2), %d on the fresh-copy twin (want 0)" % (len(muts), len(muts2)))
    lb = effects.late_bound_closures(fx.funcs["make_closures"].node, fx)
    if len(lb) != 1:
        rep.error("R2", "positive fixture for late-bound closures did not fire")
    rep.analysed_add("fixture", ["fixtures/effects_fixture.py: %d global-write kinds, %d parameter mutations, %d late-bound closure" % (len(fired), len(muts), len(lb))])


SOURCES = {
    "uuid": lambda d: d.startswith("uuid."),
    "date": lambda d: d in ("date.today", "datetime.now", "datetime.datetime.now", "datetime.date.today", "time.time", "time.ctime", "datetime.today"),
    "random": lambda d: d.startswith(("random.", "numpy.random.", "np.random.")),
    "pid": lambda d: d in ("os.getpid",),
}


def r3(prog, rep):
    n = 0
    for mod in prog.modules.values():
        if mod.rel.startswith(("hypnotoad/gui", "hypnotoad/scripts", "examples")):
            continue
        for f in mod.funcs.values():
            for call in walk_own(f.node):
                if not isinstance(call, ast.Call):
                    continue
                d = dotted(call.func)
                if d is None:
                    continue
                kind = next((k for k, p in SOURCES.items() if p(d)), None)
                if kind is None:
                    continue
                n += 1
                sink = _sink_of(f, call)
                allowed = (kind == "uuid" and sink == "file attribute grid_id") or (kind == "date" and sink.startswith("geqdsk header"))
                rep.ob("R3", "%s source `%s` reaches only an allowed sink" % (kind, d), allowed, f.site(call), "sink: " + sink, key="nondet/%s/%s" % (f.qualname, d))
            # iteration over a set
            setnames = set()
            for s in walk_own(f.node):
                if isinstance(s, ast.Assign) and isinstance(s.targets[0], ast.Name) and isinstance(s.value, (ast.Call, ast.Set, ast.SetComp)):
                    if isinstance(s.value, (ast.Set, ast.SetComp)) or dotted(s.value.func) in ("set", "frozenset"):
                        setnames.add(s.targets[0].id)
            def is_set_expr(e):
                if isinstance(e, ast.Name):
                    return e.id in setnames
                if isinstance(e, (ast.Set, ast.SetComp)):
                    return True
                return isinstance(e, ast.Call) and dotted(e.func) in ("set", "frozenset")

            ordered = []
            for s in walk_own(f.node):
                if isinstance(s, ast.For) and is_set_expr(s.iter):
                    ordered.append(s)
                elif isinstance(s, ast.Assign) and isinstance(s.value, ast.Call) and dotted(s.value.func) in ("list", "tuple", "next", "iter", "enumerate") and s.value.args:
                    a0 = s.value.args[0]
                    if is_set_expr(a0) or (isinstance(a0, ast.Call) and dotted(a0.func) == "iter" and a0.args and is_set_expr(a0.args[0])):
                        ordered.append(ast.copy_location(ast.For(target=s.targets[0], iter=a0, body=[], orelse=[]), s))
                elif isinstance(s, ast.Assign) and isinstance(s.value, ast.Call) and isinstance(s.value.func, ast.Attribute) and s.value.func.attr == "pop" and is_set_expr(s.value.func.value):
                    ordered.append(ast.copy_location(ast.For(target=s.targets[0], iter=s.value.func.value, body=[], orelse=[]), s))
            for s in ordered:
                if True:
                    n += 1
                    if not isinstance(s.iter, ast.Name):
                        s.iter = ast.Name(id="<set expression>", ctx=ast.Load())
                    tainted_attrs = _taint_attrs(f, s)
                    readers = {a: _readers(prog, a) for a in tainted_attrs}
                    bad = {a: r for a, r in readers.items() if r}
                    rep.ob("R3", "iteration order of set %s influences only attributes that are never read" % s.iter.id, not bad, f.site(s),
                           "influenced: %s ; readers: %s" % (sorted(tainted_attrs), bad), key="nondet/%s/set-%s" % (f.qualname, s.iter.id))
    rep.floor("R3.sources", n, 3)


def _sink_of(f, call):
    """the innermost enclosing write call / assignment target of a source call"""
    parents = {}
    for n in ast.walk(f.node):
        for ch in ast.iter_child_nodes(n):
            parents[ch] = n
    cur = call
    while cur in parents:
        cur = parents[cur]
        if isinstance(cur, ast.Call) and isinstance(cur.func, ast.Attribute) and cur.func.attr == "write_file_attribute" and cur.args and isinstance(cur.args[0], ast.Constant):
            return "file attribute " + str(cur.args[0].value)
        if isinstance(cur, ast.Call) and isinstance(cur.func, ast.Attribute) and cur.func.attr == "write" and cur.args and isinstance(cur.args[0], ast.Constant):
            return "grid variable " + str(cur.args[0].value)
        if isinstance(cur, ast.Assign) and isinstance(cur.targets[0], ast.Name):
            return ", ".join(sorted(_name_sinks(f, parents, cur.targets[0].id, set()))) or "unused"
        if isinstance(cur, ast.Assign):
            return "stored in " + " ".join(f.module.text(cur.targets[0]).split())
    return "unknown"


def _name_sinks(f, parents, nm, seen):
    if nm in seen or len(seen) > 6:
        return set()
    seen = seen | {nm}
    sinks = set()
    for u in walk_own(f.node):
        if not (isinstance(u, ast.Name) and u.id == nm and isinstance(u.ctx, ast.Load)):
            continue
        c2 = u
        while c2 in parents:
            c2 = parents[c2]
            if isinstance(c2, ast.Call) and isinstance(c2.func, ast.Attribute) and c2.func.attr == "write":
                sinks.add("geqdsk header line" if f.module.rel.endswith("_geqdsk.py") and len(c2.args) == 1 else "write of " + nm)
                break
            if isinstance(c2, ast.Return):
                sinks.add("returned")
                break
            if isinstance(c2, ast.Assign):
                t = c2.targets[0]
                if isinstance(t, ast.Name):
                    sinks |= _name_sinks(f, parents, t.id, seen)
                else:
                    sinks.add("stored in " + " ".join(f.module.text(t).split()))
                break
    return sinks


def _taint_attrs(f, loop):
    """self attributes that receive values derived from the loop variable (transitively
    through local names), within the statement that encloses the loop"""
    tainted = {n.id for n in ast.walk(loop.target) if isinstance(n, ast.Name)}
    attrs = set()
    stmts = [s for s in ast.walk(f.node) if isinstance(s, (ast.Assign, ast.AugAssign, ast.Expr, ast.For)) and getattr(s, "lineno", 0) > loop.lineno]
    stmts.sort(key=lambda n: (n.lineno, n.col_offset))
    for _pass in range(2):  # second pass for loop-carried flows
        for s in stmts:
            if isinstance(s, ast.For):
                names = {n.id for n in ast.walk(s.iter) if isinstance(n, ast.Name)}
                tg = {n.id for n in ast.walk(s.target) if isinstance(n, ast.Name)}
                if names & tainted:
                    tainted |= tg
                else:
                    tainted -= tg
                continue
            val = s.value
            names = {n.id for n in ast.walk(val) if isinstance(n, ast.Name)}
            if isinstance(s, ast.Expr):
                if isinstance(val, ast.Call) and isinstance(val.func, ast.Attribute) and val.func.attr in ("append", "add", "extend", "insert"):
                    argn = {n.id for a in val.args for n in ast.walk(a) if isinstance(n, ast.Name)}
                    if argn & tainted:
                        tgt = val.func.value
                        if isinstance(tgt, ast.Name):
                            tainted.add(tgt.id)
                        elif is_self_attr(tgt):
                            attrs.add(tgt.attr)
                continue
            for t in (s.targets if isinstance(s, ast.Assign) else [s.target]):
                if isinstance(t, ast.Name):
                    if names & tainted:
                        tainted.add(t.id)
                    elif isinstance(s, ast.Assign):
                        tainted.discard(t.id)  # rebinding to an untainted value
                elif is_self_attr(t) and names & tainted:
                    attrs.add(t.attr)
    return attrs


def _readers(prog, attr):
    out = []
    for mod in prog.modules.values():
        for n in ast.walk(mod.tree):
            if isinstance(n, ast.Attribute) and n.attr == attr and isinstance(n.ctx, ast.Load):
                # `self.x_groups.append(...)` loads the attribute to mutate it: not a reader
                out.append(n)
        for n in ast.walk(mod.tree):
            if isinstance(n, ast.Call) and isinstance(n.func, ast.Attribute) and n.func.attr in ("append",) and isinstance(n.func.value, ast.Attribute) and n.func.value.attr == attr:
                out = [o for o in out if o is not n.func.value]
    return ["%s:%d" % ("?", o.lineno) for o in out]


def r4(prog, rep):
    sch = Schemas(prog)
    mm = prog.module(MESH)
    w = mm.funcs.get("BoutMesh.writeGridfile")
    if w is None:
        raise AnalysisError("writeGridfile not found")
    # which option objects are dumped
    dumped = []
    var = None
    for s in sorted(walk_own(w.node), key=lambda n: (getattr(n, "lineno", 0), getattr(n, "col_offset", 0))):
        if isinstance(s, ast.Assign) and isinstance(s.targets[0], ast.Name) and isinstance(s.value, ast.Call) and dotted(s.value.func) == "dict":
            var = s.targets[0].id
            dumped.append(" ".join(mm.text(s.value.args[0]).split()))
        if isinstance(s, ast.Expr) and isinstance(s.value, ast.Call) and isinstance(s.value.func, ast.Attribute) and s.value.func.attr == "update" \
                and isinstance(s.value.func.value, ast.Name) and s.value.func.value.id == var:
            dumped.append(" ".join(mm.text(s.value.args[0]).split()))
    yaml_ok = any(isinstance(n, ast.Call) and isinstance(n.func, ast.Attribute) and n.func.attr == "write" and n.args and isinstance(n.args[0], ast.Constant)
                  and n.args[0].value == "hypnotoad_inputs_yaml" and " ".join(mm.text(n.args[1]).split()) == "yaml.dump(%s)" % var for n in ast.walk(w.node))
    rep.ob("R4", "hypnotoad_inputs_yaml is yaml.dump of the merged option dict", yaml_ok, w.site(), "", key="prov/yaml-dump")
    want = ["self.equilibrium.user_options", "self.equilibrium.nonorthogonal_options", "self.user_options"]
    rep.ob("R4", "the dumped dict merges equilibrium, non-orthogonal and mesh options", dumped == want, w.site(), str(dumped), key="prov/merged")
    # CLI accepted keys
    script = prog.module("hypnotoad/scripts/hypnotoad_geqdsk.py")
    accepted_factories = cli_factories(script)
    accepted = set()
    for fac in accepted_factories:
        accepted |= set(sch.keys(fac))
    rep.analysed_add("CLI factories", accepted_factories)
    objs = {"equilibrium.user_options": "TokamakEquilibrium.user_options_factory", "equilibrium.nonorthogonal_options": "TokamakEquilibrium.nonorthogonal_options_factory", "mesh.user_options": "BoutMesh.user_options_factory"}
    for nm, fac in objs.items():
        keys = set(sch.keys(fac))
        miss = sorted(keys - accepted)
        rep.ob("R4", "every key of %s (%d keys) is accepted by hypnotoad-geqdsk" % (nm, len(keys)), not miss, script.rel, "rejected: %s" % miss, key="prov/keys/" + nm)
    # geqdsk text: single writer of geqdsk_input, from filehandle.read() after seek(0)
    stores = []
    for mod in prog.modules.values():
        for f in mod.funcs.values():
            for s in walk_own(f.node):
                if isinstance(s, (ast.Assign, ast.AugAssign)):
                    for t in (s.targets if isinstance(s, ast.Assign) else [s.target]):
                        if isinstance(t, ast.Attribute) and t.attr == "geqdsk_input":
                            stores.append((f, s))
    # every store (one today; a helper that does the same is one more) takes the whole text of a
    # handle that the statement before has rewound: X.seek(0); <obj>.geqdsk_input = X.read()
    ok = bool(stores)
    details = []
    for f, s in stores:
        body = _enclosing_body(f.node, s)
        i = body.index(s)
        prev = body[i - 1] if i > 0 else None
        v = s.value if isinstance(s, ast.Assign) else None
        good = isinstance(v, ast.Call) and isinstance(v.func, ast.Attribute) and v.func.attr == "read" and not v.args and not v.keywords and isinstance(v.func.value, ast.Name) \
            and prev is not None and f.module.code(prev) == K("%s.seek(0)" % v.func.value.id)
        ok = ok and good
        details.append("%s: value %s after %s" % (f.qualname, f.module.code(s.value), f.module.code(prev) if prev is not None else None))
    detail = "; ".join(details) if stores else "no store of geqdsk_input"
    rep.ob("R4", "geqdsk_input is stored once, as filehandle.read() right after seek(0)", ok, stores[0][0].site(stores[0][1]) if stores else TOK, detail, key="prov/geqdsk-store")
    wr = [n for n in ast.walk(w.node) if isinstance(n, ast.Call) and isinstance(n.func, ast.Attribute) and n.func.attr == "write" and n.args
          and isinstance(n.args[0], ast.Constant) and n.args[0].value == "hypnotoad_input_geqdsk_file_contents"]
    ok = len(wr) == 1 and " ".join(mm.text(wr[0].args[1]).split()) == "self.equilibrium.geqdsk_input"
    rep.ob("R4", "the grid file stores geqdsk_input unmodified", ok, w.site(), "", key="prov/geqdsk-write")
    rs = prog.module("hypnotoad/scripts/hypnotoad_recreate_inputs.py")
    calls = {rs.code(n) for n in ast.walk(rs.tree) if isinstance(n, ast.Call)}
    ok = canon('gfile.write(gridfile["hypnotoad_input_geqdsk_file_contents"][...])') in calls and canon('yamlfile.write(gridfile["hypnotoad_inputs_yaml"][...])') in calls
    rep.ob("R4", "the recreate script writes both stored strings verbatim", ok, rs.rel, "", key="prov/recreate")
    # the CLI passes the same dict to equilibrium, non-orthogonal and mesh options
    rg = [n for n in ast.walk(script.tree) if isinstance(n, ast.Call) and script.code(n.func) == "tokamak.read_geqdsk"]
    bm = [n for n in ast.walk(script.tree) if isinstance(n, ast.Call) and script.code(n.func) == "BoutMesh"]
    ok = False
    if len(rg) == 1 and len(bm) == 1:
        kw = {k.arg: script.code(k.value) for k in rg[0].keywords}
        dict_name = kw.get("settings")
        mesh_opts = script.code(bm[0].args[1]) if len(bm[0].args) > 1 else {k.arg: script.code(k.value) for k in bm[0].keywords}.get("user_options")
        ok = dict_name is not None and isinstance(rg[0].keywords[0].value, ast.Name) and kw.get("nonorthogonal_settings") == dict_name and mesh_opts == dict_name
    rep.ob("R4", "the command-line entry point feeds one option dict to equilibrium, non-orthogonal and mesh options", ok, script.rel, "", key="prov/cli-dict")
    # the recorded non-orthogonal options are the ones in effect: rule instances of C15.R1
    # reproducibility with number_of_processors > 1: results are assembled by task index, not by
    # completion order (rule instances of C13.R1)
    rep.rule("R5", "premise: the parallel map returns results in task order whatever the completion order (C13.R1)")
    # the embedded YAML is the merged option dict with the mesh's values last: it reproduces the
    # grid only because Mesh.__init__ refuses settings that differ from the equilibrium's
    rep.rule("R6", "premise: Mesh.__init__ compares every equilibrium option with the mesh's evaluated options and raises on a difference (C12.R2)")
    from . import c12 as _c12
    from ..report import Premise as _P2

    class _Only:
        """files only the option-consistency guard of C12.R2 under the premise"""
        def __init__(self, rep_):
            self._r = _P2(rep_, "R6", "C12")
        def ob(self, rule, instance, ok, site, detail="", key=None):
            if "options consistent" in instance:
                self._r.ob(rule, instance, ok, site, detail, key=key)
        def __getattr__(self, nm):
            a = getattr(self._r, nm)
            return (lambda *x, **k: None) if nm in ("floor", "rule", "undecided", "analysed_add", "trust", "assume") else a
    _c12.r2(prog, _Only(rep))
    from ..report import Premise as _Premise
    from . import c13 as _c13
    _pm = prog.module(_c13.PM)
    _c13.r1(_Premise(rep, "R5", "C13"), _pm, _pm.funcs.get("ParallelMap.__call__"), _pm.funcs.get("ParallelMap.worker_run"))
    from ..report import Premise
    from ..callgraph import CallGraph
    from . import c15
    cg = CallGraph(prog)
    root = cg.key("hypnotoad/core/mesh.py", "Mesh.redistributePoints")
    c15.options_reset_rules(prog, cg, cg.reachable([root]), Premise(rep, "R4", "C15"))


def cli_factories(script):
    """factories whose `.defaults` build the accepted-key list of a script"""
    facs_seen = []
    uses_defaults = any(isinstance(n, ast.Attribute) and n.attr == "defaults" for n in ast.walk(script.tree))
    for n in ast.walk(script.tree):
        if isinstance(n, ast.Attribute) and n.attr.endswith("options_factory") and uses_defaults:
            d = dotted(n)
            if d:
                parts = d.split(".")
                if len(parts) >= 2 and parts[-2] + "." + parts[-1] not in facs_seen:
                    facs_seen.append(parts[-2] + "." + parts[-1])
    return facs_seen


def _enclosing_body(fnode, stmt):
    for n in ast.walk(fnode):
        for fld in ("body", "orelse", "finalbody"):
            b = getattr(n, fld, None)
            if isinstance(b, list) and stmt in b:
                return b
    return []
