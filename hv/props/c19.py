"""C19 critical points: classification, Newton Jacobian, ordering, selection (rule instances).

R1 the discriminant is f_RR*f_ZZ - f_RZ**2 built from finite-difference stencils whose
   weights reproduce the second derivatives of every polynomial of total degree <= 3
   (stencil-moment check); D<0 => X-point, otherwise O-point; the point recorded is the
   Newton-refined position with psi evaluated there.
R2 the Newton Jacobian entries are the formal derivatives of the Br, Bz expressions of the
   same function; the update is the Newton step.
R3 ordering keys: O-points by squared distance to the domain midpoint; X-points by a
   monotone function of |psi - psi_axis| of the primary O-point; duplicates removed by a
   distance threshold.
R4 selection: X-points filtered by psinorm < psinorm(psi_sol) and inside-wall; one => single
   null, two => double null, otherwise an error; inner/outer legs by strike-point R.
Not decided: that every critical point is found once and to tolerance (numerical).
"""
import ast

from ..alg import AlgError, Context, Rat
from ..extract import Extractor, Opaque, PathRaises, ReturnValue, _dotted
from ..model import inline_temporaries
from ..model import Program, walk_own
from ..report import AnalysisError
from . import common
from ..model import canon as K

CRIT = "hypnotoad/utils/critical.py"
TOK = "hypnotoad/cases/tokamak.py"


def T(mod, n):
    return mod.code(n)


class CritEx(Extractor):
    """psi[i+a, j+b] -> a symbolic polynomial sample; f(R1,Z1,dx=,dy=) -> psi partial atom"""

    def __init__(self, ctx, module, degree=3):
        super().__init__(ctx, module)
        self.degree = degree
        self.spacing_defs = {}
        self.coef = {}
        for m in range(degree + 1):
            for n in range(degree + 1 - m):
                self.coef[(m, n)] = ctx.sym("c%d%d" % (m, n))

    def on_name(self, name, env):
        return self.ctx.sym(name)

    def stmt(self, s, env):
        # grid spacings are re-derived locally: keep them symbolic, remember the definition
        if isinstance(s, ast.Assign) and isinstance(s.targets[0], ast.Name) and s.targets[0].id in ("dR", "dZ"):
            self.spacing_defs[s.targets[0].id] = T(self.module, s.value)
            env[s.targets[0].id] = self.ctx.sym(s.targets[0].id)
            return
        return super().stmt(s, env)

    def sample(self, a, b):
        dR, dZ = self.ctx.sym("dR"), self.ctx.sym("dZ")
        x, y = a * dR, b * dZ
        tot = self.ctx.const(0)
        for (m, n), c in self.coef.items():
            tot = tot + c * x ** m * y ** n
        return tot

    def offset(self, node, var):
        if isinstance(node, ast.Name) and node.id == var:
            return 0
        if isinstance(node, ast.BinOp) and isinstance(node.left, ast.Name) and node.left.id == var and isinstance(node.right, ast.Constant):
            return node.right.value if isinstance(node.op, ast.Add) else -node.right.value
        raise AlgError("index offset " + self.text(node))

    def on_subscript(self, node, value, env):
        if isinstance(node.value, ast.Name) and node.value.id == "psi" and isinstance(node.slice, ast.Tuple):
            a = self.offset(node.slice.elts[0], "i")
            b = self.offset(node.slice.elts[1], "j")
            return self.sample(a, b)
        if isinstance(node.value, ast.Name) and node.value.id in ("R", "Z"):
            return self.ctx.sym(T(self.module, node))
        if isinstance(value, Rat):
            return value  # f(...)[0][0]
        raise AlgError("subscript " + self.text(node))

    def on_call(self, node, fname, args, kwargs, env):
        if fname == "f":
            a = int(kwargs.get("dx", self.ctx.const(0)).as_const())
            b = int(kwargs.get("dy", self.ctx.const(0)).as_const())
            return common.psi_partial(self.ctx, a, b, args[0], args[1])
        raise AlgError("call %s" % fname)


def run(rep, tier):
    prog = Program()
    mod = prog.module(CRIT)
    f = mod.funcs.get("find_critical")
    if f is None:
        raise AnalysisError("find_critical not found")
    rep.analysed_add("files", [CRIT, TOK])
    rep.analysed_add("functions", [f.site()])
    rep.rule("R1", "discriminant stencils satisfy the moment conditions; D<0 => X-point")
    rep.rule("R2", "Newton Jacobian entries are the formal derivatives of Br, Bz")
    rep.rule("R3", "ordering keys and duplicate removal")
    rep.rule("R4", "X-point selection, null count, inner/outer legs")
    r1_r2(rep, mod, f)
    r3(rep, mod, f)
    r4(prog, rep)
    rep.undecided("existence/uniqueness of every critical point and convergence of the Newton refinement")
    return __doc__


def r1_r2(rep, mod, f):
    # the Newton loop
    loops = [n for n in ast.walk(f.node) if isinstance(n, ast.While) and isinstance(n.test, ast.Constant) and n.test.value is True]
    if len(loops) != 1:
        raise AnalysisError("Newton loop not found")
    loop = loops[0]
    ctx = Context()
    common.declare_equilibrium(ctx)
    ex = CritEx(ctx, mod)
    R1, Z1 = ctx.sym("R1"), ctx.sym("Z1")
    env = {"R1": R1, "Z1": Z1}
    # Br, Bz
    for s in loop.body:
        if isinstance(s, ast.Assign) and isinstance(s.targets[0], ast.Name) and s.targets[0].id in ("Br", "Bz"):
            ex.stmt(s, env)
    Br, Bz = env.get("Br"), env.get("Bz")
    ok = isinstance(Br, Rat) and isinstance(Bz, Rat)
    rep.ob("R2", "Br, Bz extractable", ok, f.site(loop), "", key="newton/extract")
    if not ok:
        return
    pR, pZ = common.psi_partial(ctx, 1, 0, R1, Z1), common.psi_partial(ctx, 0, 1, R1, Z1)
    # the field whose zero is sought is a rotation of grad(psi)/R: both vanish exactly where grad psi = 0
    ok = (Br * Br + Bz * Bz - (pR * pR + pZ * pZ) / (R1 * R1)).is_zero()
    rep.ob("R2", "Br^2 + Bz^2 == |grad psi|^2/R^2 (the refinement drives grad psi to zero)", ok, f.site(loop), "Br=%s Bz=%s" % (Br.show(), Bz.show()), key="newton/field")
    J = {}
    for s in loop.body:
        if isinstance(s, ast.Assign) and isinstance(s.targets[0], ast.Subscript) and isinstance(s.targets[0].value, ast.Name) and s.targets[0].value.id == "J":
            idx = tuple(e.value for e in s.targets[0].slice.elts)
            try:
                J[idx] = ex.expr(s.value, env)
            except AlgError as e:
                J[idx] = str(e)
    want = {(0, 0): Br.diff("R1"), (0, 1): Br.diff("Z1"), (1, 0): Bz.diff("R1"), (1, 1): Bz.diff("Z1")}
    for idx, w in want.items():
        v = J.get(idx)
        ok = isinstance(v, Rat) and (v - w).is_zero()
        rep.ob("R2", "J[%d,%d] == d(%s)/d(%s)" % (idx[0], idx[1], ("Br", "Bz")[idx[0]], ("R", "Z")[idx[1]]), ok, f.site(loop),
               "found %s ; expected %s" % (v.show(120) if isinstance(v, Rat) else v, w.show(120)), key="newton/J%d%d" % idx)
    body = [T(mod, s) for s in loop.body]
    ok = K("d=dot(inv(J),[Br,Bz])") in body and K("R1=R1-d[0]") in body and K("Z1=Z1-d[1]") in body
    rep.ob("R2", "the update is the Newton step x <- x - J^-1 B", ok, f.site(loop), "", key="newton/step")
    conv = [s for s in loop.body if isinstance(s, ast.If) and T(mod, s.test) == K("Br**2+Bz**2<atol")]
    rep.ob("R2", "convergence is tested on Br^2+Bz^2 < atol before classification", len(conv) == 1, f.site(loop), "", key="newton/converged")
    disc = [s for s in loop.body if isinstance(s, ast.If) and "radius_sq" in T(mod, s.test) and K("count>maxits") in T(mod, s.test) and any(isinstance(x, ast.Break) for x in s.body)]
    rep.ob("R2", "iterations are abandoned when the point leaves the search radius or maxits is exceeded", len(disc) == 1, f.site(loop), "", key="newton/discard")
    # R1: classification block inside the convergence branch
    if not conv:
        return
    cb = conv[0]
    ex2 = CritEx(ctx, mod)
    env2 = {"R1": R1, "Z1": Z1}
    for s in cb.body:
        if isinstance(s, ast.If) and isinstance(s.test, ast.Constant):
            if s.test.value:
                ex2.block(s.body, env2)
    d2r, d2z, d2rz, D = env2.get("d2dr2"), env2.get("d2dz2"), env2.get("d2drdz"), env2.get("D")
    c = ex2.coef
    checks = [("d2dr2", d2r, 2 * c[(2, 0)]), ("d2dz2", d2z, 2 * c[(0, 2)]), ("d2drdz", d2rz, c[(1, 1)])]
    for nm, v, w in checks:
        ok = isinstance(v, Rat) and (v - w).is_zero()
        rep.ob("R1", "stencil %s reproduces the second derivative of every polynomial of degree <= 3 (moment conditions)" % nm, ok, f.site(cb),
               "stencil applied to sum c_mn x^m y^n gives %s ; expected %s" % (v.reduced().show(160) if isinstance(v, Rat) else v, w.show()), key="stencil/" + nm)
    ok = ex2.spacing_defs == {"dR": "R[1,0]-R[0,0]", "dZ": "Z[0,1]-Z[0,0]"}
    rep.ob("R1", "stencil spacings are the grid spacings dR = R[1,0]-R[0,0], dZ = Z[0,1]-Z[0,0]", ok, f.site(cb), str(ex2.spacing_defs), key="stencil/spacings")
    ok = isinstance(D, Rat) and all(isinstance(x, Rat) for x in (d2r, d2z, d2rz)) and (D - (d2r * d2z - d2rz * d2rz)).is_zero()
    rep.ob("R1", "D == f_RR*f_ZZ - f_RZ^2", ok, f.site(cb), "", key="stencil/discriminant")
    cls = [s for s in cb.body if isinstance(s, ast.If) and T(mod, s.test) == K("D<0.0")]
    ok = len(cls) == 1 and T(mod, cls[0].body[-1]) == K("xpoint.append((R1,Z1,f(R1,Z1)[0][0]))") and T(mod, cls[0].orelse[-1]) == K("opoint.append((R1,Z1,f(R1,Z1)[0][0]))")
    rep.ob("R1", "D < 0 => X-point, otherwise O-point; the refined position and psi there are recorded as (R, Z, psi)", ok, f.site(cb), "", key="classify")
    # stencil offsets stay inside the array: loops start 2 cells from the edges
    outer = [n for n in ast.walk(f.node) if isinstance(n, ast.For) and T(mod, n.iter) in (K("range(2,nx-2)"), K("range(2,ny-2)"))]
    rep.ob("R1", "candidate search leaves a 2-cell margin for the +-2 stencils", len(outer) == 2, f.site(), "", key="stencil/margin")
    # local-minimum test of Bp2 over the 8 neighbours
    mins = [n for n in ast.walk(f.node) if isinstance(n, ast.If) and T(mod, n.test).count(K("Bp2[i,j]<Bp2[")) == 8]
    nb = set()
    if mins:
        for cmp_ in ast.walk(mins[0].test):
            if isinstance(cmp_, ast.Compare):
                nb.add(T(mod, cmp_.comparators[0]))
    want_nb = {"Bp2[i+%s,j+%s]" % (a, b) for a in ("1", "0", "-1") for b in ("1", "0", "-1")}
    want_nb = {s.replace("+-", "-").replace("+0", "") for s in want_nb} - {"Bp2[i,j]"}
    rep.ob("R1", "candidates are strict local minima of Bp^2 over all 8 neighbours", nb == want_nb, f.site(mins[0]) if mins else f.site(), str(sorted(nb)), key="candidates")
    bp2 = [s for s in f.node.body if isinstance(s, ast.Assign) and T(mod, s.targets[0]) == "Bp2"]
    ok = bool(bp2) and T(mod, bp2[0].value) == K("(f(R,Z,dx=1,grid=False)**2+f(R,Z,dy=1,grid=False)**2)/R**2")
    rep.ob("R1", "Bp^2 == |grad psi|^2 / R^2 on the input grid", ok, f.site(), "", key="bp2")


def _sort_key(mod, f, listname):
    """E3 value of the key lambda of `<listname>.sort(key=lambda x: ...)` with atoms x[k]"""
    for n in walk_own(f.node):
        if isinstance(n, ast.Call) and T(mod, n.func) == listname + ".sort":
            for k in n.keywords:
                if k.arg == "key" and isinstance(k.value, ast.Lambda):
                    ctx = Context()
                    ex = Extractor(ctx, mod)
                    ex.on_name = lambda name, env: ctx.sym(name)
                    ex.on_subscript = lambda node, value, env: ctx.sym(T(mod, node))
                    try:
                        return ctx, ex.expr(k.value.body, {}), n
                    except AlgError:
                        return ctx, None, n
    return None, None, None


def r3(rep, mod, f):
    src = T(mod, f.node)
    ctx, key, node = _sort_key(mod, f, "opoint")
    ok = False
    if isinstance(key, Rat):
        d2 = (ctx.sym("x[0]") - ctx.sym("Rmid")) ** 2 + (ctx.sym("x[1]") - ctx.sym("Zmid")) ** 2
        ok = (key - d2).is_zero() or (key - ctx.call("sqrt", d2)).is_zero()
    ok = ok and K("Rmid=0.5*(R[-1,0]+R[0,0])") in src and K("Zmid=0.5*(Z[0,-1]+Z[0,0])") in src
    rep.ob("R3", "O-points are sorted by (squared) distance to the domain midpoint (primary first)", ok, f.site(node) if node else f.site(), key.show() if isinstance(key, Rat) else str(key), key="order/opoints")
    ctx, key, node = _sort_key(mod, f, "xpoint")
    ok = False
    if isinstance(key, Rat):
        d = ctx.sym("x[2]") - ctx.sym("psi_axis")
        ok = (key - d * d).is_zero() or (key - ctx.call("abs", d)).is_zero() or (key - ctx.call("sqrt", d * d)).is_zero()
    ok = ok and K("psi_axis=opoint[0][2]") in src
    rep.ob("R3", "X-points are sorted by a monotone function of |psi - psi_axis| of the primary O-point", ok, f.site(node) if node else f.site(), key.show() if isinstance(key, Rat) else str(key), key="order/xpoints")
    # order of operations: sort of O-points precedes use of opoint[0]
    body = [T(mod, s) for s in f.node.body]
    i_sort = next((k for k, s in enumerate(body) if s.startswith(K("opoint.sort("))), None)
    i_axis = next((k for k, s in enumerate(body) if s == K("psi_axis=opoint[0][2]")), None)
    i_xsort = next((k for k, s in enumerate(body) if s.startswith(K("xpoint.sort("))), None)
    rep.ob("R3", "the primary O-point is chosen before it is used to order the X-points", None not in (i_sort, i_axis, i_xsort) and i_sort < i_axis < i_xsort, f.site(), "", key="order/sequence")
    dup = mod.funcs.get("find_critical.remove_dup")
    # one closeness test |a - b|^2 < small, with a walking the candidates and b the points kept so
    # far (as an `if` in a loop over the kept list, or inside any(...) over it); a is appended
    import re as _re
    from ..model import as_less
    thr = []
    if dup is not None:
        for n in ast.walk(dup.node):
            less = as_less(n)
            if not (less and isinstance(less[2], ast.Constant) and isinstance(less[2].value, float) and 0 < less[2].value < 1e-2):
                continue
            m = _re.fullmatch(r"\((\w+)\[0\]-(\w+)\[0\]\)\*\*2\+\(\1\[1\]-\2\[1\]\)\*\*2", T(mod, less[0]))
            if not m:
                continue
            a, b = m.group(1), m.group(2)
            iters = {}
            for x in ast.walk(dup.node):
                if isinstance(x, (ast.For, ast.comprehension)):
                    # `for n, p in enumerate(points)` binds p to the elements of points
                    tgt, it = x.target, x.iter
                    if isinstance(it, ast.Call) and T(mod, it.func) == "enumerate" and isinstance(tgt, ast.Tuple) and len(tgt.elts) == 2:
                        tgt, it = tgt.elts[1], it.args[0]
                    if isinstance(tgt, ast.Name):
                        iters[tgt.id] = T(mod, it)
            kept = [x.func.value.id for x in ast.walk(dup.node) if isinstance(x, ast.Call) and isinstance(x.func, ast.Attribute) and x.func.attr == "append"
                    and isinstance(x.func.value, ast.Name) and len(x.args) == 1 and T(mod, x.args[0]) == a]
            params = [p_.arg for p_ in dup.node.args.args]
            if not (len(kept) == 1 and iters.get(b) == kept[0] and iters.get(a) in params and any(isinstance(r, ast.Return) and r.value is not None and T(mod, r.value) == kept[0] for r in ast.walk(dup.node))):
                continue
            # the candidate is a duplicate when ANY kept point is close: the test is the element of
            # any(... for b in kept), or the test of an `if` in the loop over kept that can only
            # raise a flag (flag = True; the flag is lowered before the loop and nowhere in it)
            parent = {}
            for x in ast.walk(dup.node):
                for ch in ast.iter_child_nodes(x):
                    parent[ch] = x
            up = parent.get(n)
            quant = False
            if isinstance(up, (ast.GeneratorExp, ast.ListComp)) and up.elt is n:
                call = parent.get(up)
                quant = isinstance(call, ast.Call) and T(mod, call.func) in ("any", "numpy.any") and call.args and call.args[0] is up
                if quant:
                    # ... and the candidate is appended exactly when that any(...) is false
                    from ..model import inline_temporaries
                    want = K("not " + ast.unparse(call))
                    quant = any(isinstance(st, ast.If) and T(mod, inline_temporaries(dup.node, st.test, inline_calls=True)) == want and not st.orelse
                                and any(isinstance(c, ast.Call) and T(mod, c) == K("%s.append(%s)" % (kept[0], a)) for c in ast.walk(st)) for st in ast.walk(dup.node))
            elif isinstance(up, ast.If) and up.test is n:
                loop = parent.get(up)
                flags = [st.targets[0].id for st in up.body if isinstance(st, ast.Assign) and isinstance(st.targets[0], ast.Name) and isinstance(st.value, ast.Constant) and st.value.value is True]
                if isinstance(loop, ast.For) and isinstance(loop.target, ast.Name) and loop.target.id == b and len(flags) == 1 and not up.orelse:
                    fl = flags[0]
                    inside = [st for st in ast.walk(loop) if isinstance(st, (ast.Assign, ast.AugAssign)) and any(isinstance(t_, ast.Name) and t_.id == fl for t_ in (st.targets if isinstance(st, ast.Assign) else [st.target]))]
                    outer = parent.get(loop)
                    blk = getattr(outer, "body", [])
                    k = blk.index(loop) if loop in blk else -1
                    lowered = k > 0 and isinstance(blk[k - 1], ast.Assign) and T(mod, blk[k - 1]) == K("%s = False" % fl)
                    guarded = any(isinstance(st, ast.If) and T(mod, st.test) == K("not %s" % fl) and any(isinstance(c, ast.Call) and T(mod, c) == K("%s.append(%s)" % (kept[0], a)) for c in ast.walk(st)) for st in blk[k + 1:])
                    quant = len(inside) == 1 and lowered and guarded
            if quant:
                thr.append(n)
    ok = dup is not None and len(thr) == 1 and K("xpoint=remove_dup(xpoint)") in src and K("opoint=remove_dup(opoint)") in src
    rep.ob("R3", "duplicates (closer than the threshold in R-Z) are removed from both lists, keeping the first", ok, f.site(), "", key="dedup")
    rets = [n for n in walk_own(f.node) if isinstance(n, ast.Return)]
    ok = all(r.value is not None and T(mod, r.value) == K("opoint,xpoint") for r in rets) and len(rets) >= 1
    rep.ob("R3", "the result is (O-points, X-points) in that order", ok, f.site(), "", key="return")



def leg_direction_rule(mod, fl, rep):
    """the leg tracer's right-hand side is a unit vector along the poloidal field at the current
    position: (dR, dZ)/dl = sign*(Bp_R, Bp_Z)/|Bp| evaluated at (pos[0], pos[1]); so the traced
    leg stays on the flux surface through its first point"""
    rhs = next((n for n in ast.walk(fl.node) if isinstance(n, ast.FunctionDef) and n is not fl.node and len(n.args.args) == 2
                and any(isinstance(x, ast.Call) and T(mod, x.func) == "solve_ivp" and x.args and isinstance(x.args[0], ast.Name) and x.args[0].id == n.name for x in ast.walk(fl.node))), None)
    if rhs is None:
        rep.ob("R4", "the leg tracer integrates along the poloidal field direction", False, fl.site(), "unmodelled: no local function handed to solve_ivp", key="legs/direction")
        return
    ctx = Context()
    ex = Extractor(ctx, mod)
    pos = rhs.args.args[1].arg
    R, Z = ctx.sym("R"), ctx.sym("Z")
    ex.on_attr = lambda d, node, env: ctx.sym(d)
    ex.on_subscript = lambda node, value, env: {"%s[0]" % pos: R, "%s[1]" % pos: Z}.get(T(mod, node)) or ctx.sym(T(mod, node))

    def on_call(node, fname, args, kwargs, env):
        if fname in ("self.Bp_R", "self.Bp_Z") and len(args) == 2 and all(isinstance(a, Rat) for a in args):
            if not ((args[0] - R).is_zero() and (args[1] - Z).is_zero()):
                raise WrongQuantity("%s is evaluated at (%s, %s), not at the current position of the trace" % (fname, args[0].show(), args[1].show()))
            return ctx.sym("BR" if fname.endswith("_R") else "BZ")
        if fname in ("numpy.sqrt", "np.sqrt", "sqrt") and len(args) == 1:
            return ctx.call("sqrt", args[0])
        raise AlgError("call %s" % fname)
    ex.on_call = on_call
    env = {"sign": ctx.sym("sign")}
    ex.on_name = lambda name, env_: ctx.sym(name)  # closure variables of the tracer (sign, leg, ...) are opaque symbols
    try:
        ret = None
        for st in rhs.body:
            if isinstance(st, ast.Assign):
                ex.stmt(st, env)
            elif isinstance(st, ast.Return):
                ret = st.value
        if not (isinstance(ret, (ast.List, ast.Tuple)) and len(ret.elts) == 2):
            raise AlgError("right-hand side does not return a pair")
        a, b = ex.expr(ret.elts[0], env), ex.expr(ret.elts[1], env)
        BR, BZ, sg = ctx.sym("BR"), ctx.sym("BZ"), ctx.sym("sign")
        par = (a * BZ - b * BR).is_zero()
        unit = ((a * a + b * b) * (BR * BR + BZ * BZ) - sg * sg * (BR * BR + BZ * BZ)).is_zero()
        same_way = (a * BR + b * BZ).subs({"sign": 1})  # positive multiple of |Bp| for sign=+1
        ok = par and unit and not (same_way + ctx.call("sqrt", BR * BR + BZ * BZ)).is_zero()
        detail = "residual parallel: %s; unit: %s" % ((a * BZ - b * BR).residual()[:80], "ok" if unit else "not of length |sign|")
    except WrongQuantity as e:
        ok, detail = False, str(e)
    except AlgError as e:
        ok, detail = False, "not representable: %s" % e
    rep.ob("R4", "the leg tracer integrates along the poloidal field direction: d(R,Z)/dl = sign*(Bp_R, Bp_Z)/|Bp| at the current position", ok, fl.site(rhs), detail, key="legs/direction")
    # the sign: away from the X-point, i.e. the sign of (leg - xpoint) . Bp at the leg's first point
    sg = [n for n in walk_own(fl.node) if isinstance(n, ast.Assign) and isinstance(n.targets[0], ast.Name) and n.targets[0].id == "sign"]
    ok = False
    if len(sg) == 1:
        v = inline_temporaries(fl.node, sg[0].value, inline_calls=True, keep=("leg",))
        if isinstance(v, ast.Call) and T(mod, v.func) == "numpy.sign" and len(v.args) == 1:
            ctx2 = Context()
            ex2 = Extractor(ctx2, mod)
            ex2.on_name = lambda name, env_: ctx2.sym(name)
            ex2.on_attr = lambda d, node, env_: ctx2.sym(d)
            ex2.on_subscript = lambda node, value, env_: ctx2.sym(T(mod, node))

            def on_call2(node, fname, args, kwargs, env_):
                if fname in ("self.Bp_R", "self.Bp_Z") and T(mod, node) in (K("%s(*leg)" % fname), K("%s(leg[0], leg[1])" % fname)):
                    return ctx2.sym("BR_leg" if fname.endswith("_R") else "BZ_leg")
                raise AlgError("call %s" % fname)
            ex2.on_call = on_call2
            ex2.pre_call = lambda node, fname, env_: (ctx2.sym("BR_leg" if fname.endswith("_R") else "BZ_leg") if fname in ("self.Bp_R", "self.Bp_Z") and T(mod, node) in (K("%s(*leg)" % fname), K("%s(leg[0], leg[1])" % fname)) else NotImplemented)
            try:
                arg = ex2.expr(v.args[0], {})
                want = (ctx2.sym("leg[0]") - ctx2.sym("xpoint.R")) * ctx2.sym("BR_leg") + (ctx2.sym("leg[1]") - ctx2.sym("xpoint.Z")) * ctx2.sym("BZ_leg")
                ok = isinstance(arg, Rat) and (arg - want).is_zero()
            except AlgError:
                ok = False
    rep.ob("R4", "the tracing direction is away from the X-point: sign = sign((leg - xpoint) . Bp(leg))", ok, fl.site(sg[0]) if sg else fl.site(), "", key="legs/direction-sign")


class WrongQuantity(Exception):
    pass


def _inner_outer(mod, fl):
    """findLegs returns {"inner": the traced leg whose strike point (last point) has the smaller
    major radius, "outer": the other}.  Decided by following the end of the function on both
    outcomes of the comparison of the two strike radii: a swap of the pair under the comparison
    and/or returns under it.  Anything else there is reported as unmodelled."""
    from ..stores import effects, Marker

    def leg_index(e):
        t = T(mod, e)
        return {K("leg_lines[0]"): 0, K("leg_lines[1]"): 1}.get(t)

    def comparison(c):
        """(i, j, op) for `leg_lines[i][-1].R op leg_lines[j][-1].R`, negation folded in"""
        neg = False
        while isinstance(c, ast.UnaryOp) and isinstance(c.op, ast.Not):
            neg, c = not neg, c.operand
        if not (isinstance(c, ast.Compare) and len(c.ops) == 1 and type(c.ops[0]) in (ast.Gt, ast.Lt, ast.GtE, ast.LtE)):
            return None
        sides = []
        for x in (c.left, c.comparators[0]):
            if isinstance(x, ast.Attribute) and x.attr != "R" and isinstance(x.value, ast.Subscript) and leg_index(x.value.value) is not None:
                raise WrongQuantity("the legs are compared by `%s`, not by the major radius of their last point" % T(mod, x))
            if isinstance(x, ast.Attribute) and x.attr == "R" and isinstance(x.value, ast.Subscript) and leg_index(x.value.value) is not None and T(mod, x.value.slice) != "-1":
                raise WrongQuantity("the legs are compared at point [%s], not at their last point (the strike point)" % T(mod, x.value.slice))
            if not (isinstance(x, ast.Attribute) and x.attr == "R" and isinstance(x.value, ast.Subscript) and T(mod, x.value.slice) == "-1"):
                return None
            sides.append(leg_index(x.value.value))
        if None in sides or sides[0] == sides[1]:
            return None
        op = type(c.ops[0])
        if neg:
            op = {ast.Gt: ast.LtE, ast.Lt: ast.GtE, ast.GtE: ast.Lt, ast.LtE: ast.Gt}[op]
        return sides[0], sides[1], op

    effs = [e for e in effects(fl.node, keep=("leg_lines",)) if not any(isinstance(c, Marker) for c in e.conds)]
    rets = [e for e in effs if e.kind == "return" and isinstance(e.value, ast.Dict)]
    if not rets:
        return False, "unmodelled: no dictionary is returned outside the tracing loops"
    verdicts = []
    for first_larger in (True, False):  # strike radius of traced leg 0 > that of traced leg 1 ?
        perm = [0, 1]  # leg_lines[k] currently holds traced leg perm[k]

        def truth(c):
            if "leg_lines" not in T(mod, c):
                return None  # a condition on something else (legs found, two crossings): not what is decided here
            cmp_ = comparison(c)
            if cmp_ is None:
                raise ValueError("unmodelled condition %s" % T(mod, c)[:60])
            i, j, op = cmp_
            a, b = perm[i], perm[j]
            larger = (a == 0) == first_larger  # is R of traced leg a the larger one
            # ties (equal radii) are not a distinguishing case: strict and non-strict agree here
            return larger if op in (ast.Gt, ast.GtE) else not larger

        try:
            result = None
            for e in effs:
                tv = [truth(c) for c in e.conds]
                if False in tv or (None in tv and e.kind == "raise"):
                    continue  # not on this path / a refusal for another reason
                if e.kind == "store" and isinstance(e.target, ast.Name) and e.target.id == "leg_lines":
                    v = T(mod, e.value)
                    if v == K("leg_lines[::-1]") or v in (K("[leg_lines[1], leg_lines[0]]"), K("leg_lines[1], leg_lines[0]")):
                        perm = perm[::-1]
                    elif isinstance(e.value, ast.List) and not e.value.elts:
                        pass
                    else:
                        raise ValueError("unmodelled store to leg_lines: %s" % v[:60])
                elif e.kind == "return" and isinstance(e.value, ast.Dict):
                    d = {k.value: leg_index(v) for k, v in zip(e.value.keys, e.value.values) if isinstance(k, ast.Constant)}
                    if set(d) != {"inner", "outer"} or None in d.values():
                        raise ValueError("unmodelled return %s" % T(mod, e.value)[:60])
                    result = (perm[d["inner"]], perm[d["outer"]])
                    break
                elif e.kind in ("return", "raise"):
                    raise ValueError("unmodelled exit before the legs are returned")
        except WrongQuantity as ex:
            return False, str(ex)
        except ValueError as ex:
            return False, str(ex)
        if result is None:
            return False, "unmodelled: no return reached when strike R of leg 0 %s leg 1" % (">" if first_larger else "<")
        smaller = 1 if first_larger else 0
        verdicts.append(result == (smaller, 1 - smaller))
    return all(verdicts), "" if all(verdicts) else "the leg with the larger strike radius is labelled inner on some outcome of the comparison"


def r4(prog, rep):
    mod = prog.module(TOK)
    f = mod.funcs.get("TokamakEquilibrium.makeRegions")
    if f is None:
        raise AnalysisError("makeRegions not found")
    src = T(mod, f.node)
    comps = [c for c in ast.walk(f.node) if isinstance(c, ast.comprehension) and T(mod, c.iter) == K("zip(self.psi_sep, self.x_points)") and T(mod, c.target) == K("psi, xpoint")]
    ok = len(comps) == 1 and len(comps[0].ifs) == 1 and T(mod, comps[0].ifs[0]) == K("self._psi_to_psinorm(psi) < self._psi_to_psinorm(self.psi_sol) and inside_wall(xpoint)") and K("self.psi_sep,self.x_points=zip(") in src
    rep.ob("R4", "X-points are kept iff psinorm < psinorm(psi_sol) and inside the wall; psi_sep and x_points are filtered together", ok, f.site(), "", key="select/filter")
    ok = any(isinstance(n, ast.If) and T(mod, n.test) == K("not 0 < len(self.x_points) <= 2") and any(isinstance(x, ast.Raise) for x in n.body) for n in ast.walk(f.node))
    rep.ob("R4", "zero or more than two remaining X-points is an error", ok, f.site(), "", key="select/count")
    ok = False
    for n in ast.walk(f.node):
        if isinstance(n, ast.If) and isinstance(n.test, ast.Compare) and len(n.test.ops) == 1 and isinstance(n.test.ops[0], ast.Eq) \
                and T(mod, n.test.left) == K("len(self.x_points)") and isinstance(n.test.comparators[0], ast.Constant) and n.test.comparators[0].value in (1, 2):
            k = n.test.comparators[0].value
            calls = lambda arm: {x.func.attr for st in arm for x in ast.walk(st) if isinstance(x, ast.Call) and isinstance(x.func, ast.Attribute) and x.func.attr in ("describeSingleNull", "describeDoubleNull")}
            names = lambda arm: {x.attr for st in arm for x in ast.walk(st) if isinstance(x, ast.Attribute) and x.attr in ("describeSingleNull", "describeDoubleNull")}
            body, other = names(n.body), names(n.orelse)
            want_body = {"describeSingleNull"} if k == 1 else {"describeDoubleNull"}
            want_other = {"describeDoubleNull"} if k == 1 else {"describeSingleNull"}
            if body == want_body and other == want_other:
                ok = True
    rep.ob("R4", "one X-point => single null, two => double null", ok, f.site(), "", key="select/dispatch")
    g = mod.funcs.get("TokamakEquilibrium.makeRegions.inside_wall")
    ok = g is not None and K("returnnotpolygons.intersect([Rc,point.R],[Zc,point.Z],Rws,Zws)") in T(mod, g.node)
    rep.ob("R4", "inside-wall test: the segment from the wall's bounding-box centre to the point does not cross the wall", ok, f.site(), "", key="select/inside-wall")
    # psinorm map
    h = mod.funcs.get("TokamakEquilibrium._psi_to_psinorm")
    ctx = Context()
    ex = Extractor(ctx, mod)
    ex.on_attr = lambda d, node, env: ctx.sym(d)
    ex.on_subscript = lambda node, value, env: ctx.sym(T(mod, node))
    ret = [r for r in walk_own(h.node) if isinstance(r, ast.Return) and r.value is not None and not isinstance(r.value, ast.Constant)]
    v = ex.expr(ret[-1].value, {"psi": ctx.sym("psi")})
    ok = v.subs({"psi": ctx.sym("self.psi_axis")}).is_zero() and (v.subs({"psi": ctx.sym("self.psi_sep[0]")}) - 1).is_zero()
    rep.ob("R4", "psinorm is 0 at the axis and 1 at the primary separatrix (so the test is sign-independent)", ok, h.site(), v.show(), key="select/psinorm")
    fl = mod.funcs.get("TokamakEquilibrium.findLegs")
    src = T(mod, fl.node)
    ok, detail = _inner_outer(mod, fl)
    rep.ob("R4", "legs are labelled inner/outer by the major radius of their strike points (last point of each traced leg)", ok, fl.site(), detail, key="legs/inner-outer")
    leg_direction_rule(mod, fl, rep)
    from ..stores import effects
    two = False
    for e in effects(fl.node, inline=False):
        c = e.conds[-1] if e.conds and not isinstance(e.conds[-1], str) else None
        if e.kind == "raise" and isinstance(c, ast.Compare) and len(c.ops) == 1 and isinstance(c.ops[0], ast.NotEq) and isinstance(c.comparators[0], ast.Constant) \
                and c.comparators[0].value == 2 and isinstance(c.left, ast.Call) and T(mod, c.left.func) == "len" and isinstance(c.left.args[0], ast.Name):
            nm = c.left.args[0].id
            # the counted crossings are what the tracing loops run over (one traced leg per crossing)
            two = any(isinstance(l, ast.For) and isinstance(l.iter, ast.Name) and l.iter.id == nm for l in walk_own(fl.node))
    ok = K("line=[xpoint]") in src and K("line.append(intersect)") in src and two
    rep.ob("R4", "each leg runs from the X-point to its wall intersection; exactly two legs per X-point", ok, fl.site(), "", key="legs/shape")
    init = mod.funcs.get("TokamakEquilibrium.__init__")
    src = T(mod, init.node)
    ok = K("self.x_points = [Point2D(r, z) for r, z, psi in xpoints]") in src and K("self.psi_sep = [psi for r, z, psi in xpoints]") in src
    rep.ob("R4", "x_points and psi_sep are parallel lists in find_critical's order", ok, init.site(), "", key="select/parallel-lists")
