"""C08 block topology, branch-cut indices and global index map (tables E5 + index typing).

Per topology seed (LSN, USN, CDN, LDN, UDN, each also with start_at_upper_outer; TORPEX):
R1 the connection table is a partial bijection between equally named (hence equally
   sized, identically gridded) radial segments.
R2 X-point pins agree across every connection; region kinds agree with their ends.
R3 the global index rectangle is tiled by cumulative sums of nx and ny in region order.
R4 the topology integers written by the writer, read with BOUT++'s documented meaning,
   give block boundaries that coincide with region boundaries for all positive sizes, the
   same cell adjacency as the connection table in every x-zone, and correctly ordered
   indices.
R5 index-space typing in the writer: y-subscripts of with-guard arrays built from the
   no-guard topology integers carry the guard offsets (theta offsets, chi NaN ranges).
R6 y-coord / theta construction (cumulative dy, half-cell faces).
R7 y-groups: every region gets one yGroupIndex; a periodic chain starts at its first member
   in region order (the documented origin of closed surfaces).
R8 x-direction arrays are placed with an x-only index at every location; chi is finite
   exactly where ShiftAngle is.
Not decided: geometric coincidence of shared-edge points (numbers).
"""
import ast
from fractions import Fraction

from ..alg import AlgError, Context, Rat
from ..extract import Extractor, Opaque, PathRaises, ReturnValue, _dotted
from ..model import Program, walk_own, is_self_attr, dotted, inline_temporaries
from ..report import AnalysisError
from .. import tables
from ..tables import Leaf
from ..model import canon as K

MESH = "hypnotoad/core/mesh.py"
TOK = tables.TOK


def T(mod, node):
    return mod.code(node)


# ---------------------------------------------------------------------------------
# affine decision procedure over positive integer sizes
# ---------------------------------------------------------------------------------
def affine_parts(r):
    """Rat -> (dict leaf name -> coefficient, constant) or None if not affine"""
    if not isinstance(r, Rat):
        return None
    r = r.reduced() if r.ctx.relations else r
    if len(r.den) != 1 or () not in r.den:
        return None
    d = r.den[()]
    co = {}
    c0 = Fraction(0)
    for m, c in r.num.items():
        if not m:
            c0 += c / d
        elif len(m) == 1 and m[0][1] == 1:
            co[r.ctx.atoms[m[0][0]].name] = c / d
        else:
            return None
    return co, c0


def nonneg_for_positive_sizes(r, size_min=1):
    """r >= 0 for all sizes >= size_min (each symbol an independent positive integer).
    returns (True, None) | (False, direction) | (None, reason)"""
    p = affine_parts(r)
    if p is None:
        return None, "not affine: %s" % (r.show(80) if isinstance(r, Rat) else r)
    co, c0 = p
    neg = [k for k, v in co.items() if v < 0]
    if neg:
        return False, "fails for large %s" % ", ".join(sorted(neg))
    if sum(co.values()) * size_min + c0 < 0:
        return False, "fails at the smallest sizes"
    return True, None


# ---------------------------------------------------------------------------------
# writer evaluation
# ---------------------------------------------------------------------------------
class WriterEx(Extractor):
    def __init__(self, ctx, module, facts):
        super().__init__(ctx, module)
        self.facts = facts

    def on_attr(self, d, node, env):
        f = self.facts
        if d in f:
            return f[d]
        return self.ctx.sym(d)

    def on_name(self, name, env):
        raise AlgError("unbound " + name)

    def on_subscript(self, node, value, env):
        if isinstance(value, list):
            sl = node.slice
            if isinstance(sl, ast.Slice):
                ci = lambda v: None if v is None else int(self.expr(v, env).as_const())
                return value[ci(sl.lower):ci(sl.upper):ci(sl.step)]
            return value[int(self.expr(sl, env).as_const())]
        raise AlgError("subscript " + self.text(node))

    def binop(self, op, a, b, node=None):
        if isinstance(op, ast.FloorDiv):
            a, b = self.num(a), self.num(b)
            if b.as_const() == 2:
                return self.ctx.call("floor_half", a)
            raise AlgError("floor division")
        return super().binop(op, a, b, node)

    def on_call(self, node, fname, args, kwargs, env):
        if fname and fname.endswith(".split") and isinstance(self.facts.get(fname[:-6]), str) and len(args) == 1 and isinstance(args[0], str):
            return self.facts[fname[:-6]].split(args[0])
        if fname == "len" and isinstance(args[0], list):
            return self.ctx.const(len(args[0]))
        if fname == "sum" and isinstance(args[0], list):
            r = self.ctx.const(0)
            for x in args[0]:
                r = r + x
            return r
        if fname in ("next", "iter"):
            return Opaque(fname)
        raise AlgError("call %s" % fname)

    def try_bool(self, test, env):
        if isinstance(test, ast.Compare) and len(test.ops) == 1 and isinstance(test.ops[0], (ast.Eq, ast.NotEq)):
            try:
                a, b = self.expr(test.left, env), self.expr(test.comparators[0], env)
            except AlgError:
                return None
            if isinstance(a, str) and isinstance(b, str):
                return (a == b) == isinstance(test.ops[0], ast.Eq)
            if isinstance(a, Rat) and isinstance(b, Rat):
                ca, cb = a.as_const(), b.as_const()
                if ca is not None and cb is not None:
                    return (ca == cb) == isinstance(test.ops[0], ast.Eq)
                # symbolic: equal normal forms are equal; different affine forms differ for
                # some sizes - decide only syntactic identity, else undecided
                if (a - b).is_zero():
                    return isinstance(test.ops[0], ast.Eq)
                ok, _ = nonneg_for_positive_sizes(a - b - 1)
                ok2, _ = nonneg_for_positive_sizes(b - a - 1)
                if ok or ok2:
                    return isinstance(test.ops[0], ast.NotEq)
                return None
        if isinstance(test, ast.Compare) and len(test.ops) == 1 and isinstance(test.ops[0], (ast.GtE, ast.Gt, ast.LtE, ast.Lt)):
            try:
                a, b = self.expr(test.left, env), self.expr(test.comparators[0], env)
            except AlgError:
                return None
            if isinstance(a, Rat) and isinstance(b, Rat):
                op = type(test.ops[0])
                d = {ast.GtE: a - b, ast.Gt: a - b - 1, ast.LtE: b - a, ast.Lt: b - a - 1}[op]  # integers
                ok, _ = nonneg_for_positive_sizes(d)
                if ok:
                    return True
                ok2, _ = nonneg_for_positive_sizes(-d - 1)
                if ok2:
                    return False
                return None
        return super().try_bool(test, env)


def writer_integers(prog, topo):
    """evaluate the topology-integer section of the grid-file writer for one topology"""
    mod = prog.module(MESH)
    w = mod.funcs.get("BoutMesh.writeGridfile")
    if w is None:
        raise AnalysisError("writeGridfile not found")
    ctx = Context()
    order = topo.order
    regs = topo.regions
    first = regs[order[0]]
    nxs = [ctx.sym("nx[%s]" % s) for s in first["segments"]]
    xs = [ctx.const(0)]
    for n in nxs:
        xs.append(xs[-1] + n)
    nys = [ctx.sym("ny[%s]" % r) for r in order]
    g = ctx.sym("myg")
    ny_guards = ctx.const(0)
    for r, n in zip(order, nys):
        ny_guards = ny_guards + n
        if regs[r]["kind"].split(".")[0] == "wall":
            ny_guards = ny_guards + g
        if regs[r]["kind"].split(".")[1] == "wall":
            ny_guards = ny_guards + g
    facts = {
        "self.x_startinds": xs,
        "self.y_regions_noguards": nys,
        "self.nx": xs[-1],
        "self.ny": ny_guards,
        "self.equilibrium.double_null_type": topo.double_null_type if topo.double_null_type else "none",
        "eq_region0.separatrix_radial_index": ctx.const(getattr(topo, "sep_index", 1)),
        "eq_region0.kind": regs[order[0]]["kind"],
        "self.user_options.y_boundary_guards": g,
    }
    ex = WriterEx(ctx, mod, facts)
    env = {}
    body = None
    for n in ast.walk(w.node):
        if isinstance(n, ast.With):
            body = n.body
    if body is None:
        raise AnalysisError("writer body not found")
    subjects = (K("len(self.x_startinds)"), K("len(self.y_regions_noguards)"))
    for s in body:
        # a local that names one of the dispatch subjects (`n_x = len(self.x_startinds)`) is bound first
        # (also an integer offset of it: `n_xsegments = len(self.x_startinds) - 1`)
        if isinstance(s, ast.Assign) and len(s.targets) == 1 and isinstance(s.targets[0], ast.Name) and any(k in T(mod, s.value) for k in subjects) \
                and all(isinstance(x, (ast.BinOp, ast.Add, ast.Sub, ast.Constant, ast.Call, ast.Name, ast.Attribute, ast.Load)) for x in ast.walk(s.value)):
            ex.stmt(s, env)
            continue
        if isinstance(s, ast.If) and any(k in T(mod, inline_temporaries(w.node, s.test, inline_calls=True)) for k in subjects):
            try:
                ex.stmt(s, env)
            except PathRaises as e:
                return ctx, None, "writer raises: %s" % e, facts
    names = ["ixseps1", "ixseps2", "jyseps1_1", "jyseps2_1", "ny_inner", "jyseps1_2", "jyseps2_2"]
    out = {}
    for k in names:
        v = env.get(k)
        if not isinstance(v, Rat):
            return ctx, None, "%s not assigned by the writer for this topology" % k, facts
        out[k] = v
    return ctx, out, None, facts


# ---------------------------------------------------------------------------------
def run(rep, tier):
    prog = Program()
    rep.analysed_add("files", [MESH, TOK, "hypnotoad/core/equilibrium.py", "hypnotoad/cases/torpex.py", "hypnotoad/cases/circular.py"])
    for r, t in (("R1", "connection table is a partial bijection between equally named segments"), ("R2", "X-point pins agree across joins; kinds agree with ends"),
                 ("R3", "tiling by cumulative sums"), ("R4", "topology integers vs BOUT++ adjacency"), ("R5", "guard offsets on with-guard subscripts"),
                 ("R6", "y-coord/theta construction"), ("R7", "y-groups and origin of closed surfaces"), ("R8", "x-direction arrays")):
        rep.rule(r, t)
    topos = tables.all_topologies(prog)
    topos.append(torpex_topology(prog))
    topos.extend(circular_topologies(prog))
    rep.analysed_add("topology seeds", [t.name for t in topos])
    for t in topos:
        r1_r2(rep, t)
        r4(prog, rep, t)
    rep.floor("seeds", len(topos), 12)
    make_connection(prog, rep)
    # radially adjacent blocks share an edge only if adjoining radial segments end/start on
    # the same psi value (rule instances of C09.R5, psi part)
    from ..report import Premise
    from . import c09
    rep.rule("R0", "premise: adjoining radial segments of a region share their boundary psi value (C09.R5)")
    c09.segment_pairs(prog, Premise(rep, "R0", "C09"), grad=False)
    # a table entry stored twice in a row stands where a different entry was meant
    from .. import redundancy
    reps = []
    for f in prog.all_funcs():
        for a, b, t in redundancy.repeated_stores(f):
            reps.append((f, b, t))
            rep.ob("R1", "%s: `%s` is not stored twice in a row" % (f.qualname, t[:70]), False, f.site(b), "identical to the statement before it: the entry that was meant to be set is left unset", key="tables/repeated-store/%s/%s" % (f.qualname, t[:70]))
    rep.ob("R1", "no subscript/attribute store is repeated verbatim in consecutive statements", not reps, "", "", key="tables/repeated-store/none")
    from .. import sides
    sides.check(prog, rep, "R1", lambda f: f.module.rel in ("hypnotoad/cases/tokamak.py", "hypnotoad/cases/torpex.py") or
                (f.module.rel == "hypnotoad/core/mesh.py" and f.qualname not in ("MeshRegion.addPointAtWallToContours", "_find_intersection", "MeshRegion.calcPenaltyMask")),
                "topology tables and mesh assembly (cases/*.py, core/mesh.py)")
    r3(prog, rep)
    shared_radial_edge_rule(prog, rep, topos)
    r5_r6(prog, rep, topos)
    y_group_origin(prog, rep, "R7")
    r8(prog, rep)
    rep.undecided("geometric coincidence of points on shared edges (numbers); circular core/limiter handled by the 1-region arm of the writer")
    return __doc__


def shared_radial_edge_rule(prog, rep, topos):
    """Two radially adjacent blocks share the contour at the boundary of their radial segments and
    each regrids its own copy of it (MeshRegion.distributePointsNonorthogonal).  The points
    coincide only if the spacing function on that contour does not depend on which block
    computes it.  The generic direction vector does depend on it (it is taken through the
    block's own neighbouring contours, one-sided at the block's edge), so the code special-cases
    separatrix contours.  Segment boundaries are at *every* separatrix (tables: psi_sep[0] and,
    for a disconnected double null, psi_sep[1]); hence the special case must quantify over all of
    equilibrium.psi_sep, not name one of them."""
    f = prog.func(MESH, "MeshRegion.distributePointsNonorthogonal")
    mod = f.module
    sv = next((n for n in ast.walk(f.node) if isinstance(n, ast.FunctionDef) and n.name == "surface_vec"), None)
    # how many distinct separatrices bound radial segments, per the topology tables
    nsep = 1
    for t in topos:
        vals = set()
        for seg in t.segments.values():
            for k in ("psi_start", "psi_end"):
                v = seg.get(k)
                if v is not None and "psi_sep" in str(getattr(v, "show", lambda *a: str(v))()):
                    vals.add(str(v.show()) if hasattr(v, "show") else str(v))
        nsep = max(nsep, len(vals))
    if sv is None:
        rep.ob("R3", "non-orthogonal regridding: contours on every separatrix get a spacing that both adjacent blocks compute alike", False, f.site(),
               "unmodelled: no local function surface_vec in distributePointsNonorthogonal", key="shared-edge/separatrix-test")
        return
    tests = [n for n in walk_own(sv) if isinstance(n, ast.Assign) and isinstance(n.targets[0], ast.Name) and n.targets[0].id == "contour_is_separatrix"]
    if len(tests) != 1:
        rep.ob("R3", "non-orthogonal regridding: contours on every separatrix get a spacing that both adjacent blocks compute alike", False, f.site(sv),
               "unmodelled: %d definitions of contour_is_separatrix" % len(tests), key="shared-edge/separatrix-test")
        return
    v = inline_temporaries(sv, tests[0].value)
    # every use of equilibrium.psi_sep in the test: subscripted (one element or a slice) or whole
    single = [mod.code(x) for x in ast.walk(v) if isinstance(x, ast.Subscript) and isinstance(x.value, ast.Attribute) and x.value.attr == "psi_sep"]
    whole = [x for x in ast.walk(v) if isinstance(x, ast.Attribute) and x.attr == "psi_sep"
             and not any(isinstance(p_, ast.Subscript) and p_.value is x for p_ in ast.walk(v))]
    over_all = bool(whole) and (any(isinstance(x, (ast.GeneratorExp, ast.ListComp)) and any(g.iter in whole for g in x.generators) for x in ast.walk(v))
                                or any(isinstance(x, ast.Call) and mod.code(x.func) in ("numpy.any", "any", "numpy.isclose") and any(y in whole for y in ast.walk(x)) for x in ast.walk(v)))
    if single:
        ok, detail = False, "only %s is recognised as a separatrix; the tables put radial segment boundaries on %d separatrices (disconnected double null: psi_sep[0] and psi_sep[1]), so on the other one the two adjacent blocks use different one-sided direction vectors and place different points on the shared edge" % (", ".join(sorted(set(single))), max(nsep, 2))
    elif over_all:
        ok, detail = True, "test quantifies over equilibrium.psi_sep"
    else:
        ok, detail = False, "unmodelled separatrix test: %s" % mod.code(v)[:100]
    rep.ob("R3", "non-orthogonal regridding: contours on every separatrix get a spacing that both adjacent blocks compute alike", ok, f.site(tests[0]), detail, key="shared-edge/separatrix-test")
    # the special case itself must not depend on the block: it returns the region's wall vector or None
    rets = [mod.code(r.value) if r.value is not None else "None" for n in walk_own(sv) if isinstance(n, ast.If) and mod.code(n.test) == "contour_is_separatrix" for r in ast.walk(n) if isinstance(r, ast.Return)]
    ok = bool(rets) and set(rets) <= {"self.equilibriumRegion.wallSurfaceAtStart", "self.equilibriumRegion.wallSurfaceAtEnd", "None"}
    rep.ob("R3", "on a separatrix contour the direction vector is the poloidal region's wall vector or none (the same for both adjacent blocks)", ok, f.site(sv), str(sorted(set(rets))), key="shared-edge/separatrix-vector")


def conn_maps(t):
    up, low = {}, {}
    dup = []
    for (a, i, b, j) in t.connections:
        if (a, i) in up:
            dup.append(("upper", a, i))
        if (b, j) in low:
            dup.append(("lower", b, j))
        up[(a, i)] = (b, j)
        low[(b, j)] = (a, i)
    return up, low, dup


def r1_r2(rep, t):
    site = TOK if not t.name.startswith("TORPEX") else "hypnotoad/cases/torpex.py"
    up, low, dup = conn_maps(t)
    rep.ob("R1", "%s: each region edge is connected at most once" % t.name, not dup, site, str(dup), key="%s/conn/unique" % t.name)
    for (a, i), (b, j) in up.items():
        key = "%s/conn/%s.%d->%s.%d" % (t.name, a, i, b, j)
        if a not in t.regions or b not in t.regions:
            rep.ob("R1", "%s: connection %s.%d -> %s.%d names existing regions" % (t.name, a, i, b, j), False, site, "", key=key + "/exists")
            continue
        sa, sb = t.regions[a]["segments"], t.regions[b]["segments"]
        ok = i == j and i < len(sa) and j < len(sb) and sa[i] == sb[j]
        rep.ob("R1", "%s: %s[%d] -> %s[%d] joins the same radial segment (same name => same nx and psi grid)" % (t.name, a, i, b, j), ok, site,
               "%s vs %s" % (sa[i] if i < len(sa) else None, sb[j] if j < len(sb) else None), key=key)
        if t.name.startswith("CIRC/"):
            continue  # documented: kind X.X makes the region y-periodic, there is no X-point to pin
        # R2 pins
        xe = t.regions[a].get("xpoints_at_end")
        xs = t.regions[b].get("xpoints_at_start")
        ok = xe is not None and xs is not None and len(xe) > i + 1 and len(xs) > j + 1 and xe[i] == xs[j] and xe[i + 1] == xs[j + 1]
        rep.ob("R2", "%s: corners pinned at the upper end of %s[%d] and the lower end of %s[%d] are the same X-points" % (t.name, a, i, b, j), ok, site,
               "%s vs %s" % (xe, xs), key=key + "/pins")
    # all segment lists have the same length; segment k has the same nx in all regions
    lens = {len(r["segments"]) for r in t.regions.values()}
    rep.ob("R1", "%s: all regions have the same number of radial segments" % t.name, len(lens) == 1, site, str(lens), key="%s/nseg" % t.name)
    # kinds vs ends
    for name, r in t.regions.items():
        if t.name.startswith("CIRC/"):
            break  # checked in R4 (kind <-> periodic connection)
        k0, k1 = r["kind"].split(".")
        nseg = len(r["segments"])
        has_low = [(name, i) in low for i in range(nseg)]
        has_up = [(name, i) in up for i in range(nseg)]
        ok0 = (k0 == "wall" and "wall_at_start" in r and not any(has_low) and r.get("xpoints_at_start") is None) or \
              (k0 == "X" and "wall_at_start" not in r and all(has_low) and r.get("xpoints_at_start") is not None and any(x is not None for x in r["xpoints_at_start"]))
        ok1 = (k1 == "wall" and "wall_at_end" in r and not any(has_up) and r.get("xpoints_at_end") is None) or \
              (k1 == "X" and "wall_at_end" not in r and all(has_up) and r.get("xpoints_at_end") is not None and any(x is not None for x in r["xpoints_at_end"]))
        rep.ob("R2", "%s: region %s of kind %s has matching ends (wall: wall vector, no connection, no pin; X: pins and every segment connected)" % (t.name, name, r["kind"]),
               ok0 and ok1, site, "lower connections %s upper %s" % (has_low, has_up), key="%s/kind/%s" % (t.name, name))
    # leg point lists: reversed exactly for regions that start at a wall (legs are traced from the X-point)
    for name, r in t.regions.items():
        pts = r.get("points")
        if pts is None:
            continue
        rev = isinstance(pts, tables.Sliced) and pts.lo is None and pts.hi is None and isinstance(pts.step, Rat) and pts.step.as_const() == -1
        plain = isinstance(pts, Leaf)
        want_rev = r["kind"].startswith("wall")
        rep.ob("R2", "%s: leg %s point list is %s (legs are traced from the X-point to the target)" % (t.name, name, "reversed" if want_rev else "not reversed"),
               (rev if want_rev else plain), site, repr(pts), key="%s/points/%s" % (t.name, name))


def circular_topologies(prog):
    """the two one-region topologies of the circular case, read from its region builder: a
    y-periodic core (kind X.X, connected to itself) and a limiter SOL (kind wall.wall)"""
    mod = prog.module("hypnotoad/cases/circular.py")
    f = mod.funcs.get("CircularEquilibrium.makeRegion")
    init = mod.funcs.get("CircularEquilibrium.__init__")
    if f is None or init is None:
        raise AnalysisError("circular region builder not found")
    out = []
    for limiter in (False, True):
        kind = sep = None
        for n in walk_own(f.node):
            if isinstance(n, ast.If) and T(mod, n.test) == "self.user_options.limiter":
                arm = n.body if limiter else n.orelse
                for s in arm:
                    if isinstance(s, ast.Assign) and isinstance(s.targets[0], ast.Name) and s.targets[0].id == "kind" and isinstance(s.value, ast.Constant):
                        kind = s.value.value
                    if isinstance(s, ast.Assign) and isinstance(s.targets[0], ast.Attribute) and s.targets[0].attr == "separatrix_radial_index":
                        v = s.value
                        sep = -v.operand.value if isinstance(v, ast.UnaryOp) else v.value
        want_cond = "self.user_options.limiter" if limiter else "notself.user_options.limiter"
        conns = [args for conds, args in _connection_calls(init.node) if want_cond in ["".join(c.split()) for c in conds]]
        if kind is None or sep is None:
            raise AnalysisError("circular kind / separatrix_radial_index not found for limiter=%s" % limiter)
        regions = {"circular": {"segments": ["circular_seg"], "kind": kind}}
        t = tables.Topology("CIRC/" + ("limiter" if limiter else "core"), {"nx": 0}, regions, {}, {"circular_seg": {}}, conns, ["circular"], None, [])
        t.ctx = Context()
        t.sep_index = sep
        out.append(t)
    return out


def _connection_calls(fnode):
    """(conditions, constant arguments) of every self.makeConnection(...) the function makes,
    whether written out call by call or as a loop over a literal table"""
    from ..stores import effects
    out = []
    for e in effects(fnode, consts=True):
        if e.kind == "call" and _dotted(e.value.func) == "self.makeConnection":
            if not all(isinstance(a, ast.Constant) for a in e.value.args) or e.value.keywords:
                raise AnalysisError("makeConnection call with arguments that are not literal (unmodelled): %s" % ast.unparse(e.value)[:80])
            out.append((e.cond_text(), tuple(a.value for a in e.value.args)))
    return out


def r4_one_region(prog, rep, t, ctx, ints, facts, site):
    """no X-point: BOUT++ sees one block in y; closed surfaces (periodic) iff ixseps == nx"""
    nys = facts["self.y_regions_noguards"]
    xs = facts["self.x_startinds"]
    eq = lambda a, b: (a - b).is_zero()
    rep.ob("R4", "%s: jyseps1_1 == -1 (no lower inner leg)" % t.name, eq(ints["jyseps1_1"], ctx.const(-1)), site, ints["jyseps1_1"].show(), key="%s/one/jyseps1_1" % t.name)
    rep.ob("R4", "%s: jyseps2_1 == jyseps1_2 (no upper legs)" % t.name, eq(ints["jyseps2_1"], ints["jyseps1_2"]), site,
           "%s vs %s" % (ints["jyseps2_1"].show(60), ints["jyseps1_2"].show(60)), key="%s/one/no-upper-legs" % t.name)
    d = ints["jyseps2_2"] + 1 - nys[0]
    ok, why = _nonneg_with_floor(ctx, d)
    rep.ob("R4", "%s: jyseps2_2 >= ny-1 (no lower outer leg) for all sizes" % t.name, ok is True, site, "%s : %s" % (d.show(80), why), key="%s/one/jyseps2_2" % t.name)
    for lo, hi in (("jyseps1_1", "jyseps2_1"), ("jyseps1_2", "jyseps2_2")):
        d = ints[hi] - ints[lo]
        ok, why = _nonneg_with_floor(ctx, d)
        rep.ob("R4", "%s: %s <= %s for all sizes" % (t.name, lo, hi), ok is True, site, "%s : %s" % (d.show(80), why), key="%s/order/%s<=%s" % (t.name, lo, hi))
    periodic = any(c[0] == c[2] for c in t.connections)
    for nm in ("ixseps1", "ixseps2"):
        if periodic:
            ok = eq(ints[nm], xs[-1])
        else:
            c = ints[nm].as_const()
            ok = c is not None and c <= 0  # no x index lies inside the separatrix
        rep.ob("R4", "%s: %s %s (%s)" % (t.name, nm, "== nx" if periodic else "<= 0", "all surfaces closed: the region is y-periodic" if periodic else "all surfaces open: limiter at both ends"),
               ok, site, ints[nm].show(60), key="%s/one/%s" % (t.name, nm))
    kind = next(iter(t.regions.values()))["kind"]
    rep.ob("R4", "%s: the region kind matches its connection (periodic <-> X.X, open <-> wall.wall)" % t.name, (kind == "X.X") == periodic and (kind == "wall.wall") == (not periodic), site, kind, key="%s/one/kind" % t.name)


def r4(prog, rep, t):
    site = MESH + " (BoutMesh.writeGridfile)"
    ctx, ints, err, facts = writer_integers(prog, t)
    if ints is None:
        rep.ob("R4", "%s: writer produces topology integers" % t.name, False, site, err, key="%s/ints" % t.name)
        return
    if len(t.order) == 1:
        return r4_one_region(prog, rep, t, ctx, ints, facts, site)
    order = t.order
    nys = facts["self.y_regions_noguards"]
    xs = facts["self.x_startinds"]
    Y = [ctx.const(0)]
    for n in nys:
        Y.append(Y[-1] + n)
    nreg = len(order)

    def eq(a, b):
        return (a - b).is_zero()

    def is_boundary(v):
        for k, y in enumerate(Y):
            if eq(v, y):
                return k
        return None

    # (a) block boundaries
    if nreg == 3:
        want = {"jyseps1_1": 1, "jyseps2_2": 2}
    elif nreg == 4:
        want = {"jyseps1_1": 1, "jyseps2_1": 1, "jyseps1_2": 3, "jyseps2_2": 3}
    elif nreg == 6:
        want = {"jyseps1_1": 1, "jyseps2_1": 2, "jyseps1_2": 4, "jyseps2_2": 5}
    else:
        want = {}
    bounds = {}
    for nm, k in want.items():
        b = is_boundary(ints[nm] + 1)
        bounds[nm] = b
        rep.ob("R4", "%s: %s + 1 is the start of y-block %d (a region boundary) for all sizes" % (t.name, nm, k), b == k, site,
               "%s = %s ; region boundaries %s" % (nm, ints[nm].show(80), [y.show(60) for y in Y]), key="%s/%s/boundary" % (t.name, nm))
    if nreg in (4, 6):
        k = 2 if nreg == 4 else 3
        b = is_boundary(ints["ny_inner"])
        rep.ob("R4", "%s: ny_inner is the start of y-block %d (first cell after the upper inner target)" % (t.name, k), b == k, site, ints["ny_inner"].show(80), key="%s/ny_inner/boundary" % t.name)
    if nreg == 3:
        # single null: jyseps2_1 == jyseps1_2 must lie inside [jyseps1_1, jyseps2_2]
        rep.ob("R4", "%s: jyseps2_1 == jyseps1_2 (no second X-point)" % t.name, eq(ints["jyseps2_1"], ints["jyseps1_2"]), site, "", key="%s/sn/equal" % t.name)
        for lo, hi in (("jyseps1_1", "jyseps2_1"), ("jyseps1_2", "jyseps2_2")):
            d = ints[hi] - ints[lo]
            ok, why = _nonneg_with_floor(ctx, d)
            rep.ob("R4", "%s: %s <= %s for all region sizes" % (t.name, lo, hi), ok is True, site,
                   "%s - %s = %s : %s" % (hi, lo, d.show(120), why), key="%s/order/%s<=%s" % (t.name, lo, hi))
    else:
        for lo, hi in (("jyseps1_1", "jyseps2_1"), ("jyseps2_1", "jyseps1_2"), ("jyseps1_2", "jyseps2_2")):
            d = ints[hi] - ints[lo]
            ok, why = nonneg_for_positive_sizes(d)
            rep.ob("R4", "%s: %s <= %s for all region sizes" % (t.name, lo, hi), ok is True, site, "%s" % why, key="%s/order/%s<=%s" % (t.name, lo, hi))
    # (c) ixseps are x-segment boundaries and ordered as documented
    for nm in ("ixseps1", "ixseps2"):
        ok = any(eq(ints[nm], x) for x in xs)
        rep.ob("R4", "%s: %s is a radial segment boundary" % (t.name, nm), ok, site, ints[nm].show(80), key="%s/%s/boundary" % (t.name, nm))
    dn = t.double_null_type
    if dn == "lower":
        ok, why = nonneg_for_positive_sizes(ints["ixseps2"] - ints["ixseps1"] - 1)
        rep.ob("R4", "%s: lower X-point primary => ixseps1 < ixseps2" % t.name, ok is True, site, str(why), key="%s/ixseps-order" % t.name)
    elif dn == "upper":
        ok, why = nonneg_for_positive_sizes(ints["ixseps1"] - ints["ixseps2"] - 1)
        rep.ob("R4", "%s: upper X-point primary => ixseps2 < ixseps1" % t.name, ok is True, site, str(why), key="%s/ixseps-order" % t.name)
    elif dn == "connected" or nreg == 4:
        rep.ob("R4", "%s: both separatrices at the same radial index => ixseps1 == ixseps2" % t.name, eq(ints["ixseps1"], ints["ixseps2"]), site, "", key="%s/ixseps-order" % t.name)
    else:
        rep.ob("R4", "%s: single null => ixseps2 == nx" % t.name, eq(ints["ixseps2"], xs[-1]), site, "", key="%s/ixseps-order" % t.name)
    # (b) adjacency: BOUT++ reading of the integers versus the connection table
    if any(bounds.get(k) != v for k, v in want.items()):
        return  # blocks are not region-aligned: adjacency comparison is meaningless
    if nreg == 3:
        blocks = {0: order[0], 1: order[1], 4: order[1], 5: order[2]}
    elif nreg == 4:
        blocks = {0: order[0], 2: order[1], 3: order[2], 5: order[3]}
    else:
        blocks = {i: order[i] for i in range(6)}
    up, low, dup = conn_maps(t)
    nseg = len(xs) - 1
    for s in range(nseg):
        in1_ok, _ = nonneg_for_positive_sizes(ints["ixseps1"] - xs[s + 1])
        out1_ok, _ = nonneg_for_positive_sizes(xs[s] - ints["ixseps1"])
        in2_ok, _ = nonneg_for_positive_sizes(ints["ixseps2"] - xs[s + 1])
        out2_ok, _ = nonneg_for_positive_sizes(xs[s] - ints["ixseps2"])
        if not ((in1_ok or out1_ok) and (in2_ok or out2_ok)):
            rep.ob("R4", "%s: radial segment %d lies entirely on one side of each separatrix index" % (t.name, s), False, site, "", key="%s/zone/%d" % (t.name, s))
            continue
        in1, in2 = bool(in1_ok), bool(in2_ok)

        def bout_upper(b):
            nxt = {0: 5 if in1 else 1, 1: 4 if in2 else 2, 2: None, 3: 2 if in2 else 4, 4: 1 if in1 else 5, 5: None}[b]
            hops = 0
            while nxt is not None and nxt not in blocks and hops < 6:
                # empty block: pass through to what follows it
                nxt = {1: 4 if in2 else 2, 4: 1 if in1 else 5, 2: None, 3: 2 if in2 else 4}.get(nxt)
                hops += 1
            return nxt

        for b, rname in sorted(blocks.items()):
            if nreg == 3 and b == 1:
                continue  # the single core region is block 1 and 4 merged: use block 4's exit
            nb = bout_upper(b)
            if nreg == 3 and b == 4 and nb in (1,):
                nb = 4  # periodic onto itself
            want_nb = blocks.get(nb) if nb is not None else None
            got = up.get((rname, s))
            got_nb = got[0] if got else None
            ok = want_nb == got_nb and (got is None or got[1] == s)
            rep.ob("R4", "%s: x-segment %d, region %s: upper neighbour per BOUT++ indices (%s) == connection table (%s)" % (t.name, s, rname, want_nb, got_nb), ok, site,
                   "segment %s separatrix 1, %s separatrix 2" % ("inside" if in1 else "outside", "inside" if in2 else "outside"), key="%s/adj/%d/%s" % (t.name, s, rname))


def _nonneg_with_floor(ctx, d):
    """d may contain floor_half(e): use e/2 - 1/2 <= floor(e/2) <= e/2"""
    fl = [a for a in d.all_atoms() if a.fname == "floor_half"]
    if not fl:
        return nonneg_for_positive_sizes(d)
    a = fl[0]
    e = a.args[0]
    # coefficient sign of the floor atom decides which bound is the worst case
    co = d.subs({a: ctx.const(1)}) - d.subs({a: ctx.const(0)})
    c = co.as_const()
    if c is None:
        return None, "non-constant coefficient of floor"
    worst = (e / 2 - Fraction(1, 2)) if c > 0 else (e / 2)
    return nonneg_for_positive_sizes(d.subs({a: worst}))


# ---------------------------------------------------------------------------------
def torpex_topology(prog):
    mod = prog.module("hypnotoad/cases/torpex.py")
    f = mod.funcs.get("TORPEXMagneticField.makeRegions")
    if f is None:
        raise AnalysisError("TORPEX makeRegions not found")
    legnames = kinds = None
    for s in walk_own(f.node):
        if isinstance(s, ast.Assign) and isinstance(s.targets[0], ast.Name) and isinstance(s.value, ast.List):
            vals = [e.value for e in s.value.elts if isinstance(e, ast.Constant)]
            if s.targets[0].id == "legnames":
                legnames = vals
            elif s.targets[0].id == "kinds":
                kinds = vals
    if not legnames or not kinds or len(legnames) != len(kinds):
        raise AnalysisError("TORPEX leg tables not found")
    conns = [args for conds, args in _connection_calls(f.node)]
    setups = {}
    for c in walk_own(f.node):
        if isinstance(c, ast.Call) and isinstance(c.func, ast.Name) and c.func.id == "setupRegion" and isinstance(c.args[0], ast.Constant):
            setups[c.args[0].value] = (T(mod, c.args[1]), T(mod, c.args[2]), c.args[3].value)
    ctx = Context()
    xp = Leaf("x_points[0]")
    regions = {}
    segs = {}
    for name, kind in zip(legnames, kinds):
        s0, s1, rev = setups.get(name, (None, None, None))
        r = {"segments": [s0, s1], "kind": kind}
        # reverse=True: region reversed so that it runs wall -> X: pin at the end
        if rev:
            r["xpoints_at_end"] = [None, xp, None]
            r["wall_at_start"] = True
        else:
            r["xpoints_at_start"] = [None, xp, None]
            r["wall_at_end"] = True
        regions[name] = r
        for sname, nxname in ((s0, "nx_core"), (s1, "nx_sol")):
            segs[sname] = {"nx": ctx.sym(nxname)}
    t = tables.Topology("TORPEX", {"nx": 1}, regions, {}, segs, conns, legnames, None, [])
    t.ctx = ctx
    return t


def make_connection(prog, rep):
    """Equilibrium.makeConnection stores both directions symmetrically"""
    f = prog.func("hypnotoad/core/equilibrium.py", "Equilibrium.makeConnection")
    mod = f.module
    stores = {}
    for s in walk_own(f.node):
        if isinstance(s, ast.Assign) and isinstance(s.targets[0], ast.Subscript):
            stores[T(mod, s.targets[0])] = T(mod, s.value)
    ok = stores.get(K('lRegion.connections[lowerSegment]["upper"]')) == K("(upperRegion,upperSegment)") and stores.get(K('uRegion.connections[upperSegment]["lower"]')) == K("(lowerRegion,lowerSegment)")
    rep.ob("R1", "makeConnection records the join symmetrically (upper of the lower region, lower of the upper region)", ok, f.site(), str(stores), key="makeConnection/symmetric")
    defs = {s.targets[0].id: T(mod, s.value) for s in walk_own(f.node) if isinstance(s, ast.Assign) and isinstance(s.targets[0], ast.Name)}
    rep.ob("R1", "lRegion / uRegion are the named regions", defs.get("lRegion") == K("self.regions[lowerRegion]") and defs.get("uRegion") == K("self.regions[upperRegion]"), f.site(), str(defs), key="makeConnection/regions")


def _stmt_texts(mod, fnode):
    """normalised text of every simple statement / loop header / expression of interest"""
    out = set()
    for n in ast.walk(fnode):
        if isinstance(n, (ast.Assign, ast.AugAssign, ast.Expr, ast.Return)):
            out.add(T(mod, n))
        elif isinstance(n, ast.For):
            out.add("for%sin%s:" % (T(mod, n.target), T(mod, n.iter)))
        elif isinstance(n, ast.comprehension):
            out.add("for%sin%s" % (T(mod, n.target), T(mod, n.iter)))
        elif isinstance(n, ast.Call):
            out.add(T(mod, n))
    return out


def _tiling_facts(mod, f):
    """BoutMesh.__init__ tiles the global index rectangle: x by the cumulative sums of the first
    region's nx list, y by a running sum of the regions' ny (with guards) in the equilibrium's
    region order; block (region, segment i) is the product of x slice i and the region's y slice.
    Decided on values (temporaries seen through, the running sum followed through the loop body),
    not on how the statements are spelled."""
    import copy
    fn = f.node
    regions_iter = (K("self.equilibrium.regions.values()"), K("list(self.equilibrium.regions.values())"))

    def val_of(target_text, calls=True):
        vs = [inline_temporaries(fn, n.value, inline_calls=calls, keep=("eq_region0",)) for n in walk_own(fn) if isinstance(n, ast.Assign) and T(mod, n.targets[0]) == target_text]
        return T(mod, vs[0]) if len(vs) == 1 else None

    facts = {}
    xs = val_of("self.x_startinds")
    facts["x sizes are the first region's nx list"] = xs in (K("numpy.cumsum([0] + list(eq_region0.nx))"), K("numpy.cumsum([0, *eq_region0.nx])"))
    facts["x start indices are their cumulative sum"] = bool(xs) and xs.startswith("numpy.cumsum(")
    facts["x slices are consecutive [x_startinds[i], x_startinds[i+1])"] = _x_slices_consecutive(mod, f)
    # the y loop: running sum
    yloop = None
    for n in walk_own(fn):
        if isinstance(n, ast.For) and any(isinstance(x, ast.Assign) and isinstance(x.targets[0], ast.Subscript) and T(mod, x.targets[0].value) == "y_regions" for x in n.body):
            yloop = n
    consecutive = order = extents = noguards = False
    if yloop is not None and isinstance(yloop.target, ast.Tuple) and len(yloop.target.elts) == 2 and all(isinstance(e, ast.Name) for e in yloop.target.elts):
        kname, rname = yloop.target.elts[0].id, yloop.target.elts[1].id
        order = T(mod, yloop.iter) == K("self.equilibrium.regions.items()")
        accs = [n.targets[0].id for n in fn.body if isinstance(n, ast.Assign) and isinstance(n.targets[0], ast.Name) and isinstance(n.value, ast.Constant) and n.value.value == 0
                and n.lineno < yloop.lineno and any((isinstance(x, ast.Assign) and isinstance(x.targets[0], ast.Name) and x.targets[0].id == n.targets[0].id)
                        or (isinstance(x, ast.AugAssign) and isinstance(x.target, ast.Name) and x.target.id == n.targets[0].id) for x in yloop.body)]
        if len(accs) == 1:
            acc = accs[0]
            env = {acc: ast.Name(id="ACC", ctx=ast.Load())}

            class Sub(ast.NodeTransformer):
                def visit_Name(self, n):
                    return copy.deepcopy(env[n.id]) if isinstance(n.ctx, ast.Load) and n.id in env else n

            stored = None
            for st in yloop.body:
                if isinstance(st, ast.Assign) and len(st.targets) == 1:
                    v = Sub().visit(copy.deepcopy(st.value))
                    if isinstance(st.targets[0], ast.Name):
                        env[st.targets[0].id] = v
                    elif T(mod, st.targets[0]) == "y_regions[%s]" % kname:
                        stored = T(mod, v)
                elif isinstance(st, ast.AugAssign) and isinstance(st.op, ast.Add) and isinstance(st.target, ast.Name) and st.target.id in env:
                    env[st.target.id] = ast.BinOp(left=env[st.target.id], op=ast.Add(), right=Sub().visit(copy.deepcopy(st.value)))
            ny = "%s.ny(0)" % rname
            consecutive = stored in ("slice(ACC,ACC+%s,None)" % ny, "slice(ACC,ACC+%s)" % ny) and T(mod, env[acc]) in ("ACC+%s" % ny,)
            extents = ny in (stored or "")
        noguards = any(isinstance(x, ast.Expr) and T(mod, x.value) == K("self.y_regions_noguards.append(%s.ny_noguards)" % rname) for x in yloop.body)
    facts["y slices are consecutive: each region starts where the previous one ended"] = consecutive
    facts["y extents are the regions' ny including their boundary guards"] = extents
    facts["regions are visited in the equilibrium's region order"] = order
    # the product
    prod = False
    for n in walk_own(fn):
        if isinstance(n, ast.Assign) and isinstance(n.targets[0], ast.Subscript) and T(mod, n.targets[0].value) == "self.region_indices":
            env = {}
            whole = set()
            cur = n
            parents = {ch: p for p in ast.walk(fn) for ch in ast.iter_child_nodes(p)}
            while cur in parents:
                cur = parents[cur]
                if isinstance(cur, ast.For):
                    it, tg = T(mod, cur.iter), cur.target
                    if isinstance(tg, ast.Name) and it in (K("self.equilibrium.regions"), K("self.equilibrium.regions.keys()"), K("y_regions"), K("y_regions.keys()")):
                        env[tg.id] = "K"; whole.add("y")
                    elif isinstance(tg, ast.Tuple) and len(tg.elts) == 2 and it == K("y_regions.items()"):
                        env[tg.elts[0].id] = "K"; env[tg.elts[1].id] = "y_regions[K]"; whole.add("y")
                    elif isinstance(tg, ast.Name) and it == K("range(len(x_regions))"):
                        env[tg.id] = "I"; whole.add("x")
                    elif isinstance(tg, ast.Tuple) and len(tg.elts) == 2 and it == K("enumerate(x_regions)"):
                        env[tg.elts[0].id] = "I"; env[tg.elts[1].id] = "x_regions[I]"; whole.add("x")

            def sub(e):
                e = copy.deepcopy(inline_temporaries(fn, e, keep=tuple(env)))
                for x in ast.walk(e):
                    if isinstance(x, ast.Name) and x.id in env and "[" not in env[x.id]:
                        x.id = env[x.id]
                t = T(mod, e)
                for k_, v_ in env.items():
                    if "[" in v_:
                        import re as _re
                        t = _re.sub(r"\b%s\b" % k_, v_, t)
                return t
            prod = whole == {"x", "y"} and sub(n.targets[0].slice) in ("self.region_lookup[K,I]", "self.region_lookup[(K,I)]") and sub(n.value) == "numpy.index_exp[x_regions[I],y_regions[K]]"
    facts["every (region, segment) gets the product of its x and y slices"] = prod
    ny_ = val_of("self.ny")
    facts["global nx, ny are the sums"] = val_of("self.nx") == K("sum(eq_region0.nx)") and ny_ in tuple(K("sum(r.ny(0) for r in %s)" % it) for it in ("self.equilibrium.regions.values()", "list(self.equilibrium.regions.values())"))
    facts["no-guard block sizes recorded in the same order"] = noguards
    return facts


def _x_slices_consecutive(mod, f):
    """x_regions[i] == slice(x_startinds[i], x_startinds[i+1], None) for every i, whether the
    generator runs over indices or over zip(x_startinds[:-1], x_startinds[1:])"""
    from ..elements import element, NoElement
    for st in walk_own(f.node):
        if isinstance(st, ast.Assign) and isinstance(st.targets[0], ast.Name) and st.targets[0].id == "x_regions":
            v = st.value
            if isinstance(v, ast.Call) and T(mod, v.func) in ("tuple", "list") and len(v.args) == 1:
                v = v.args[0]
            try:
                el = element(f.node, v)
            except NoElement:
                return False
            whole = True
            if isinstance(v, (ast.GeneratorExp, ast.ListComp)):
                it = T(mod, v.generators[0].iter)
                whole = it in (K("range(len(self.x_startinds)-1)"), K("zip(self.x_startinds[:-1], self.x_startinds[1:])"))
            return whole and el in ("slice(<self.x_startinds[i]>,<self.x_startinds[1+i]>,None)", "slice(<self.x_startinds[i]>,<self.x_startinds[1+i]>)")
    return False


def _connections_translated(mod, g):
    """self.connections[region_id] maps every face of the segment's connection table to
    region_lookup[neighbour], or None where there is no neighbour (dict comprehension form)"""
    for st in walk_own(g.node):
        if isinstance(st, ast.Assign) and T(mod, st.targets[0]) == K("self.connections[region_id]") and isinstance(st.value, ast.DictComp) and len(st.value.generators) == 1:
            dc = st.value
            gen = dc.generators[0]
            it = T(mod, inline_temporaries(g.node, gen.iter))
            if not (isinstance(gen.target, ast.Tuple) and len(gen.target.elts) == 2 and all(isinstance(e, ast.Name) for e in gen.target.elts) and not gen.ifs):
                return False
            kname, vname = gen.target.elts[0].id, gen.target.elts[1].id
            if not (isinstance(dc.key, ast.Name) and dc.key.id == kname):
                return False
            val = T(mod, dc.value)
            forms = (K("None if %s is None else self.region_lookup[%s]" % (vname, vname)), K("self.region_lookup[%s] if %s is not None else None" % (vname, vname)))
            src_ok = it in (K("equilibrium.regions[eq_reg].connections[i].items()"), K("region.connections[i].items()"))
            return val in forms and src_ok
    return False


def r3(prog, rep):
    f = prog.func(MESH, "BoutMesh.__init__")
    mod = f.module
    facts = _tiling_facts(mod, f)
    for k, ok in facts.items():
        rep.ob("R3", "tiling: " + k, ok, f.site(), "", key="tiling/" + k)
    # region numbering in Mesh.__init__
    g = prog.func(MESH, "Mesh.__init__")
    st = _stmt_texts(g.module, g.node)
    ok = all(K(x) in st for x in ("forreg_name,eq_reginequilibrium.regions.items():", "foriinrange(eq_reg.nSegments):", "self.region_lookup[(reg_name, i)] = region_number", "region_number=len(regionlist)", "regionlist.append((reg_name,i))"))
    rep.ob("R3", "region numbers enumerate (region, segment) pairs once, in region order", ok, g.site(), "", key="tiling/numbering")
    ok = K("self.connections[region_id][key]=self.region_lookup[val]") in st or _connections_translated(g.module, g)
    rep.ob("R3", "mesh connections are the equilibrium's connections translated through the same numbering", ok, g.site(), "", key="tiling/connections")


# ---------------------------------------------------------------------------------
class GuardEx(WriterEx):
    pass


def r5_r6(prog, rep, topos):
    mod = prog.module(MESH)
    w = mod.funcs.get("BoutMesh.writeGridfile")
    site = w.site()
    text = T(mod, w.node)
    # R6 y-coord
    facts = {
        "y.centre is the exclusive cumulative sum of dy": K("y.centre[:,1:]=numpy.cumsum(self.dy.centre,axis=1)[:,:-1]") in text,
        "y.ylow is the centre minus half a cell; the last face adds half a cell": K("y.ylow[:,:-1]=y.centre-0.5*self.dy.centre[:,:]") in text and K("y.ylow[:,-1]=y.centre[:,-1]+0.5*self.dy.centre[:,-1]") in text,
        "y.xlow copies the centre values (y does not vary in x)": K("y.xlow=y.centre[0,numpy.newaxis,:]") in text,
        "theta starts as a copy of y": K("theta=deepcopy(y)") in text,
    }
    for k, ok in facts.items():
        rep.ob("R6", k, ok, site, "", key="ycoord/" + k)
    # R5: evaluate the guard-offset subscripts symbolically per topology
    # collect subscripts of the y axis that mention a topology integer
    targets = []
    tnames = {"jyseps1_1", "jyseps2_1", "jyseps1_2", "jyseps2_2", "ny_inner"}
    # local names derived from the topology integers (transitively)
    body = [n for n in ast.walk(w.node) if isinstance(n, ast.With)][0].body
    local_defs = []
    changed = True
    while changed:
        changed = False
        for st in body:
            if isinstance(st, ast.Assign) and isinstance(st.targets[0], ast.Name) and st.targets[0].id not in tnames:
                names = {x.id for x in ast.walk(st.value) if isinstance(x, ast.Name)}
                if names & tnames and not isinstance(st.value, (ast.Subscript,)) and "theta" not in names and "chi" not in names and "y" not in names:
                    tnames.add(st.targets[0].id)
                    local_defs.append(st)
                    changed = True
    def _only_name_assigns(st):
        leaves = []
        for b in (st.body, st.orelse):
            for x in b:
                if isinstance(x, ast.If):
                    if not _only_name_assigns(x):
                        return False
                elif not (isinstance(x, ast.Assign) and isinstance(x.targets[0], ast.Name) and isinstance(x.value, (ast.Name, ast.Constant, ast.BinOp, ast.IfExp, ast.Attribute))):
                    return False
        return True
    for st in body:
        if isinstance(st, ast.If) and _only_name_assigns(st):
            assigned = {x.targets[0].id for x in ast.walk(st) if isinstance(x, ast.Assign) and isinstance(x.targets[0], ast.Name)}
            if not (assigned & {"jyseps1_1", "jyseps2_1", "jyseps1_2", "jyseps2_2", "ny_inner", "ixseps1", "ixseps2"}):
                tnames.update(assigned)
                local_defs.append(st)
    for n in ast.walk(w.node):
        if isinstance(n, ast.Subscript):
            sl = n.slice
            elts = sl.elts if isinstance(sl, ast.Tuple) else [sl]
            for e in elts:
                names = {x.id for x in ast.walk(e) if isinstance(x, ast.Name)}
                if names & tnames:
                    targets.append((n, e))
    # plain local definitions that the collected subscripts need (e.g. a guard count set unconditionally)
    needed = {x.id for _n, e in targets for x in ast.walk(e) if isinstance(x, ast.Name)} - tnames - {"numpy", "myg"}
    # ... and what the derived definitions themselves read (core_start = jyseps1_1 + first_guards + 1)
    needed |= {x.id for st in local_defs if isinstance(st, ast.Assign) for x in ast.walk(st.value) if isinstance(x, ast.Name)} - tnames - {"numpy", "myg", "self"}
    # ... and the decisions kept in a local that the conditional definitions test (`if starts_at_wall:`)
    needed |= {x.id for st in local_defs if isinstance(st, ast.If) for i in ast.walk(st) if isinstance(i, ast.If) for x in ast.walk(i.test) if isinstance(x, ast.Name)} - tnames - {"numpy", "myg", "self"}
    changed = True
    while changed:
        changed = False
        for st in body:
            if isinstance(st, ast.Assign) and isinstance(st.targets[0], ast.Name) and st.targets[0].id in needed and st not in local_defs \
                    and isinstance(st.value, (ast.Name, ast.Constant, ast.BinOp, ast.IfExp, ast.Attribute, ast.Compare, ast.BoolOp)):
                local_defs.append(st)
                more = {x.id for x in ast.walk(st.value) if isinstance(x, ast.Name)} - tnames - needed - {"myg", "numpy"}
                if more:
                    needed |= more
                changed = True
    local_defs.sort(key=lambda st: st.lineno)
    rep.floor("R5.subscripts", len(targets), 6)
    seen = set()
    for t in topos:
        if t.name.startswith("TORPEX") or "start_at_upper_outer" in t.name or t.name.startswith(K("CDN(")):
            continue
        ctx, ints, err, facts = writer_integers(prog, t)
        if ints is None:
            continue
        myg = ctx.sym("myg")
        nys = facts["self.y_regions_noguards"]
        order = t.order
        # with-guard start index of each region
        G = [ctx.const(0)]
        for rname, n in zip(order, nys):
            k0, k1 = t.regions[rname]["kind"].split(".")
            G.append(G[-1] + n + (myg if k0 == "wall" else 0) + (myg if k1 == "wall" else 0))
        # first real (non-guard) cell of each region, and one-past-last real cell
        first_real = [G[i] + (myg if t.regions[order[i]]["kind"].startswith("wall") else 0) for i in range(len(order))]
        ex = GuardEx(ctx, mod, facts)
        env = dict(ints)
        env["myg"] = myg
        for st in local_defs:
            try:
                ex.stmt(st, env)
            except (AlgError, PathRaises):
                pass
        for node, e in targets:
            guard_if = _enclosing_if(w.node, node)
            if guard_if is not None and K("jyseps2_1!=jyseps1_2") in T(mod, guard_if.test) and (ints["jyseps2_1"] - ints["jyseps1_2"]).is_zero():
                continue  # double-null-only code, not executed for this topology
            exprs = []
            if isinstance(e, ast.Slice) and e.lower is not None and e.upper is not None:
                try:
                    if (ex.expr(e.lower, env) - ex.expr(e.upper, env)).is_zero():
                        continue  # empty range for this topology
                except AlgError:
                    pass
            if isinstance(e, ast.Slice):
                if e.lower is not None:
                    exprs.append(("start", e.lower))
                if e.upper is not None:
                    exprs.append(("stop", e.upper))
            else:
                exprs.append(("index", e))
            for role, xn in exprs:
                if not ({x.id for x in ast.walk(xn) if isinstance(x, ast.Name)} & tnames):
                    continue
                try:
                    v = ex.expr(xn, env)
                except AlgError as err2:
                    rep.ob("R5", "%s: with-guard subscript %s evaluable" % (t.name, T(mod, xn)), False, w.site(node), str(err2), key="guards/%s/%s" % (t.name, T(mod, xn)))
                    continue
                if not isinstance(v, Rat):
                    rep.ob("R5", "%s: with-guard subscript %s evaluable" % (t.name, T(mod, xn)), False, w.site(node), "not representable: %s" % (v,), key="guards/%s/%s" % (t.name, T(mod, xn)))
                    continue
                # must coincide with a with-guard region boundary or the first real cell of a region
                ok = any((v - g).is_zero() for g in G) or any((v - g).is_zero() for g in first_real)
                if not ok and role == "start" and isinstance(e, ast.Slice) and e.upper is None:
                    # an open-ended slice that starts at or beyond the end of the array selects nothing
                    ok = nonneg_for_positive_sizes(v - G[-1])[0] is True
                if any(a.fname == "floor_half" for a in v.all_atoms()):
                    ok = False
                which = "array %s" % T(mod, node.value)
                rep.ob("R5", "%s: y-subscript `%s` (%s of %s) lands on a region boundary of the with-guard grid" % (t.name, T(mod, xn), role, which), ok, w.site(node),
                       "value %s ; with-guard region starts %s" % (v.show(100), [g.show(60) for g in G]), key="guards/%s/%s/%s" % (t.name, T(mod, node.value), T(mod, xn)))


def _enclosing_if(root, node):
    best = None
    for n in ast.walk(root):
        if isinstance(n, ast.If) and any(x is node for b in n.body for x in ast.walk(b)):
            best = n
    return best


# ---------------------------------------------------------------------------------
def y_group_origin(prog, rep, rule):
    """model of the y-grouping loops of Mesh.makeRegions on each seed's region list"""
    f = prog.func(MESH, "Mesh.makeRegions")
    mod = f.module
    text = T(mod, f.node)
    # the loop shape that the model below mirrors (checked so that the model stays faithful)
    shape = ["region_list=list(self.regions.values())", "whileregion_list:", "fori,first_regioninenumerate(region_list):", 'iffirst_region.connections["lower"]isNone:', "break",
             "next_region=first_region", "next_region.yGroupIndex=len(group)", "group.append(next_region)", "region_list.pop(i)", 'next_region=next_region.getNeighbour("upper")',
             "if next_region is None or group.count(next_region) > 0:", "i=region_list.index(next_region)", "self.y_groups.append(group)"]
    missing = [s for s in shape if K(s) not in text]
    if missing:
        rep.error(rule, "y-grouping loop no longer has the modelled shape (missing %s): update hv/props/c08.py" % missing, f.site())
        return
    # python semantics of the search loop: without an `else` clause the loop variables keep
    # the LAST element when no region with a free lower edge is left; with
    # `else: i = 0; first_region = region_list[0]` the first one is taken
    search = [n for n in ast.walk(f.node) if isinstance(n, ast.For) and T(mod, n.target) == K("i,first_region")]
    if len(search) != 1:
        rep.error(rule, "search loop over region_list not found", f.site())
        return
    orelse = [T(mod, s) for s in search[0].orelse]
    if not orelse:
        fallback = "last"
    elif sorted(orelse) == [K("first_region=region_list[0]"), K("i=0")]:
        fallback = "first"
    else:
        rep.error(rule, "else-clause of the search loop not understood: %s" % orelse, f.site())
        return
    for t in tables.all_topologies(prog):
        up, low, dup = conn_maps(t)
        nseg = t.nseg()
        regions = [(r, s) for r in t.order for s in range(nseg)]
        remaining = list(regions)
        groups = []
        guard = 0
        while remaining and guard < 100:
            guard += 1
            i = None
            first = None
            found = False
            for i, first in enumerate(remaining):
                if first not in low:
                    found = True
                    break
            if not found and fallback == "first":
                i, first = 0, remaining[0]
            # otherwise (i, first) stay bound to the LAST element, as in Python
            group = []
            nxt = first
            while True:
                group.append(nxt)
                remaining.pop(i)
                nxt = up.get(nxt)
                if nxt is None or nxt in group:
                    break
                i = remaining.index(nxt)
            groups.append(group)
        flat = [x for g in groups for x in g]
        rep.ob(rule, "%s: every (region, segment) is in exactly one y-group" % t.name, sorted(flat) == sorted(regions), f.site(), "", key="%s/ygroups/partition" % t.name)
        for g in groups:
            periodic = g[0] in low
            if not periodic:
                continue
            members_in_order = [x for x in regions if x in g]
            ok = g[0] == members_in_order[0]
            rep.ob(rule, "%s: periodic y-chain of segment %d starts at its first member in y-index order (%s)" % (t.name, g[0][1], members_in_order[0][0]), ok, f.site(),
                   "chain order is %s: poloidal_distance and zShift are measured from the start of %s" % ([x[0] for x in g], g[0][0]), key="%s/ygroups/origin/%d" % (t.name, g[0][1]))


# ---------------------------------------------------------------------------------
def assembly_rules(prog, rep):
    """the 2-D collector: each region's block of the global array at location L is the region's
    own array at L without the face it shares with its neighbour; the three extra corner arrays
    are the shifted views of the region's corners"""
    mod = prog.module(MESH)
    geo = mod.funcs.get("BoutMesh.geometry")
    fa = None
    for n in ast.walk(geo.node):
        if isinstance(n, ast.FunctionDef) and any(isinstance(c, ast.Attribute) and c.attr == "fields_to_output" for c in ast.walk(n)):
            fa = n
    if fa is None:
        raise AnalysisError("2-D field collector not found")
    site = "%s:%d (BoutMesh.geometry.%s)" % (mod.rel, fa.lineno, fa.name)
    want = {"centre": ("centre", None, "_centre_array"), "xlow": ("xlow", ":-1,:", "_xlow_array"), "ylow": ("ylow", ":,:-1", "_ylow_array"),
            "corners": ("corners", ":-1,:-1", "_corners_array"), "lower_right_corners": ("corners", "1:,:-1", "_corners_array"),
            "upper_right_corners": ("corners", "1:,1:", "_corners_array"), "upper_left_corners": ("corners", ":-1,1:", "_corners_array")}
    parents = {}
    for n in ast.walk(fa):
        for ch in ast.iter_child_nodes(n):
            parents[ch] = n
    got = {}
    for s in ast.walk(fa):
        if isinstance(s, ast.Assign) and isinstance(s.targets[0], ast.Subscript):
            t = s.targets[0]
            if isinstance(t.value, ast.Attribute) and isinstance(t.value.value, ast.Name) and t.value.value.id == "f" and t.value.attr in want:
                v = s.value
                src = sl = None
                if isinstance(v, ast.Attribute) and isinstance(v.value, ast.Name) and v.value.id == "f_region":
                    src = v.attr
                elif isinstance(v, ast.Subscript) and isinstance(v.value, ast.Attribute) and isinstance(v.value.value, ast.Name) and v.value.value.id == "f_region":
                    src, sl = v.value.attr, T(mod, v.slice)
                guards = []
                cur = s
                while cur in parents:
                    cur = parents[cur]
                    if isinstance(cur, ast.If):
                        guards.append(T(mod, cur.test))
                in_loop = any(isinstance(p_, ast.For) and T(mod, p_.iter) == K("self.regions.values()") for p_ in _ancestors(parents, s))
                got[t.value.attr] = (src, sl, T(mod, t.slice), guards, in_loop)
    for loc, (src, sl, guard_attr) in want.items():
        g = got.get(loc)
        ok = g is not None and g[0] == src and g[1] == (K(sl) if sl else None) and g[2] == K("self.region_indices[region.myID]") \
            and K("f_region.%s is not None" % guard_attr) in g[3] and g[4]
        rep.ob("R3", "assembly: global %s block of a region is the region's %s%s, stored at the region's index block, only when the region has that location" % (loc, src, "[%s]" % sl if sl else ""),
               ok, site, str(g), key="assembly/" + loc)
    ok = any(isinstance(s, ast.Assign) and T(mod, s) == K("f = MultiLocationArray(self.nx, self.ny)") for s in ast.walk(fa))
    rep.ob("R3", "assembly: the global array has the global size nx by ny", ok, site, "", key="assembly/size")


def _ancestors(parents, n):
    while n in parents:
        n = parents[n]
        yield n


def r8(prog, rep):
    assembly_rules(prog, rep)
    mod = prog.module(MESH)
    geo = mod.funcs.get("BoutMesh.geometry")
    fx = None
    for n in ast.walk(geo.node):
        if isinstance(n, ast.FunctionDef) and any(isinstance(c, ast.Attribute) and c.attr == "arrayXDirection_to_output" for c in ast.walk(n)):
            fx = n
    if fx is None:
        raise AnalysisError("x-direction collector not found")
    stores = {}
    for s in ast.walk(fx):
        if isinstance(s, ast.Assign) and isinstance(s.targets[0], ast.Subscript):
            t = s.targets[0]
            if isinstance(t.value, ast.Attribute) and isinstance(t.value.value, ast.Name) and t.value.value.id == "f" and isinstance(s.value, ast.Attribute) or \
                    (isinstance(t.value, ast.Attribute) and isinstance(t.value.value, ast.Name) and t.value.value.id == "f" and isinstance(s.value, ast.Subscript)):
                stores[t.value.attr] = (T(mod, inline_temporaries(fx, t.slice, keep=("region",))), T(mod, s.value))
    for loc in ("centre", "xlow"):
        got = stores.get(loc)
        ok = got is not None and got[0] == K("self.region_indices[region.myID][0],:")
        rep.ob("R8", "x-direction array: %s values are placed with the region's x-slice only (the array has a single y entry)" % loc, ok, "%s:%d" % (mod.rel, fx.lineno),
               "index used: %s" % (got[0] if got else None), key="xarray/" + loc)
    nan_init = {T(mod, s.targets[0]) for s in ast.walk(fx) if isinstance(s, ast.Assign) and T(mod, s.value) == K('float("nan")')}
    rep.ob("R8", "x-direction arrays start as NaN at centre and xlow (undefined on open field lines)", {K("f.centre[...]"), K("f.xlow[...]")} <= nan_init, "%s:%d" % (mod.rel, fx.lineno), str(nan_init), key="xarray/nan-init")
    w = mod.funcs.get("BoutMesh.writeGridfile")
    text = T(mod, w.node)
    ok = K("chi=2.0*numpy.pi*self.zShift/self.ShiftAngle") in text and K("chi.ylow=2.0*numpy.pi*self.zShift.ylow/self.ShiftAngle.centre") in text
    rep.ob("R8", "chi = 2*pi*zShift/ShiftAngle at every written location (NaN where ShiftAngle is NaN)", ok, w.site(), "", key="chi/def")
