"""C01 every grid point lies on its flux surface (structural necessary conditions only).

R1 refine-before-use (typestate by must-flow): the region's contour list is in the
   `refined` state at every normal exit of the constructor, the wall-point step and the
   non-orthogonal redistribution.
R2 stagger parity of the R/Z fill: each of the 8 arrays takes contours and points of the
   parity of its logical location; R and Z siblings use identical selectors.
R3 pinning is confined to the four corner entries guarded by the matching X-point slot;
   the shared-edge copy preserves logical coordinates (y=ny <-> neighbour's y=0), for the
   face/corner arrays only; nothing else stores into the position arrays.
R4 psixy is psi evaluated at the written positions; each contour's psi value is the radial
   grid value of the same index as the perpendicular point it starts from.
R5 the psi targets given to the perpendicular follower are the region's psi values, reversed
   under the same condition as the result.
Not decided: that refinement converges and to what accuracy (numerical);
`follow_perpendicular_recover` grids are documented as off-surface.
"""
import ast

from ..flow import MustFlow
from ..model import Program, walk_own, is_self_attr, dotted, inline_temporaries, single_def
from ..report import AnalysisError
from .. import stagger
from ..slices import Affine
from ..model import canon as K

MESH = "hypnotoad/core/mesh.py"
EQ = "hypnotoad/core/equilibrium.py"
DIRTY_METHODS = {"insert", "replace", "append", "prepend", "temporaryExtend"}


def T(mod, n):
    return mod.code(n)


def run(rep, tier):
    prog = Program()
    rep.analysed_add("files", [MESH, EQ])
    rep.rule("R1", "contours refined at every exit (typestate)")
    rep.rule("R2", "fillRZ stagger parity")
    rep.rule("R3", "pinning confined to guarded corners; boundary copy coordinate-preserving")
    rep.rule("R4", "psixy at written positions; psi value index pairing")
    rep.rule("R5", "perpendicular targets are the region's psi values (reversal pairing)")
    r1(prog, rep)
    r2_r3(prog, rep)
    r4_r5(prog, rep)
    # R3 replaces corner entries by "the X-point of the matching slot": which X-point sits in which
    # slot of which region is a table fact (rule instances of C08.R1/R2: pins agree across joins)
    rep.rule("R0", "premise: the X-point slots of every region, per topology, agree across all connections (C08.R1/R2)")
    from ..report import Premise
    from . import c08
    from .. import tables
    pr = Premise(rep, "R0", "C08")
    for t in tables.all_topologies(prog):
        c08.r1_r2(pr, t)
    rep.undecided("convergence and accuracy of point refinement; grids made with follow_perpendicular_recover")
    return __doc__


def refine_extend_refines(prog):
    f = prog.func(MESH, "_refine_extend")
    calls = [T(f.module, n) for n in walk_own(f.node) if isinstance(n, ast.Expr)]
    rets = [n for n in walk_own(f.node) if isinstance(n, ast.Return)]
    return any(c.startswith(K("contour.refine(")) for c in calls) and len(rets) == 1 and T(f.module, rets[0].value) == "contour"


def _guards_of(root, node):
    """tests of the If statements whose *body* encloses node (innermost last)"""
    out = []

    def visit(n, stack):
        if n is node:
            out.extend(stack)
            return True
        if isinstance(n, ast.If):
            for ch in n.body:
                if visit(ch, stack + [(n.test, True)]):
                    return True
            for ch in n.orelse:
                if visit(ch, stack + [(n.test, False)]):
                    return True
            return False
        for ch in ast.iter_child_nodes(n):
            if visit(ch, stack):
                return True
        return False

    visit(root, [])
    return out


def _get_refined_sources(gr):
    """Every element that reaches `newpoints` (the list the refined contour is built from) is the
    result of self.refinePoint applied to a point of self.points, and all points are covered:
    either first / interior loop / last appends, or one comprehension over the whole point list.
    A value that reaches the list without going through refinePoint is a violation; a
    construction this function does not model is reported as such (undecided)."""
    mod, fnode = gr.module, gr.node

    def is_refine(c):
        return isinstance(c, ast.Call) and T(mod, c.func) == "self.refinePoint" and c.args

    def res(e):
        return T(mod, inline_temporaries(fnode, e))

    sources = []  # (expression that lands in newpoints, first-argument description)
    for n in walk_own(fnode):
        if isinstance(n, ast.Assign) and len(n.targets) == 1 and isinstance(n.targets[0], ast.Name) and n.targets[0].id == "newpoints":
            v = n.value
            if isinstance(v, ast.List):
                sources += [(e, None) for e in v.elts]
            elif isinstance(v, ast.ListComp) and len(v.generators) == 1 and not v.generators[0].ifs:
                g = v.generators[0]
                it = inline_temporaries(fnode, g.iter)
                if isinstance(it, ast.Call) and T(mod, it.func) == "zip" and it.args:
                    first_iter = res(it.args[0])
                    first_var = g.target.elts[0] if isinstance(g.target, ast.Tuple) else None
                else:
                    first_iter, first_var = T(mod, it), g.target
                cover = "all" if first_iter == "self.points" and is_refine(v.elt) and isinstance(first_var, ast.Name) and isinstance(v.elt.args[0], ast.Name) \
                    and v.elt.args[0].id == first_var.id else "unmodelled comprehension over %s" % first_iter
                sources.append((v.elt, cover))
            else:
                return False, "unmodelled construction of newpoints: %s" % T(mod, v)[:60]
        elif isinstance(n, ast.Call) and T(mod, n.func) == "newpoints.append" and n.args:
            sources.append((n.args[0], None))
        elif isinstance(n, ast.Call) and T(mod, n.func) in ("newpoints.extend", "newpoints.insert"):
            return False, "unmodelled construction of newpoints: %s" % T(mod, n)[:60]
    if not sources:
        return False, "unmodelled construction of newpoints: no element source found"
    raw = [T(mod, e)[:50] for e, c in sources if not is_refine(e)]
    if raw:
        return False, "reaches the refined contour without refinePoint: %s" % "; ".join(raw)
    covers = set()
    loops = {id(x): n for n in walk_own(fnode) if isinstance(n, ast.For) for x in ast.walk(n)}
    for e, c in sources:
        if c is not None:
            covers.add(c)
            continue
        a0 = res(e.args[0])
        if a0 in ("self.points[0]", "self.points[-1]"):
            covers.add(a0)
        else:
            lp = loops.get(id(e))
            it = inline_temporaries(fnode, lp.iter) if lp is not None else None
            if it is not None and isinstance(it, ast.Call) and T(mod, it.func) == "enumerate" and it.args:
                it = inline_temporaries(fnode, it.args[0])
            covers.add("interior" if it is not None and T(mod, it) == "self.points[1:-1]" else "unmodelled source %s" % a0)
    bad = [c for c in covers if c.startswith("unmodelled")]
    if bad:
        return False, "; ".join(bad)
    ok = covers == {"all"} or covers == {"self.points[0]", "interior", "self.points[-1]"}
    return ok, "covered: %s" % ", ".join(sorted(covers))


def tolerance_tests(prog, rep):
    """A refinement method may return a point as converged only because the *magnitude* of its
    residual psi(p) - psival is below the tolerance: in every refinePoint* method a quantity compared
    with `atol` by `<` / `<=` is an absolute value, or the search-interval width `w` (which the
    method keeps positive by construction).  A signed residual below a positive tolerance would
    accept every point on the low-psi side of its surface."""
    mod = prog.module(EQ)
    n = 0
    for qn, f in sorted(mod.funcs.items()):
        if not (f.cls == "PsiContour" and f.name.startswith("refinePoint") and qn.count(".") == 1):
            continue
        for c in ast.walk(f.node):
            if not (isinstance(c, ast.Compare) and len(c.ops) == 1 and isinstance(c.ops[0], (ast.Lt, ast.LtE, ast.Gt, ast.GtE))):
                continue
            l, r = c.left, c.comparators[0]
            small, big = (l, r) if isinstance(c.ops[0], (ast.Lt, ast.LtE)) else (r, l)
            if not any(isinstance(x, ast.Name) and x.id == "atol" for x in ast.walk(big)):
                continue
            n += 1
            sv = inline_temporaries(f.node, small)
            is_abs = isinstance(sv, ast.Call) and T(mod, sv.func) in ("numpy.abs", "abs", "numpy.fabs", "numpy.linalg.norm")
            is_width = isinstance(small, ast.Name) and small.id == "w"
            rep.ob("R1", "%s: the quantity accepted as below the tolerance in `%s` is a magnitude" % (f.qualname, T(mod, c)[:60]), is_abs or is_width, f.site(c),
                   ("definite: `%s` is a signed quantity: every point with a negative residual counts as converged" % T(mod, small)[:60]) if not (is_abs or is_width) else "", key="typestate/tolerance/%s/%s" % (f.name, T(mod, big)[:40]))
    rep.floor("R1.tolerance-tests", n, 4)
    # the integrating method has no tolerance test of its own (documented: it does not respect atol)
    # and always returns the end point of the integration along grad psi; handing the input back
    # would leave the decision to the Newton stage, which moves points along the contour
    g = mod.funcs.get("PsiContour.refinePointIntegrate")
    if g is None:
        raise AnalysisError("PsiContour.refinePointIntegrate not found")
    pname = [a.arg for a in g.node.args.args if a.arg != "self"][0]
    rets = [r for r in walk_own(g.node) if isinstance(r, ast.Return)]
    raw = [r for r in rets if isinstance(r.value, ast.Name) and r.value.id == pname]
    rep.ob("R1", "refinePointIntegrate returns the integrated position on every path (never its input point)", bool(rets) and not raw, g.site(raw[0]) if raw else g.site(),
           ("definite: `return %s` at line %d hands the unrefined point on" % (pname, raw[0].lineno)) if raw else "", key="typestate/refinePointIntegrate/exits")


def refine_point_exits(prog, rep):
    """exits of PsiContour.refinePoint: the input point is handed back unrefined only when the
    contour has no psi value at all (`self.psival is None`); every other exit returns what a
    refinement method returned or raises.  Also: psival is a number that may be 0.0, so it is
    never tested for truthiness anywhere."""
    f = prog.func(EQ, "PsiContour.refinePoint")
    mod = f.module
    pname = [a.arg for a in f.node.args.args if a.arg != "self"][0]
    rets = [n for n in walk_own(f.node) if isinstance(n, ast.Return)]
    n_unrefined = 0
    for r in rets:
        if isinstance(r.value, ast.Name) and r.value.id == pname:
            n_unrefined += 1
            g = _guards_of(f.node, r)
            ok = len(g) >= 1 and g[-1][1] and T(mod, g[-1][0]) == K("self.psival is None")
            rep.ob("R1", "refinePoint returns its input unrefined only for a contour without a psi value (`self.psival is None`)", ok, f.site(r),
                   "guard: %s" % (T(mod, g[-1][0]) if g else "none"), key="typestate/refinePoint/unrefined-exit")
        else:
            fn = inline_temporaries(f.node, r.value.func, keep=("available_methods",)) if isinstance(r.value, ast.Call) else None
            ok = isinstance(fn, ast.Subscript) and T(mod, fn.value) == "available_methods"
            rep.ob("R1", "refinePoint's other exits return the result of a refinement method", ok, f.site(r), T(mod, r.value)[:80], key="typestate/refinePoint/method-exit")
    rep.floor("R1.refinePoint-exits", len(rets), 2)
    # truthiness of psival anywhere in the package
    bad = []
    n_tests = 0
    for m in prog.modules.values():
        for n in ast.walk(m.tree):
            tests = []
            if isinstance(n, (ast.If, ast.While, ast.IfExp)):
                tests.append(n.test)
            elif isinstance(n, ast.Assert):
                tests.append(n.test)
            for t in tests:
                stack = [t]
                while stack:
                    x = stack.pop()
                    if isinstance(x, ast.BoolOp):
                        stack.extend(x.values)
                    elif isinstance(x, ast.UnaryOp) and isinstance(x.op, ast.Not):
                        stack.append(x.operand)
                    elif isinstance(x, ast.Attribute) and x.attr == "psival":
                        bad.append("%s:%d `%s`" % (m.rel, x.lineno, m.code(t)))
                    elif isinstance(x, ast.Compare) and any(isinstance(c, ast.Attribute) and c.attr == "psival" for c in [x.left] + x.comparators):
                        n_tests += 1
    rep.ob("R1", "a contour's psi value is never tested for truthiness (0.0 is a legitimate flux value)", not bad, EQ, "; ".join(bad), key="typestate/psival-truthiness")


def r1(prog, rep):
    mod = prog.module(MESH)
    ok_re = refine_extend_refines(prog)
    rep.ob("R1", "the refine-and-extend helper refines the contour it returns", ok_re, MESH, "", key="typestate/_refine_extend")
    ref = prog.func(EQ, "PsiContour.refine")
    ok = K("new=self.getRefined(*args,**kwargs)") in T(ref.module, ref.node) and K("self.points=new.points") in T(ref.module, ref.node)
    rep.ob("R1", "PsiContour.refine replaces the points by their refined positions", ok, ref.site(), "", key="typestate/refine")
    gr = prog.func(EQ, "PsiContour.getRefined")
    ok, detail = _get_refined_sources(gr)
    rep.ob("R1", "getRefined passes every point (first, interior, last) through refinePoint", ok, gr.site(), detail, key="typestate/getRefined")
    refine_point_exits(prog, rep)
    tolerance_tests(prog, rep)
    names = ["MeshRegion.__init__", "MeshRegion.addPointAtWallToContours", "MeshRegion.distributePointsNonorthogonal"]

    def flow(f, summaries, sites):
        def transfer(s, facts):
            # calls anywhere in the statement
            for c in [n for n in ast.walk(s) if isinstance(n, ast.Call)]:
                d = dotted(c.func)
                if d in summaries:
                    facts = facts | {"refined"}
                    sites.append(("callee " + d, c.lineno))
                elif isinstance(c.func, ast.Attribute) and c.func.attr in DIRTY_METHODS and not is_self_attr(c.func.value, "sfunc_orthogonal_list"):
                    base = c.func.value
                    txt = T(f.module, base)
                    if txt.startswith("self.contours") or isinstance(base, ast.Name) and base.id in ("contour", "c"):
                        facts = facts - {"refined"}
                elif isinstance(c.func, ast.Attribute) and c.func.attr == "regrid":
                    rf = [k for k in c.keywords if k.arg == "refine"]
                    if rf and isinstance(rf[0].value, ast.Constant) and rf[0].value.value is False:
                        facts = facts - {"refined"}
            if isinstance(s, ast.Assign) and any(is_self_attr(t, "contours") for t in s.targets):
                v = s.value
                if isinstance(v, ast.Call) and dotted(v.func) == "self.parallel_map" and v.args and T(f.module, v.args[0]) in ("PsiContour.refine", "_refine_extend"):
                    facts = facts | {"refined"}
                    sites.append((T(f.module, v.args[0]), s.lineno))
                else:
                    facts = facts - {"refined"}
            return facts

        exits = []
        MustFlow(transfer, on_return=lambda node, facts: exits.append((node, facts))).run(f.node, frozenset())
        return exits

    # which methods of the region leave the contours refined at every normal exit: least fixed
    # point over the region's own methods (a helper extracted from the constructor is found here)
    region_methods = [g for q, g in mod.funcs.items() if q.startswith("MeshRegion.") and q.count(".") == 1
                      and any(isinstance(x, ast.Attribute) and x.attr in ("contours", "parallel_map") for x in ast.walk(g.node))]
    summaries = {}
    changed = True
    while changed:
        changed = False
        for g in region_methods:
            key_ = "self." + g.name
            if key_ in summaries or g.name == "__init__":
                continue
            st = []
            ex_ = flow(g, summaries, st)
            if ex_ and st and all("refined" in facts for node, facts in ex_):
                summaries[key_] = True
                changed = True
    rep.analysed_add("methods that leave the contours refined", sorted(summaries))
    clean_sites = 0
    direct = set()
    for g in region_methods:
        st = []
        flow(g, summaries, st)
        direct |= {(g.qualname, ln) for what, ln in st if not what.startswith("callee")}
    clean_sites = len(direct)
    for qn in names:
        f = prog.func(MESH, qn)
        sites = []
        exits = flow(f, summaries, sites)
        for node, facts in exits:
            rep.ob("R1", "%s: contours are refined at %s" % (qn, "the end of the method" if node is None else "return at line %d" % node.lineno), "refined" in facts, f.site(node) if node else f.site(),
                   "refining sites seen: %s" % sites, key="typestate/%s/%s" % (qn, "end" if node is None else "return"))
    rep.floor("R1.refining-sites", clean_sites, 2)
    # the constructor calls both non-orthogonal steps only after its own refinement
    # (covered by the flow); Mesh.redistributePoints goes through distributePointsNonorthogonal
    rp = prog.func(MESH, "Mesh.redistributePoints")
    ok = any(isinstance(n, ast.Call) and T(rp.module, n.func) == "region.distributePointsNonorthogonal" for n in ast.walk(rp.node))
    rep.ob("R1", "redistribution goes through the refining redistribution method of every region", ok, rp.site(), "", key="typestate/redistribute")


def r2_r3(prog, rep):
    mod = prog.module(MESH)
    f = prog.unique_func_assigning(["Rxy", "Zxy"], MESH)
    rep.analysed_add("functions", [f.site()])
    fills = {}
    for s in f.node.body:
        if isinstance(s, ast.Assign) and isinstance(s.targets[0], ast.Attribute) and s.targets[0].attr in stagger.XHALF and is_self_attr(s.targets[0].value) and s.targets[0].value.attr in ("Rxy", "Zxy"):
            arr, loc = s.targets[0].value.attr, s.targets[0].attr
            v = s.value
            lc = v.args[0] if isinstance(v, ast.Call) and dotted(v.func) in ("numpy.array", "np.array") and v.args else None
            info = None
            if isinstance(lc, ast.ListComp) and isinstance(lc.elt, ast.ListComp):
                outer, inner = lc.generators[0], lc.elt.generators[0]
                coord = lc.elt.elt
                try:
                    csel = stagger.axis_sel(outer.iter.slice, Affine(1, 2)) if isinstance(outer.iter, ast.Subscript) and T(mod, outer.iter.value) == "self.contours" else None
                    psel = stagger.axis_sel(inner.iter.slice, Affine(1, 2)) if isinstance(inner.iter, ast.Subscript) and isinstance(inner.iter.value, ast.Name) and inner.iter.value.id == outer.target.id else None
                    cattr = coord.attr if isinstance(coord, ast.Attribute) and isinstance(coord.value, ast.Name) and coord.value.id == inner.target.id else None
                    info = (csel, psel, cattr)
                except stagger.StencilError as e:
                    info = str(e)
            fills[(arr, loc)] = (info, s)
    for arr in ("Rxy", "Zxy"):
        for loc in ("centre", "xlow", "ylow", "corners"):
            got = fills.get((arr, loc))
            ok = False
            detail = "assignment not found"
            if got and isinstance(got[0], tuple) and got[0][0] and got[0][1]:
                csel, psel, cattr = got[0]
                cpar = stagger.first_of(csel)
                ppar = stagger.first_of(psel)
                nx_cnt = stagger.count_of(csel)
                ny_cnt = stagger.count_of(psel)
                want_c = Affine(1) if stagger.XHALF[loc] else Affine(0)
                want_p = Affine(1) if stagger.YHALF[loc] else Affine(0)
                ok = cpar == want_c and ppar == want_p and csel[2] == 2 and psel[2] == 2 and cattr == arr[0] \
                    and nx_cnt == stagger.XLEN[loc] and ny_cnt == stagger.YLEN[loc]
                detail = "contours start %s step %s (%s of them), points start %s step %s (%s), coordinate .%s" % (cpar, csel[2], nx_cnt, ppar, psel[2], ny_cnt, cattr)
            rep.ob("R2", "%s.%s takes contours and points of the parity of its location (x=%s, y=%s) with coordinate %s" % (arr, loc, "i+1/2" if stagger.XHALF[loc] else "i", "j+1/2" if stagger.YHALF[loc] else "j", arr[0]),
                   ok, f.site(got[1]) if got else f.site(), detail, key="fill/%s/%s" % (arr, loc))
    rep.floor("R2.fills", len(fills), 8)
    # R3 pins
    want = {("0", "0"): ("xPointsAtStart", "self.radialIndex"), ("-1", "0"): ("xPointsAtStart", "self.radialIndex+1"),
            ("0", "-1"): ("xPointsAtEnd", "self.radialIndex"), ("-1", "-1"): ("xPointsAtEnd", "self.radialIndex+1")}
    body = f.node.body
    pins = {}
    cur = None
    for s in body:
        if isinstance(s, ast.Assign) and isinstance(s.targets[0], ast.Name) and s.targets[0].id == "xpoint":
            v = s.value
            if isinstance(v, ast.Subscript) and isinstance(v.value, ast.Attribute) and T(mod, v.value.value) == "self.equilibriumRegion":
                cur = (v.value.attr, T(mod, v.slice))
        if isinstance(s, ast.If) and T(mod, s.test) == "xpointisnotNone" and cur:
            for st in s.body:
                if isinstance(st, ast.Assign) and isinstance(st.targets[0], ast.Subscript):
                    t = st.targets[0]
                    la = stagger.loc_array(t)
                    if la and is_self_attr(la[0]) and la[0].attr in ("Rxy", "Zxy"):
                        idx = tuple(T(mod, e) for e in t.slice.elts)
                        pins.setdefault(idx, []).append((la[0].attr, la[1], T(mod, st.value), cur))
    for idx, (lst, slot) in want.items():
        got = pins.get(idx, [])
        ok = sorted((a, l, v) for a, l, v, c in got) == [("Rxy", "corners", "xpoint.R"), ("Zxy", "corners", "xpoint.Z")] and all(c == (lst, slot) for a, l, v, c in got)
        rep.ob("R3", "corner [%s,%s] is replaced by the X-point of slot %s[%s], for R and Z, only when that slot is set" % (idx[0], idx[1], lst, slot.replace("self.", "")), ok, f.site(), str(got), key="pin/%s,%s" % idx)
    rep.ob("R3", "no other entries are pinned", set(pins) == set(want), f.site(), str(sorted(pins)), key="pin/only")
    # all stores into Rxy/Zxy program-wide
    writers = set()
    for g in mod.funcs.values():
        for n in walk_own(g.node):
            if isinstance(n, (ast.Assign, ast.AugAssign)):
                for t in (n.targets if isinstance(n, ast.Assign) else [n.target]):
                    b = t
                    while isinstance(b, (ast.Subscript, ast.Attribute)):
                        if isinstance(b, ast.Attribute) and b.attr in ("Rxy", "Zxy") and isinstance(b.value, ast.Name):
                            if b.value.id in ("self", "region"):
                                writers.add(g.qualname)
                        b = b.value
    gb = prog.func(MESH, "MeshRegion.getRZBoundary")
    rep.ob("R3", "the position arrays of a region are written only by the fill and the shared-edge copy", writers <= {f.qualname, gb.qualname}, MESH, str(sorted(writers)), key="writers")
    # boundary copy (control flow normalised: guard clause / nested if, unrolled literal loops)
    from ..stores import effects
    copies = []
    guards = set()
    for e in effects(gb.node):
        if e.kind == "store" and isinstance(e.target, ast.Subscript):
            tl, sl = stagger.loc_array(e.target), stagger.loc_array(e.value)
            if tl and sl:
                tx, ty = stagger.selectors(tl[2], tl[1])
                sx, sy = stagger.selectors(sl[2], sl[1])
                # target logical y (own) == ny ; source logical y (neighbour) == 0
                ylog_t = stagger.first_of(ty) + stagger.YHALF[tl[1]]
                ylog_s = stagger.first_of(sy) + stagger.YHALF[sl[1]]
                copies.append((T(mod, tl[0]), tl[1], T(mod, sl[0]), sl[1], ylog_t, ylog_s))
                guards.add(tuple(T(mod, c) if not isinstance(c, str) else c for c in e.conds))
    guard = guards.pop()[-1] if len(guards) == 1 and next(iter(guards)) else None
    ok = guard == K('self.connections["upper"]isnotNone')
    want_c = {("self.Rxy", "ylow", "up.Rxy", "ylow"), ("self.Zxy", "ylow", "up.Zxy", "ylow"), ("self.Rxy", "corners", "up.Rxy", "corners"), ("self.Zxy", "corners", "up.Zxy", "corners")}
    got_c = {(a, b, c, d) for a, b, c, d, e, g2 in copies}
    coords = all(e == Affine(0, 1) and g2 == Affine(0) for a, b, c, d, e, g2 in copies)
    rep.ob("R3", "shared-edge copy: ylow and corners at logical y=ny take the upper neighbour's values at its y=0, same location, R and Z", ok and got_c == want_c and coords, gb.site(),
           str(copies), key="edge-copy")
    up = any(isinstance(s, ast.Assign) and T(mod, s) == K('up=self.getNeighbour("upper")') for s in ast.walk(gb.node))
    rep.ob("R3", "the values come from the upper neighbour", up, gb.site(), "", key="edge-copy/neighbour")


from ..elements import element as _element_of, NoElement as _NoElement


def _element(mod, fnode, it, env):
    return _element_of(fnode, it, env)


def r4_r5(prog, rep):
    mod = prog.module(MESH)
    init = prog.func(MESH, "MeshRegion.__init__")
    src = T(mod, init.node)
    # R5: targets
    cond = "self.radialIndex<self.equilibriumRegion.separatrix_radial_index"
    ok = ("if%s:" % cond) in src and K("temp_psi_vals=self.psi_vals[::-1]") in src and K("else:temp_psi_vals=self.psi_vals") in src
    rep.ob("R5", "the follower's targets are the region's psi values, reversed for regions inside the separatrix", ok, init.site(), "", key="targets/def")
    pm = [n for n in ast.walk(init.node) if isinstance(n, ast.Call) and T(mod, n.func) == "self.parallel_map" and n.args and T(mod, n.args[0]) == "followPerpendicular"]
    ok = len(pm) == 1 and any(k.arg == "psivals" and T(mod, k.value) == "temp_psi_vals" for k in pm[0].keywords)
    rep.ob("R5", "the mapped perpendicular follower receives these targets", ok, init.site(pm[0]) if pm else init.site(), "", key="targets/passed")
    rev = [n for n in walk_own(init.node) if isinstance(n, ast.If) and T(mod, n.test) == cond and any(isinstance(x, ast.Call) and T(mod, x.func) == "perp_points.reverse" for x in ast.walk(n))]
    rep.ob("R5", "the followed points are reversed back under exactly the same condition", len(rev) == 1, init.site(), "", key="targets/reversed-back")
    # R4 index pairing
    loops = [n for n in walk_own(init.node) if isinstance(n, ast.For) and T(mod, n.iter) == K("enumerate(perp_points_list[0])")]
    ok = len(loops) == 1 and T(mod, loops[0].target) == K("i,point") and K("self.equilibriumRegion.newContourFromSelf(points=[point],psival=self.psi_vals[i])") in T(mod, loops[0])
    rep.ob("R4", "contour i is started from perpendicular point i with psi value psi_vals[i]", ok, init.site(), "", key="pairing/first")
    loops2 = [n for n in walk_own(init.node) if isinstance(n, ast.For) and T(mod, n.iter) == K("perp_points_list[1:]")]
    ok = len(loops2) == 1 and K("fori,pointinenumerate(perp_points):self.contours[i].append(point)") in T(mod, loops2[0])
    rep.ob("R4", "points of every further perpendicular are appended to the contour of the same index", ok, init.site(), "", key="pairing/rest")
    from ..stores import effects
    ok = any(e.kind == "raise" and e.conds and not isinstance(e.conds[-1], str) and T(mod, e.conds[-1]) in (K("len(self.psi_vals) != 2*self.nx+1"), K("2*self.nx+1 != len(self.psi_vals)"))
             for e in effects(init.node))
    rep.ob("R4", "there is one psi value per radial point (2*nx+1)", ok, init.site(), "", key="pairing/length")
    g1 = prog.unique_func_assigning(["psixy"], MESH)
    ok = any(isinstance(s, ast.Assign) and is_self_attr(s.targets[0], "psixy") and T(mod, s.value) == K("self.meshParent.equilibrium.psi(self.Rxy,self.Zxy)") for s in walk_own(g1.node))
    rep.ob("R4", "psixy is the equilibrium's psi evaluated at the written Rxy, Zxy", ok, g1.site(), "", key="psixy")
    # start points: (index, point, psi at the point)
    if pm:
        z = inline_temporaries(init.node, pm[0].args[1])
        try:
            el = _element(mod, init.node, z, {})
            ok = el == ("<i>", "<self.equilibriumRegion[i]>", "self.equilibriumRegion.psi(*<self.equilibriumRegion[i]>)")
            detail = "element i of the mapped iterable: %s" % (el,)
        except _NoElement as e:
            ok, detail = False, "unmodelled iterable: %s" % e
        rep.ob("R4", "each perpendicular starts at a point of the region's base contour with psi evaluated at that point", ok, init.site(pm[0]), detail, key="pairing/start-points")
