"""C20 segment / polygon predicates (E3 identities + guard structure).

R1 each of the four arms of the wall-intersection routine returns a crossing that lies on
   both lines identically; its denominator vanishes exactly when the lines are parallel.
R2 the range tests bound each crossing coordinate by the ends it was sorted by, with the
   tolerance on both sides; wall edges are sorted by their dominant coordinate; the
   segment is swapped iff its dominant coordinate decreases.
R3 inputs are copied before they are modified.
R4 polygons.intersect: (alpha, beta) solve the 2x2 system; det is its determinant.
R5 polygons.area: per-edge summand identity => area>0 <=> clockwise; clockwise = area>0.
R6 closest_approach: foot of the perpendicular; clamping to the nearer end.
R7 wallIntersection duplicate handling.
Not decided: behaviour within tolerance of degeneracy; rounding.
"""
import ast

from ..alg import AlgError, Context, Rat, _pdiv_exact
from ..extract import Extractor, Closure, Opaque, PathRaises, ReturnValue, _dotted
from ..model import Program, walk_own
from ..report import AnalysisError
from ..model import key_in, canon as K, inline_temporaries, as_less

EQ = "hypnotoad/core/equilibrium.py"
POLY = "hypnotoad/utils/polygons.py"


class FIEx(Extractor):
    """arrays are tracked by (name, column) atoms; row filters keep the per-row relation"""

    def __init__(self, ctx, module, seed):
        super().__init__(ctx, module)
        self.seed = seed
        self.top_done = False

    def on_attr(self, d, node, env):
        return self.ctx.sym(d)

    def on_name(self, name, env):
        if name == "intersect_tolerance":
            return self.ctx.sym("tol")
        raise AlgError("unbound name " + name)

    def choose(self, test, env):
        t = self.text(test)
        if key_in("numpy.abs(l2end.R - l2start.R) > numpy.abs(l2end.Z - l2start.Z)", t):
            return self.seed
        return None

    def on_subscript(self, node, value, env):
        sl = node.slice
        if isinstance(sl, ast.Tuple) and len(sl.elts) == 2 and isinstance(sl.elts[0], ast.Slice) and isinstance(sl.elts[1], ast.Constant):
            if isinstance(node.value, ast.Name):
                return self.ctx.sym("%s[:,%d]" % (node.value.id, sl.elts[1].value))
        if isinstance(value, Rat):
            return value  # row selection of a per-row quantity
        raise AlgError("array subscript " + self.text(node))

    def on_call(self, node, fname, args, kwargs, env):
        raise AlgError("call " + str(fname))

    def stmt(self, s, env):
        if isinstance(s, ast.Assign) and isinstance(s.targets[0], ast.Name) and s.targets[0].id == "intersect_inds":
            gs = []
            for c in ast.walk(s.value):
                if isinstance(c, ast.Compare) and len(c.ops) == 1:
                    a = self.expr(c.left, env)
                    b = self.expr(c.comparators[0], env)
                    op = type(c.ops[0])
                    if op in (ast.GtE, ast.Gt):
                        gs.append((a - b, op is ast.GtE))
                    elif op in (ast.LtE, ast.Lt):
                        gs.append((b - a, op is ast.LtE))
                    else:
                        raise AlgError("unexpected comparison in range test")
            env.setdefault("$ranges", []).append((s, gs))
        return super().stmt(s, env)


def run(rep, tier):
    prog = Program()
    rep.analysed_add("files", [EQ, POLY])
    r1_r2_r3(prog, rep)
    r4_r5(prog, rep)
    r6(prog, rep)
    r7(prog, rep)
    rep.undecided("behaviour within intersect_tolerance of parallel/touching configurations; floating-point rounding")
    return __doc__


def find_fi(prog):
    fs = [f for f in prog.module(EQ).funcs.values() if f.name == "find_intersections" and f.parent is None and f.cls is None]
    if len(fs) != 1:
        raise AnalysisError("find_intersections not found")
    return fs[0]


def r1_r2_r3(prog, rep):
    rep.rule("R1", "crossing satisfies both line equations; denominator == cross product of directions (up to a monomial)")
    rep.rule("R2", "range tests: sorted coordinate, both-sided tolerance, swap iff decreasing")
    rep.rule("R3", "inputs copied before modification")
    f = find_fi(prog)
    rep.analysed_add("functions", [f.site()])
    mod = f.module
    # edge end-point arrays: column 0/1 of R1array, Z1array are the R (column 0) / Z (column 1)
    # coordinate of the first / second end point of every edge of the polyline
    want_edges = {"R1array[:,0]": "l1array[:-1,0]", "R1array[:,1]": "l1array[1:,0]", "Z1array[:,0]": "l1array[:-1,1]", "Z1array[:,1]": "l1array[1:,1]"}
    got_edges = {}
    for s in f.node.body:
        if isinstance(s, ast.Assign) and isinstance(s.targets[0], ast.Subscript) and mod.code(s.targets[0]) in want_edges:
            got_edges[mod.code(s.targets[0])] = mod.code(s.value)
    rep.ob("R1", "edge arrays hold (R, Z) of the first and second end point of each polyline edge", got_edges == want_edges, f.site(), str(got_edges), key="edges/endpoints")
    shapes = {mod.code(s.targets[0]): mod.code(s.value) for s in f.node.body if isinstance(s, ast.Assign) and isinstance(s.targets[0], ast.Name) and s.targets[0].id in ("R1array", "Z1array")}
    ok = all(shapes.get(k) == K("numpy.zeros([l1array.shape[0] - 1, 2])") for k in ("R1array", "Z1array"))
    rep.ob("R1", "one row per edge (number of points minus one), two columns", ok, f.site(), str(shapes), key="edges/shape")
    # R3: parameters rebound to copies before anything else touches them
    params = [a.arg for a in f.node.args.args]
    copied = {}
    for s in f.node.body:
        if isinstance(s, ast.Assign) and isinstance(s.targets[0], ast.Name) and s.targets[0].id in params:
            v = s.value
            t = mod.text(v)
            if isinstance(v, ast.Call) and ((isinstance(v.func, ast.Attribute) and v.func.attr == "copy") or _dotted(v.func) in ("deepcopy", "copy.deepcopy", "copy.copy")):
                copied[s.targets[0].id] = s.lineno
        elif isinstance(s, ast.Expr) and isinstance(s.value, ast.Constant):
            continue
        else:
            break
    # which parameters are mutated (swap_points args, subscript stores)?
    mutated = set()
    for n in walk_own(f.node):
        if isinstance(n, ast.Call) and _dotted(n.func) == "swap_points":
            for a in n.args:
                if isinstance(a, ast.Name):
                    mutated.add(a.id)
        if isinstance(n, (ast.Assign, ast.AugAssign)):
            ts = n.targets if isinstance(n, ast.Assign) else [n.target]
            for t in ts:
                if isinstance(t, (ast.Subscript, ast.Attribute)) and isinstance(t.value, ast.Name) and t.value.id in params:
                    mutated.add(t.value.id)
    for p in sorted(mutated & set(params)):
        rep.ob("R3", "parameter %s is copied before it is modified" % p, p in copied, f.site(), "copies at lines %s" % copied, key="copy/" + p)
    rep.floor("R3.mutated-params", len(mutated & set(params)), 2)

    n_tests = 0
    for seed, lab in ((True, "l2:R-dominant"), (False, "l2:Z-dominant")):
        ctx = Context()
        ex = FIEx(ctx, mod, seed)
        env = {}
        try:
            ex.block(f.node.body, env)
        except ReturnValue:
            pass
        except PathRaises:
            pass
        except AlgError as e:
            # statements after the arms (concatenate, return) are not needed
            pass
        R2s, Z2s, R2e, Z2e = ctx.sym("l2start.R"), ctx.sym("l2start.Z"), ctx.sym("l2end.R"), ctx.sym("l2end.Z")
        for ab in "ab":
            Ri, Zi = env.get("Rintersect_" + ab), env.get("Zintersect_" + ab)
            site = f.site()
            label = "%s/%s-edges" % (lab, ab)
            if not (isinstance(Ri, Rat) and isinstance(Zi, Rat)):
                rep.ob("R1", "%s: crossing extractable" % label, False, site, "R=%r Z=%r" % (Ri, Zi), key=label + "/extract")
                continue
            R10, R11 = ctx.sym("thisR1_%s[:,0]" % ab), ctx.sym("thisR1_%s[:,1]" % ab)
            Z10, Z11 = ctx.sym("thisZ1_%s[:,0]" % ab), ctx.sym("thisZ1_%s[:,1]" % ab)
            e1 = (Zi - Z10) * (R11 - R10) - (Ri - R10) * (Z11 - Z10)
            e2 = (Zi - Z2s) * (R2e - R2s) - (Ri - R2s) * (Z2e - Z2s)
            rep.ob("R1", "%s: crossing lies on the wall edge's line" % label, e1.is_zero(), site, "residual " + e1.residual()[:160], key=label + "/on-l1")
            rep.ob("R1", "%s: crossing lies on the segment's line" % label, e2.is_zero(), site, "residual " + e2.residual()[:160], key=label + "/on-l2")
            cross = (R11 - R10) * (Z2e - Z2s) - (Z11 - Z10) * (R2e - R2s)
            factors = [(R11 - R10).num, (Z11 - Z10).num, (R2e - R2s).num, (Z2e - Z2s).num]
            okd = True
            detail = []
            for nm, v in (("R", Ri), ("Z", Zi)):
                d = _strip(v.den, factors)
                q = _pdiv_exact(d, cross.num)
                good = q is not None and (len(q) == 1 and () in q or _pdiv_exact(v.num, q) is not None)
                if _poly_is_const(d):
                    good = False  # a crossing formula with no parallel-line singularity cannot be right
                okd = okd and good
                detail.append("%scross: den/(dR1,dZ1,dR2,dZ2 factors) %s cross product" % (nm, "==" if good else "!="))
            rep.ob("R1", "%s: denominator vanishes exactly for parallel lines" % label, okd, site, "; ".join(detail), key=label + "/den")
            # R2: the range test of this arm, as inequalities g >= 0
            idx = 0 if ab == "a" else 1
            ranges = env.get("$ranges", [])
            if len(ranges) != 2:
                rep.ob("R2", "%s: range test found" % label, False, site, "%d range tests in arm" % len(ranges), key=label + "/range")
                continue
            node, gs = ranges[idx]
            n_tests += 1
            tol = ctx.sym("tol")
            edge_c, lo, hi = (Ri, R10, R11) if ab == "a" else (Zi, Z10, Z11)
            seg_c, s_lo, s_hi = (Ri, R2s, R2e) if seed else (Zi, Z2s, Z2e)
            want = [edge_c - (lo - tol), (hi + tol) - edge_c, seg_c - (s_lo - tol), (s_hi + tol) - seg_c]
            unmatched = list(want)
            extra = []
            for g, closed in gs:
                hit = None
                for w in unmatched:
                    if (g - w).is_zero():
                        hit = w
                        break
                if hit is None or not closed:
                    extra.append(g.show(100))
                else:
                    unmatched.remove(hit)
            rep.ob("R2", "%s: range test is {sorted edge coordinate in [lo-tol, hi+tol]} and {segment's dominant coordinate in [start-tol, end+tol]}" % label,
                   not unmatched and not extra, f.site(node), "unmatched expected: %s ; unexpected: %s" % ([w.show(80) for w in unmatched], extra), key=label + "/range")
    # R2 range tests, by structure of each numpy.where(logical_and(...)) in each arm
    top = None
    for s in f.node.body:
        if isinstance(s, ast.If) and "l2end.R - l2start.R" in mod.text(s.test):
            top = s
    if top is None:
        raise AnalysisError("slope-class test of the segment not found")
    for arm, dom, other in ((top.body, "R", "Z"), (top.orelse, "Z", "R")):
        # swap iff the dominant coordinate decreases
        sw = [s for s in arm if isinstance(s, ast.If) and any(isinstance(n, ast.Call) and _dotted(n.func) == "swap_points" for n in ast.walk(s))]
        less = as_less(sw[0].test) if len(sw) == 1 else None
        ok = bool(less) and less[1] and (mod.code(less[0]), mod.code(less[2])) == ("l2end.%s" % dom, "l2start.%s" % dom)
        rep.ob("R2", "segment %s-dominant: end points swapped iff l2start.%s > l2end.%s" % (dom, dom, dom), ok, f.site(sw[0] if sw else top), "", key="swap/" + dom)
    rep.floor("R2.range-tests", n_tests, 4)
    # wall edges sorted by their dominant coordinate, classes complementary
    src = mod.text(f.node)
    s1 = "sortinds = numpy.argsort(thisR1_a, axis=1)" in src
    s2 = "sortinds = numpy.argsort(thisZ1_b, axis=1)" in src
    rep.ob("R2", "a-edges sorted in R, b-edges sorted in Z", s1 and s2, f.site(), "", key="sort/edges")
    conds = []
    for n in walk_own(f.node):
        if isinstance(n, ast.Assign) and isinstance(n.targets[0], ast.Name) and n.targets[0].id in ("inds_a", "inds_b") and isinstance(n.value, ast.Subscript):
            for c in ast.walk(n.value):
                if isinstance(c, ast.Compare) and "R1array" in mod.text(c) and as_less(c):
                    small, strict, big = as_less(c)
                    conds.append((n.targets[0].id, "strict" if strict else "non-strict", mod.code(small), mod.code(big)))
    # complementary: one class is `x < y`, the other `y <= x` on the same two quantities
    ok = len(conds) == 2 and {conds[0][1], conds[1][1]} == {"strict", "non-strict"} and conds[0][2:] == conds[1][2:][::-1]
    rep.ob("R2", "edge slope classes are complementary (> versus <= on the same quantities)", ok, f.site(), str(conds), key="classes/complementary")


def _strip(p, factors):
    changed = True
    while changed:
        changed = False
        for f in factors:
            q = _pdiv_exact(p, f)
            if q is not None:
                p = q
                changed = True
    return p


def _poly_is_const(p):
    return len(p) == 1 and () in p


def _flatten_and(node):
    out = []
    for n in ast.walk(node):
        if isinstance(n, ast.Compare):
            out.append(n)
    return out


class PolyEx(Extractor):
    def on_subscript(self, node, value, env):
        return self.ctx.sym(self.text(node).replace(" ", ""))

    def on_name(self, name, env):
        return self.ctx.sym(name)

    def on_call(self, node, fname, args, kwargs, env):
        if fname == "abs":
            return self.ctx.call("abs", args[0])
        raise AlgError("call %s" % fname)


def r4_r5(prog, rep):
    rep.rule("R4", "polygons.intersect: alpha*a + beta*b == dr, alpha*c + beta*d == dz, det == a*d - b*c")
    rep.rule("R5", "polygons.area summand: (r2-r1)(z1+z2) == -(r1 z2 - r2 z1) + (r2 z2 - r1 z1); clockwise == area > 0")
    mod = prog.module(POLY)
    f = mod.funcs.get("intersect")
    if f is None:
        raise AnalysisError("polygons.intersect not found")
    ctx = Context()
    ex = PolyEx(ctx, mod)
    env = {}
    inner = None
    chain = []  # the nest of loops, outermost first (loop-invariant quantities may be hoisted)
    for n in ast.walk(f.node):
        if isinstance(n, ast.For):
            inner = n
            chain.append(n)
    for loop in chain:
        for s in loop.body:
            if isinstance(s, ast.Assign):
                try:
                    ex.stmt(s, env)
                except AlgError:
                    pass
    need = ["a", "b", "c", "d", "dr", "dz", "det", "alpha", "beta"]
    if not all(isinstance(env.get(k), Rat) for k in need):
        rep.ob("R4", "intersect: quantities extractable", False, f.site(), str({k: type(env.get(k)).__name__ for k in need}), key="intersect/extract")
    else:
        a, b, c, d, dr, dz, det, al, be = [env[k] for k in need]
        rep.ob("R4", "alpha*a + beta*b == dr", (al * a + be * b - dr).is_zero(), f.site(), "", key="intersect/eq-r")
        rep.ob("R4", "alpha*c + beta*d == dz", (al * c + be * d - dz).is_zero(), f.site(), "", key="intersect/eq-z")
        rep.ob("R4", "det == a*d - b*c", (det - (a * d - b * c)).is_zero(), f.site(), "", key="intersect/det")
        # a, c are the direction of segment 1 from vertex i; b, d of segment 2; dr,dz from P1[i] to P2[jp]
        r1i, r1p, z1i, z1p = ctx.sym("r1[i]"), ctx.sym("r1[ip]"), ctx.sym("z1[i]"), ctx.sym("z1[ip]")
        r2j, r2p, z2j, z2p = ctx.sym("r2[j]"), ctx.sym("r2[jp]"), ctx.sym("z2[j]"), ctx.sym("z2[jp]")
        ok = (a - (r1p - r1i)).is_zero() and (c - (z1p - z1i)).is_zero() and (b - (r2p - r2j)).is_zero() and (d - (z2p - z2j)).is_zero()
        rep.ob("R4", "a,c / b,d are the edge vectors of polygon 1 / polygon 2", ok, f.site(), "", key="intersect/edges")
        # the common point: P1[i] + alpha*(a,c) == P2[jp] - beta*(b,d)
        e1 = r1i + al * a - (r2p - be * b)
        e2 = z1i + al * c - (z2p - be * d)
        rep.ob("R4", "P1[i] + alpha*A == P2[j+1] - beta*B (the crossing point)", e1.is_zero() and e2.is_zero(), f.site(), "", key="intersect/point")
    # every pair of edges is examined: a (nearly) parallel pair is skipped with `continue`; nothing
    # leaves the loops except the `return True` of a found crossing
    skips = [n for n in ast.walk(f.node) if isinstance(n, ast.If) and any(isinstance(x, ast.Name) and x.id == "det" for x in ast.walk(n.test))
             and any(isinstance(x, (ast.Continue, ast.Break, ast.Return)) for x in n.body)]
    skips = [n for n in skips if isinstance(n.body[-1], (ast.Continue, ast.Break)) or (isinstance(n.body[-1], ast.Return) and not (isinstance(n.body[-1].value, ast.Constant) and n.body[-1].value.value is True))]
    ok = len(skips) == 1 and isinstance(skips[0].body[-1], ast.Continue)
    leaves = [x for l in chain for x in ast.walk(l) if isinstance(x, ast.Break)]
    detail = "" if ok and not leaves else "definite: the scan over the remaining edges is abandoned (%s) where only this pair of edges should be skipped" % ("break" if leaves or (skips and isinstance(skips[0].body[-1], ast.Break)) else "return")
    rep.ob("R4", "a (nearly) parallel pair of edges is skipped and the scan goes on with the next pair", ok and not leaves, f.site(skips[0]) if skips else f.site(), detail, key="intersect/skip-parallel")
    # open-interval tests on both parameters
    tests = [n for n in ast.walk(inner) if isinstance(n, ast.If) and any(isinstance(x, ast.Return) for x in n.body)]
    ok = False
    if tests:
        ok = _atomic_comparisons(mod, tests[0].test) == {("alpha", ">", 0.0), ("alpha", "<", 1.0), ("beta", ">", 0.0), ("beta", "<", 1.0)}
    rep.ob("R4", "both parameters tested against the open interval (0,1)", ok, f.site(), "", key="intersect/interval")
    area_rules(prog, rep, "R5")


def _atomic_comparisons(mod, test):
    """the conjunction `test` as a set of (name, op, constant): `and`, `&` and chained comparisons
    (`0.0 < a < 1.0`) are taken apart and each comparison is turned so that the name is on the left;
    None if the test is not such a conjunction"""
    flip = {ast.Lt: ">", ast.Gt: "<", ast.LtE: ">=", ast.GtE: "<="}
    keep = {ast.Lt: "<", ast.Gt: ">", ast.LtE: "<=", ast.GtE: ">="}
    out = set()

    def visit(n):
        if isinstance(n, ast.BoolOp) and isinstance(n.op, ast.And):
            return all(visit(v) for v in n.values)
        if isinstance(n, ast.BinOp) and isinstance(n.op, ast.BitAnd):
            return visit(n.left) and visit(n.right)
        if isinstance(n, ast.Compare):
            terms = [n.left] + list(n.comparators)
            for l, op, r in zip(terms, n.ops, terms[1:]):
                if type(op) not in keep:
                    return False
                if isinstance(l, ast.Name) and isinstance(r, ast.Constant) and isinstance(r.value, (int, float)):
                    out.add((l.id, keep[type(op)], float(r.value)))
                elif isinstance(r, ast.Name) and isinstance(l, ast.Constant) and isinstance(l.value, (int, float)):
                    out.add((r.id, flip[type(op)], float(l.value)))
                else:
                    return False
            return True
        return False

    return out if visit(test) else None


def area_rules(prog, rep, R="R5"):
    """polygons.area is the signed shoelace area of the *closed* polygon and clockwise is its
    sign (also a premise of C11.R1: which way round the wall is stored)"""
    mod = prog.module(POLY)
    fa = mod.funcs.get("area")
    fc = mod.funcs.get("clockwise")
    if fa is None or fc is None:
        raise AnalysisError("polygons.area/clockwise not found")
    ctx = Context()
    ex = PolyEx(ctx, mod)
    summand = None
    for n in ast.walk(fa.node):
        if isinstance(n, ast.AugAssign) and isinstance(n.op, ast.Add):
            summand = ex.expr(n.value, {})
    r1, z1, r2, z2 = ctx.sym("r1"), ctx.sym("z1"), ctx.sym("r2"), ctx.sym("z2")
    ok = isinstance(summand, Rat) and (summand - (-(r1 * z2 - r2 * z1) + (r2 * z2 - r1 * z1))).is_zero()
    rep.ob(R, "area summand == -(shoelace term) + telescoping term", ok, fa.site(), summand.show() if isinstance(summand, Rat) else "not found", key="area/summand")
    # vertex pairing over the closed polygon: one term per vertex, (i, (i+1) mod n) or (i-1, i)
    ok, detail = _closed_pairing(mod, fa)
    rep.ob(R, "area pairs vertex i with vertex (i+1) mod n (closed polygon)", ok, fa.site(), detail, key="area/pairing")
    ret = [n for n in ast.walk(fa.node) if isinstance(n, ast.Return)]
    ok = False
    if ret:
        v = ex.expr(ret[0].value, {})
        ok = isinstance(v, Rat) and (v - ctx.sym("area") / 2).is_zero()
    rep.ob(R, "area returns half the accumulated sum", ok, fa.site(), "", key="area/half")
    ret = [n for n in ast.walk(fc.node) if isinstance(n, ast.Return)]
    ok = False
    less = as_less(ret[0].value) if ret else None
    if less and less[1]:
        small, _strict, big = less
        ok = mod.code(inline_temporaries(fc.node, big, inline_calls=True)) == "area(polygon)" and isinstance(small, ast.Constant) and small.value == 0 and not isinstance(small.value, bool)
    rep.ob(R, "clockwise(polygon) == (area(polygon) > 0)", ok, fc.site(), "", key="clockwise/def")


def _closed_pairing(mod, fa):
    """the accumulation loop runs over all n vertices and pairs each with its cyclic neighbour"""
    poly = fa.node.args.args[0].arg
    lens = {}
    for s in ast.walk(fa.node):
        if isinstance(s, ast.Assign) and isinstance(s.targets[0], ast.Name):
            t = mod.code(s.value)
            if t in ("len(%s)" % poly, "%s.shape[0]" % poly):
                lens[s.targets[0].id] = True
    def is_n(node):
        return (isinstance(node, ast.Name) and node.id in lens) or mod.code(node) in ("len(%s)" % poly, "%s.shape[0]" % poly)
    for loop in ast.walk(fa.node):
        if not (isinstance(loop, ast.For) and isinstance(loop.iter, ast.Call) and mod.code(loop.iter.func) in ("range", "enumerate")):
            continue
        subs = [mod.code(x.slice) for x in ast.walk(loop) if isinstance(x, ast.Subscript) and isinstance(x.value, ast.Name) and x.value.id == poly]
        if mod.code(loop.iter.func) == "range":
            if not isinstance(loop.target, ast.Name):
                continue
            if not (len(loop.iter.args) == 1 and is_n(loop.iter.args[0])):
                return False, "loop runs over %s, not over all vertices" % mod.code(loop.iter)
            i = loop.target.id
            current = any(i == a for a in subs)
        else:
            # for i, vertex in enumerate(polygon): the current vertex is the loop's own element
            if not (len(loop.iter.args) == 1 and mod.code(loop.iter.args[0]) == poly and isinstance(loop.target, ast.Tuple) and len(loop.target.elts) == 2
                    and isinstance(loop.target.elts[0], ast.Name)):
                return False, "loop runs over %s, not over all vertices" % mod.code(loop.iter)
            i = loop.target.elts[0].id
            current = True
        nn = [k for k in lens] + ["len(%s)" % poly]
        fwd = current and any(b in ["(%s+1)%%%s" % (i, n) for n in nn] for b in subs)
        bwd = current and any(b == "%s-1" % i for b in subs)
        return (fwd or bwd), "vertex subscripts %s" % sorted(set(subs))
    return False, "accumulation loop not found"


class CAEx(Extractor):
    """2-vectors as python tuples; numpy.sum(u*v) as dot product"""

    def on_name(self, name, env):
        raise AlgError("unbound " + name)

    def binop(self, op, a, b, node=None):
        if isinstance(a, tuple) or isinstance(b, tuple):
            if isinstance(a, tuple) and isinstance(b, tuple):
                return tuple(self.binop(op, x, y, node) for x, y in zip(a, b))
            if isinstance(a, tuple):
                return tuple(self.binop(op, x, b, node) for x in a)
            return tuple(self.binop(op, a, y, node) for y in b)
        return super().binop(op, a, b, node)

    def on_call(self, node, fname, args, kwargs, env):
        if fname in ("numpy.sum", "np.sum") and isinstance(args[0], tuple):
            r = self.ctx.const(0)
            for x in args[0]:
                r = r + x
            return r
        if fname in ("numpy.asarray", "np.asarray", "numpy.array"):
            return args[0]
        raise AlgError("call %s" % fname)

    def choose(self, test, env):
        t = self.text(test)
        for k, v in self.seeds.items():
            if key_in(k, t):
                return v
        return None


def r6(prog, rep):
    rep.rule("R6", "closest_approach: (p - a - t0*m).m == 0; distance to a when t0<0, to b when t0>1")
    fs = [f for f in prog.module(EQ).funcs.values() if f.name == "closest_approach" and f.cls is None and f.parent is None]
    if len(fs) != 1:
        raise AnalysisError("closest_approach not found")
    f = fs[0]
    results = {}
    for lab, seeds in (("inside", {"t0 < 0.0": False, "t0 > 1.0": False}), ("before", {"t0 < 0.0": True}), ("after", {"t0 < 0.0": False, "t0 > 1.0": True})):
        ctx = Context()
        ex = CAEx(ctx, f.module)
        ex.seeds = seeds
        p = (ctx.sym("pR"), ctx.sym("pZ"))
        a = (ctx.sym("aR"), ctx.sym("aZ"))
        b = (ctx.sym("bR"), ctx.sym("bZ"))
        env = {"point": p, "a": a, "b": b}
        try:
            ex.block(f.node.body, env)
            ret = None
        except ReturnValue as r:
            ret = r.value
        results[lab] = (ctx, ret, env, p, a, b)
    ctx, ret, env, p, a, b = results["inside"]
    t0, m = env.get("t0"), env.get("m")
    ok = isinstance(t0, Rat) and isinstance(m, tuple)
    if ok:
        foot = (a[0] + t0 * m[0], a[1] + t0 * m[1])
        perp = (p[0] - foot[0]) * m[0] + (p[1] - foot[1]) * m[1]
        rep.ob("R6", "foot of perpendicular: (p - a - t0 m).m == 0", perp.is_zero(), f.site(), "residual " + perp.residual(), key="ca/perp")
        rep.ob("R6", "m == b - a", (m[0] - (b[0] - a[0])).is_zero() and (m[1] - (b[1] - a[1])).is_zero(), f.site(), "", key="ca/m")
        d2 = (p[0] - foot[0]) ** 2 + (p[1] - foot[1]) ** 2
        rep.ob("R6", "inside: returns |p - foot|", isinstance(ret, Rat) and (ret * ret - d2).is_zero(), f.site(), "", key="ca/inside")
    else:
        rep.ob("R6", "closest_approach extractable", False, f.site(), "", key="ca/extract")
    for lab, end in (("before", "a"), ("after", "b")):
        ctx, ret, env, p, a, b = results[lab]
        e = a if end == "a" else b
        d2 = (p[0] - e[0]) ** 2 + (p[1] - e[1]) ** 2
        rep.ob("R6", "%s the segment: returns |p - %s|" % (lab, end), isinstance(ret, Rat) and (ret * ret - d2).is_zero(), f.site(), "", key="ca/" + lab)


def r7(prog, rep):
    """wallIntersection, read through its guarded effects (so that guard clauses, flipped arms
    and nested ifs are one shape): every condition on the way to a store or a raise is
    classified, then each outcome must stand under the right classification."""
    rep.rule("R7", "wallIntersection: >2 crossings raise; 2 within tolerance collapse to the first; 2 apart raise; none -> None")
    f = prog.module(EQ).funcs.get("Equilibrium.wallIntersection")
    if f is None:
        raise AnalysisError("Equilibrium.wallIntersection not found")
    mod = f.module
    from ..stores import effects

    def count_above(test):
        """k when the test says: more than k crossings; else None"""
        less = as_less(test)
        if not less:
            return None
        small, strict, big = less
        if mod.code(big) in (K("intersects.shape[0]"), K("len(intersects)")) and isinstance(small, ast.Constant) and type(small.value) is int:
            return small.value if strict else small.value - 1
        return None

    def near(test):
        """|dR| < tol and |dZ| < tol between the first and the second crossing"""
        if not (isinstance(test, ast.BoolOp) and isinstance(test.op, ast.And) and len(test.values) == 2):
            return False
        seen = set()
        for v in test.values:
            less = as_less(v)
            if not (less and less[1] and mod.code(less[2]) == "intersect_tolerance"):
                return False
            small = less[0]
            if not (isinstance(small, ast.Call) and mod.code(small.func) in ("numpy.abs", "abs") and len(small.args) == 1):
                return False
            d = mod.code(small.args[0])
            for c in "RZ":
                if d in (K("intersect.%s - second_intersect.%s" % (c, c)), K("second_intersect.%s - intersect.%s" % (c, c))):
                    seen.add(c)
        # a proximity test of the right form on the wrong quantities is a known (wrong) condition
        return True if seen == {"R", "Z"} else "bad"

    def classify(c):
        if isinstance(c, str):
            return "loop"
        neg = False
        while isinstance(c, ast.UnaryOp) and isinstance(c.op, ast.Not):
            neg, c = not neg, c.operand
        t = mod.code(c)
        if t == K("intersects is not None"):
            return "none" if neg else "some"
        if t == K("intersects is None"):
            return "some" if neg else "none"
        k = count_above(c)
        if k is not None:
            return ("le%d" if neg else "gt%d") % k
        nr = near(c)
        if nr == "bad":
            return "proximity-of-other-quantities"
        if nr:
            return "far" if neg else "near"
        return "?" + t[:40]

    effs = effects(f.node, calls=False, inline=False)
    raises = [frozenset(classify(c) for c in e.conds) for e in effs if e.kind == "raise"]
    stores = [(frozenset(classify(c) for c in e.conds), e) for e in effs if e.kind == "store" and isinstance(e.target, ast.Name) and e.target.id == "intersect"]
    known = lambda cs: not any(x.startswith("?") or x == "loop" for x in cs)
    detail = "raises under %s; stores under %s" % ([sorted(r) for r in raises], [(sorted(c), mod.code(e.value)[:40]) for c, e in stores])
    undecided = [sorted(r) for r in raises if not known(r)] + [sorted(c) for c, e in stores if not known(c)]
    und = ("not representable: condition(s) %s not understood; " % undecided) if undecided else ""
    ok_none = any(cs == {"none"} and isinstance(e.value, ast.Constant) and e.value.value is None for cs, e in stores)
    rep.ob("R7", "no crossing -> returns None", ok_none, f.site(), und + detail, key="wi/none")
    ok = any(r == {"some", "gt2"} for r in raises)
    rep.ob("R7", "more than two crossings raise", ok, f.site(), und + detail, key="wi/gt2")
    ok2 = any({"some", "le2", "gt1"} <= r for r in raises)
    rep.ob("R7", "two crossings are compared", ok2, f.site(), und + detail, key="wi/two")
    ok3 = any(r == {"some", "le2", "gt1", "far"} for r in raises) and len(raises) == 2
    rep.ob("R7", "two crossings farther apart than the tolerance (in R or Z) raise; otherwise the first is returned", ok3, f.site(), und + detail, key="wi/apart")
    first = any(cs == {"some"} and mod.code(e.value) == K("Point2D(*intersects[0, :])") for cs, e in stores) and len(stores) == 2
    rep.ob("R7", "the reported point is the first crossing (R, Z order)", first, f.site(), und + detail, key="wi/first")
    ret = [n for n in walk_own(f.node) if isinstance(n, ast.Return)]
    rep.ob("R7", "single return of the crossing", len(ret) == 1 and mod.text(ret[0].value) == "intersect", f.site(), "", key="wi/return")

