"""C07 curvature: curl(b/B) in R-Z and its projection on grad x, grad y, grad z (E3).

R1 the three local curl components equal the cylindrical curl of (B_R,B_Z,B_zeta)/B^2
   (axisymmetric), after inlining the equilibrium helper chain, per interpolation arm.
R2 projections: curl_x = curl.grad(psi); curl_y = curl.Gy with Gy the poloidal vector of
   the source; curl_z = curl_zeta/R - (Bt*hy/(Bp*R))*curl_y - I*curl_x.
R3 |Gy|^2 == 1/(hy*cosBeta)^2 == g22 of the metric method; Gy at beta=0 is (B_R,B_Z)/(Bp*hy).
R4 bxcv{x,y,z} == Bxy/2 * curl_bOverB_{x,y,z} in both curvature_type arms.
R5 x-y form: '#name' strings reference fields assigned earlier; non-orthogonal use refused.
Not decided: discretisation-level agreement of the two formulations; smoothing.
"""
import ast
import re

from ..alg import AlgError, Context, Rat
from ..extract import Extractor, Closure, Opaque, PathRaises, _dotted
from ..model import Program, walk_own, is_self_attr
from ..report import AnalysisError
from .. import locsets
from . import common
from ..model import key_in

MESH = common.MESH


class EqHandle:
    def __init__(self, model):
        self.model = model


class CurvEx(Extractor):
    def __init__(self, ctx, module, prog, seeds, option):
        super().__init__(ctx, module, max_depth=14)
        self.prog = prog
        self.seeds = seeds
        self.model = common.eq_model(prog, ctx, option)

    def choose(self, test, env):
        t = self.text(test)
        for key, val in self.seeds.items():
            if key_in(key, t):
                neg = isinstance(test, ast.UnaryOp) and isinstance(test.op, ast.Not)
                return (not val) if neg else val
        return super().choose(test, env)

    def on_attr(self, d, node, env):
        if d.endswith(".equilibrium"):
            return EqHandle(self.model)
        if ".equilibrium." in d and d.split(".equilibrium.")[1].isidentifier():
            m, nm = self.model, d.split(".equilibrium.")[1]
            return lambda *a, _n=nm: m.call(_n, a)
        return self.ctx.sym(d)

    def attr_of(self, value, attr, node, env):
        if isinstance(value, EqHandle):
            m = value.model
            return lambda *a, _n=attr: m.call(_n, a)
        return super().attr_of(value, attr, node, env)

    symbolic_curl = False
    continuum = False

    def call_closure(self, clo, args, kwargs):
        if self.symbolic_curl and getattr(clo, "name", None):
            for suffix, sym in (("Rhat", "CURL_R"), ("Zhat", "CURL_Z"), ("zetahat", "CURL_zeta")):
                if clo.name.endswith(suffix):
                    return self.ctx.sym(sym)
        return super().call_closure(clo, args, kwargs)

    def on_call(self, node, fname, args, kwargs, env):
        if fname in ("self.DDX", "self.DDY"):
            if self.continuum:
                return self.continuum_derivative(fname[5:], str(node.args[0].value), env)
            return self.ctx.call(fname[5:], self.ctx.sym("expr:" + str(node.args[0].value)))
        return common.equilibrium_call(self, node, fname, args, kwargs, env)

    def continuum_derivative(self, which, text, env):
        """the differential operator the difference stencil approximates, applied to a field
        expression given as functions of (R, Z):  DDX -> grad(psi).grad / |grad psi|^2 (x = psi,
        at fixed y on an orthogonal grid),  DDY -> hy * yhat.grad with yhat = (B_R, B_Z)/Bpxy"""
        ctx = self.ctx
        R, Z = ctx.sym("R"), ctx.sym("Z")
        tree = ast.parse(re.sub(r"#(\w+)", r"self.\1", text), mode="eval")
        val = self.expr(tree.body, env)
        if not isinstance(val, Rat):
            raise AlgError("field expression %r not representable" % text)
        for a in val.all_atoms():
            if a.name.startswith("self."):
                raise AlgError("field %s in %r is not a function of (R,Z) here" % (a.name, text))
        gR, gZ = val.diff("R"), val.diff("Z")
        pR, pZ = common.psi_partial(ctx, 1, 0, R, Z), common.psi_partial(ctx, 0, 1, R, Z)
        if which == "DDX":
            return (gR * pR + gZ * pZ) / (pR * pR + pZ * pZ)
        BR, BZ = self.model.call("Bp_R", (R, Z)), self.model.call("Bp_Z", (R, Z))
        return env["self.hy"] * (BR * gR + BZ * gZ) / env["self.Bpxy"]


def curvature_function(prog):
    return prog.unique_func_assigning(["curl_bOverB_x", "curl_bOverB_y", "curl_bOverB_z", "bxcvx"], MESH)


def run(rep, tier):
    prog = Program()
    common.set_prog(prog)
    f = curvature_function(prog)
    fg1 = prog.unique_func_assigning(["Brxy", "Bzxy", "Bpxy", "Btxy"], MESH)
    rep.analysed_add("files", [MESH, common.EQ])
    rep.analysed_add("functions", [f.site(), fg1.site()])
    rep.rule("R1", "curl components == cylindrical curl of B/B^2 (formal differentiation)")
    rep.rule("R2", "projections on grad x, grad y, grad z as stated")
    rep.rule("R3", "|grad y|^2 == 1/(hy cosBeta)^2 (== g22)")
    rep.rule("R4", "bxcv = Bxy/2 * curl")
    rep.rule("R5", "x-y form: referenced fields exist; refused when non-orthogonal")
    rep.trust("axisymmetry: d/dzeta = 0; cylindrical curl formula")
    # R0 premise: the derivative functions the curvature formula consumes (dBRdZ, dB2dZ, ...,
    # d2psi* of both interpolation arms, the DCT derivative summands) are formal derivatives
    rep.rule("R0", "premise: equilibrium derivative helpers and interpolant derivatives are formal derivatives (rule instances of C18.R1/R2/R4)")
    from ..report import Premise
    from . import c18
    pr = Premise(rep, "R0", "C18")
    c18.r1_r4(prog, pr)
    c18.r2(prog, pr)
    c18.r5(prog, pr)  # fpolprime == d fpol/d psi for every equilibrium class (enters dBzetadR/dZ)
    # the curvature is recomputed from the current point positions on every call of the geometry
    # phases (rule instances of C02.R9: no store guarded by a test of its own existence)
    from . import c02
    c02.memo_rule(prog, Premise(rep, "R0", "C02"))
    # the x-y formulation differentiates with DDX/DDY: they must be centred difference stencils
    # that reach into the right neighbour cells (rule instances of C06.R5)
    from . import c06
    pr6 = Premise(rep, "R0", "C06")
    for name, axis in (("DDX", "x"), ("DDY", "y")):
        c06.diff_stencils(pr6, prog.func(MESH, "MeshRegion." + name), axis)
    for option in ("spline", "dct"):
        for orth in (True, False):
            for psi_decr in (False, True):
                one_arm(prog, rep, f, fg1, option, orth, psi_decr)
    r5(prog, rep, f)
    r6(prog, rep, f, fg1)
    r7(prog, rep, f, fg1)
    rep.undecided("size of the discretisation error between the R-Z and x-y formulations; the z component of the x-y form (needs d(hy)/dx)")
    return __doc__


def one_arm(prog, rep, f, fg1, option, orth, psi_decr):
    label = "%s/%s/bpsign=%+d" % (option, "orthogonal" if orth else "non-orthogonal", -1 if psi_decr else 1)
    ctx = Context()
    common.declare_equilibrium(ctx)
    common._models.clear()
    env = common.eval_geometry1(prog, ctx, fg1, psi_decr, psi_decr)
    seeds = {'curvature_type == "curl(b/B) with x-y derivatives"': False, 'curvature_type == "curl(b/B)"': True, "orthogonal": orth}
    ex = CurvEx(ctx, f.module, prog, seeds, option)
    env["self.I"] = ctx.const(0)
    try:
        ex.block(f.node.body, env)
    except PathRaises as e:
        raise AnalysisError("curvature method raises on arm %s: %s" % (label, e))
    R, Z = ctx.sym("R"), ctx.sym("Z")
    m = ex.model
    BR, BZ, Bz, B2 = m.call("Bp_R", (R, Z)), m.call("Bp_Z", (R, Z)), m.call("Bzeta", (R, Z)), m.call("B2", (R, Z))
    AR, AZ, Az = BR / B2, BZ / B2, Bz / B2
    want = {
        "Rhat": -Az.diff("Z"),
        "Zhat": (R * Az).diff("R") / R,
        "zetahat": AR.diff("Z") - AZ.diff("R"),
    }
    site = f.site()
    comp = {}
    for k, w in want.items():
        clo = None
        for nm, v in env.items():
            if isinstance(v, Closure) and nm.lower().endswith(k.lower()):
                clo = v
        if clo is None:
            rep.ob("R1", "%s: local curl component *%s exists" % (label, k), False, site, "", key="%s/curl_%s/missing" % (label, k))
            continue
        v = ex.call_closure(clo, [R, Z], {})
        comp[k] = v
        d = v - w
        rep.ob("R1", "%s: curl(b/B)_%s == cylindrical curl component" % (label, k), d.is_zero(), site, "residual " + d.residual()[:200], key="%s/curl_%s" % (label, k))
    if len(comp) < 3:
        return
    hy, tb, cb = ctx.sym("self.hy"), ctx.sym("self.tanBeta"), ctx.sym("self.cosBeta")
    Bp = env["self.Bpxy"]
    Bt = env["self.Btxy"]
    Bxy = env["self.Bxy"]
    psiR, psiZ = common.psi_partial(ctx, 1, 0, R, Z), common.psi_partial(ctx, 0, 1, R, Z)
    cx, cy, cz = env.get("self.curl_bOverB_x"), env.get("self.curl_bOverB_y"), env.get("self.curl_bOverB_z")
    for nm, v in (("x", cx), ("y", cy), ("z", cz)):
        if not isinstance(v, Rat):
            rep.ob("R2", "%s: curl_bOverB_%s extractable" % (label, nm), False, site, str(v), key="%s/curl_%s/extract" % (label, nm))
            return
    wx = comp["Rhat"] * psiR + comp["Zhat"] * psiZ
    rep.ob("R2", "%s: curl_x == curl . grad(psi)" % label, (cx - wx).is_zero(), site, "residual " + (cx - wx).residual()[:200], key=label + "/curl_x")
    # grad y = (yhat + tanB * gradpsi_hat)/hy with beta positive when e_x leans towards -yhat
    # (the convention of the beta method, C02.R6/R10); in R-Z components, Bp signed:
    bsv = -1 if psi_decr else 1
    t = ctx.const(0) if orth else tb * bsv
    Gy = ((BR - BZ * t) / (Bp * hy), (BZ + BR * t) / (Bp * hy))
    wy = comp["Rhat"] * Gy[0] + comp["Zhat"] * Gy[1]
    rep.ob("R2", "%s: curl_y == curl . (B_R - bpsign B_Z tanB, B_Z + bpsign B_R tanB)/(Bp hy)" % label, (cy - wy).is_zero(), site, "residual " + (cy - wy).residual()[:200], key=label + "/curl_y")
    wz = comp["zetahat"] / R - Bt * hy / (Bp * R) * cy - env["self.I"] * cx
    rep.ob("R2", "%s: curl_z == curl_zeta/R - (Bt hy/(Bp R)) curl_y - I curl_x" % label, (cz - wz).is_zero(), site, "residual " + (cz - wz).residual()[:200], key=label + "/curl_z")
    # R3 magnitude of grad y
    g2 = Gy[0] ** 2 + Gy[1] ** 2
    if orth:
        d = g2 - 1 / hy ** 2
    else:
        ctx.add_relation(cb, 2, 1 / (1 + tb * tb), "tanBeta = sinBeta/cosBeta, cos^2+sin^2=1 (C02.R6)")
        d = g2 - 1 / (hy * cb) ** 2
    rep.ob("R3", "%s: |grad y|^2 == 1/(hy cosBeta)^2" % label, d.is_zero(), site, "residual " + d.residual()[:200], key=label + "/grady2")
    d0 = (Gy[0].subs({"self.tanBeta": 0}) - BR / (Bp * hy), Gy[1].subs({"self.tanBeta": 0}) - BZ / (Bp * hy))
    rep.ob("R3", "%s: grad y at beta=0 is (B_R,B_Z)/(Bp hy)" % label, d0[0].is_zero() and d0[1].is_zero(), site, "", key=label + "/grady0")
    # grad y is perpendicular to grad psi at beta = 0 (orthogonal coordinates)
    dot = (Gy[0] * psiR + Gy[1] * psiZ).subs({"self.tanBeta": 0})
    rep.ob("R3", "%s: grad y . grad psi == 0 at beta=0" % label, dot.is_zero(), site, "residual " + dot.residual()[:120], key=label + "/grady-perp")
    for nm, c in (("x", cx), ("y", cy), ("z", cz)):
        b = env.get("self.bxcv" + nm)
        ok = isinstance(b, Rat) and (b - Bxy / 2 * c).is_zero()
        rep.ob("R4", "%s: bxcv%s == Bxy/2 * curl_bOverB_%s" % (label, nm, nm), ok, site, "", key="%s/bxcv%s" % (label, nm))


def r6(prog, rep, f, fg1):
    """grad y used for the y-component is the dual basis vector: perpendicular to e_x (the
    radial displacement the beta method measures; grad psi when orthogonal) and grad y . e_y = 1"""
    from . import c02
    rep.rule("R6", "grad(y) of the R-Z formulation is dual to (e_x, e_y): grad(y).e_x == 0, grad(y).e_y == 1, for both signs of Bp")
    for orth in (True, False):
        for psi_decr in (False, True):
            bsv = -1 if psi_decr else 1
            label = "%s/bpsign=%+d" % ("orthogonal" if orth else "non-orthogonal", bsv)
            ctx = Context()
            common.declare_equilibrium(ctx)
            common._models.clear()
            env = common.eval_geometry1(prog, ctx, fg1, psi_decr, psi_decr)
            seeds = {'curvature_type == "curl(b/B) with x-y derivatives"': False, 'curvature_type == "curl(b/B)"': True, "orthogonal": orth}
            ex = CurvEx(ctx, f.module, prog, seeds, "spline")
            ex.symbolic_curl = True
            env["self.I"] = ctx.const(0)
            env["self.hy"] = ctx.sym("self.hy")
            R, Z = ctx.sym("R"), ctx.sym("Z")
            pR, pZ = common.psi_partial(ctx, 1, 0, R, Z), common.psi_partial(ctx, 0, 1, R, Z)
            dxR, dxZ = ctx.sym("dxR"), ctx.sym("dxZ")
            if not orth:
                c, sn, fb = c02.beta_expressions(prog, ctx, "centre")
                # the beta method's f_R, f_Z point along grad psi (C04.R1): only their direction enters
                sub_f = {"f_R": pR, "f_Z": pZ, "self.bpsign": bsv}
                env["self.tanBeta"] = (sn / c).subs(sub_f)
                env["self.cosBeta"] = c.subs(sub_f)
            try:
                ex.block(f.node.body, env)
            except (PathRaises, AlgError) as e:
                rep.ob("R6", "%s: arm extractable" % label, False, f.site(), str(e), key="dual/%s/extract" % label)
                continue
            cy = env.get("self.curl_bOverB_y")
            if not isinstance(cy, Rat):
                rep.ob("R6", "%s: curl_bOverB_y extractable" % label, False, f.site(), str(cy), key="dual/%s/extract" % label)
                continue
            names_in_cy = {a.name for a in cy.atoms()} if hasattr(cy, "atoms") else set()
            if not ({"CURL_R", "CURL_Z"} & names_in_cy):
                # the rule reads grad(y) off as the coefficients of the (symbolic) cylindrical curl
                # components in curl_bOverB_y; if the code does not route them through the three
                # local component functions the coefficients cannot be identified
                rep.ob("R6", "%s: curl_bOverB_y extractable" % label, False, f.site(), "not extractable: the cylindrical curl components are not identified in curl_bOverB_y (unmodelled spelling)", key="dual/%s/extract" % label)
                continue
            Gy = (cy.diff("CURL_R"), cy.diff("CURL_Z"))
            m = ex.model
            BR, BZ = m.call("Bp_R", (R, Z)), m.call("Bp_Z", (R, Z))
            Bp, hy = env["self.Bpxy"], env["self.hy"]
            if orth:
                perp = Gy[0] * pR + Gy[1] * pZ
                what = "grad psi"
            else:
                perp = Gy[0] * dxR + Gy[1] * dxZ
                what = "the radial displacement (e_x)"
            rep.ob("R6", "%s: grad(y) . %s == 0" % (label, what), perp.is_zero(), f.site(), "residual " + perp.residual()[:200], key="dual/%s/perp" % label)
            one = (Gy[0] * BR + Gy[1] * BZ) * hy / Bp - 1
            rep.ob("R6", "%s: grad(y) . e_y == 1 (e_y = hy*(B_R,B_Z)/Bpxy)" % label, one.is_zero(), f.site(), "residual " + one.residual()[:200], key="dual/%s/unit" % label)


def r7(prog, rep, f, fg1):
    """the x-y formulation equals the R-Z formulation when its difference stencils are replaced
    by the derivatives they approximate (x and y components; z needs d(hy)/dx, a grid quantity)"""
    rep.rule("R7", "x-y formulation == R-Z formulation in the continuum limit of DDX/DDY (x and y components), for both signs of Bp")
    for psi_decr in (False, True):
        bsv = -1 if psi_decr else 1
        vals = {}
        ctx = Context()
        common.declare_equilibrium(ctx)
        common._models.clear()
        for which in ("rz", "xy"):
            env = common.eval_geometry1(prog, ctx, fg1, psi_decr, psi_decr)
            env["self.I"] = ctx.const(0)
            env["self.hy"] = ctx.sym("self.hy")
            seeds = {'curvature_type == "curl(b/B) with x-y derivatives"': which == "xy", 'curvature_type == "curl(b/B)"': which == "rz", "orthogonal": True}
            ex = CurvEx(ctx, f.module, prog, seeds, "spline")
            ex.continuum = True
            env_run = dict(env)
            if which == "xy":
                # only the x and y components are compared: stop before the z component (it differentiates hy)
                for s in f.node.body:
                    pass
            try:
                _run_until(ex, f.node.body, env_run, ("self.curl_bOverB_x", "self.curl_bOverB_y"))
            except (PathRaises, AlgError) as e:
                rep.ob("R7", "bpsign=%+d: %s formulation extractable" % (bsv, which), False, f.site(), str(e)[:200], key="xy-rz/%+d/%s/extract" % (bsv, which))
                break
            vals[which] = env_run
        if len(vals) < 2:
            continue
        for comp in ("x", "y"):
            a, b = vals["xy"].get("self.curl_bOverB_" + comp), vals["rz"].get("self.curl_bOverB_" + comp)
            ok = isinstance(a, Rat) and isinstance(b, Rat) and (a - b).is_zero()
            detail = ""
            if isinstance(a, Rat) and isinstance(b, Rat) and not ok:
                detail = "x-y form == -(R-Z form)" if (a + b).is_zero() else "difference " + (a - b).residual()[:160]
            rep.ob("R7", "bpsign=%+d: curl_bOverB_%s of the x-y formulation == that of the R-Z formulation (continuum limit)" % (bsv, comp), ok, f.site(), detail, key="xy-rz/%+d/%s" % (bsv, comp))


def _run_until(ex, stmts, env, names):
    """run the curvature method body, stopping inside the selected arm as soon as all of
    `names` are assigned (later statements may not be representable)"""
    class _Done(Exception):
        pass
    orig = ex.stmt

    def stmt(s, e):
        orig(s, e)
        if all(n in e and isinstance(e[n], Rat) for n in names) and isinstance(s, ast.Assign):
            env.update(e)
            raise _Done()
    ex.stmt = stmt
    try:
        ex.block(stmts, env)
    except _Done:
        pass
    finally:
        ex.stmt = orig


def r5(prog, rep, f):
    # x-y arm
    ctx = Context()
    common._models.clear()
    seeds = {'curvature_type == "curl(b/B) with x-y derivatives"': True, "orthogonal": True}
    ex = CurvEx(ctx, f.module, prog, seeds, "spline")
    env = {"self.I": ctx.const(0)}
    ex.block(f.node.body, env)
    for nm in "xyz":
        c, b = env.get("self.curl_bOverB_" + nm), env.get("self.bxcv" + nm)
        ok = isinstance(c, Rat) and isinstance(b, Rat) and (b - ctx.sym("self.Bxy") / 2 * c).is_zero()
        rep.ob("R4", "x-y form: bxcv%s == Bxy/2 * curl_bOverB_%s" % (nm, nm), ok, f.site(), "", key="xy/bxcv" + nm)
    # refused when non-orthogonal
    seeds2 = {'curvature_type == "curl(b/B) with x-y derivatives"': True, "orthogonal": False}
    ex2 = CurvEx(Context(), f.module, prog, seeds2, "spline")
    refused = False
    try:
        ex2.block(f.node.body, {"self.I": ex2.ctx.const(0)})
    except PathRaises:
        refused = True
    rep.ob("R5", "x-y form on a non-orthogonal grid is refused (raise)", refused, f.site(), "", key="xy/refuse-nonorth")
    # referenced names exist as fields at that phase
    it, st, order = locsets.infer(prog, "orthogonal/xy-curvature")
    n = 0
    for node in walk_own(f.node):
        if isinstance(node, ast.Call) and _dotted(node.func) in ("self.DDX", "self.DDY") and node.args and isinstance(node.args[0], ast.Constant):
            for nm in re.findall(r"#(\w+)", node.args[0].value):
                n += 1
                rep.ob("R5", "%s(%r): field %s is assigned before the curvature phase" % (_dotted(node.func)[5:], node.args[0].value, nm),
                       ("self." + nm) in st["data"], f.site(node), "", key="xy/ref/" + nm + "@" + node.args[0].value)
    rep.floor("R5.refs", n, 6)
    # unknown curvature types raise
    seeds3 = {'curvature_type == "curl(b/B) with x-y derivatives"': False, 'curvature_type == "curl(b/B)"': False}
    ex3 = CurvEx(Context(), f.module, prog, seeds3, "spline")
    ex3.seeds['curvature_type == "bxkappa"'] = False
    raised = False
    try:
        ex3.block(f.node.body, {})
    except PathRaises:
        raised = True
    rep.ob("R5", "unrecognised curvature_type raises", raised, f.site(), "", key="curvtype/else-raises")
