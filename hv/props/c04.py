"""C04 orthogonal grids follow grad(psi) (direction field and pairing structure).

R1 direction field: the right-hand side integrated by the perpendicular follower is
   (f_R, f_Z) of the equilibrium, with psi as the independent variable from psi0 to the
   target values (t_eval), starting at the given point; and f.grad(psi) == 1,
   f x grad(psi) == 0 for every Equilibrium implementation (spline, dct, circular), so psi
   along the curve equals the requested values and the curve is an integral curve of grad psi.
R2 reversal pairing and partition in the follower's recursive calls.
R3 one start point per poloidal index; results kept in index order.
Not decided: integration tolerance; behaviour next to X-points; recover=True.
"""
import ast

from ..alg import AlgError, Context, Rat
from ..classex import ClassEx
from ..model import Program, walk_own
from ..report import AnalysisError
from . import common
from ..model import canon as K, inline_temporaries

MESH = common.MESH


def T(mod, n):
    return mod.code(n)


def run(rep, tier):
    prog = Program()
    common.set_prog(prog)
    rep.analysed_add("files", [MESH, common.EQ, "hypnotoad/cases/circular.py"])
    rep.rule("R1", "direction field is grad(psi)/|grad psi|^2, integrated in psi to the target values")
    rep.rule("R2", "reversal pairing and exact partition in recursive calls")
    rep.rule("R3", "index pairing of start points and results")
    f = prog.func(MESH, "followPerpendicular")
    mod = f.module
    rep.analysed_add("functions", [f.site()])
    # the follower gets f_R, f_Z from the map that runs it: in the serial arm and in a worker
    # process they must be the equilibrium's own functions (rule instances of C13.R2)
    rep.rule("R0", "premise: the parallel map hands the equilibrium's own psi, f_R, f_Z to the mapped function in both arms (C13.R2)")
    from ..report import Premise
    from . import c13
    pm = prog.module(c13.PM)
    c13.r2(Premise(rep, "R0", "C13"), pm, pm.funcs.get("ParallelMap.__call__"), pm.funcs.get("ParallelMap.worker_run"), pm.funcs.get("ParallelMap.__init__"))
    # the followed points are then refined: the integrating refinement moves a point along grad psi
    # (it stays on its perpendicular); the Newton stage after it moves along the contour and must
    # only see points the integration has placed (rule instances of C01.R1)
    rep.rule("R4", "premise: refinement returns a point as converged only by the magnitude of its residual; the integrating method always returns the integrated position (C01.R1)")
    from . import c01
    c01.tolerance_tests(prog, Premise(rep, "R4", "C01"))
    # R1a: the ODE right-hand side
    inner = [n for n in ast.walk(f.node) if isinstance(n, ast.FunctionDef) and n.name == "f"]
    ok = False
    if inner:
        rets = [r for r in ast.walk(inner[0]) if isinstance(r, ast.Return)]
        ok = len(rets) == 1 and T(mod, inline_temporaries(inner[0], rets[0].value)) == K("(f_R(x[0],x[1]),f_Z(x[0],x[1]))") and [a.arg for a in inner[0].args.args] == ["psi", "x"]
    rep.ob("R1", "ODE right-hand side is (f_R(R,Z), f_Z(R,Z)) with psi as the independent variable", ok, f.site(inner[0]) if inner else f.site(), "", key="ode/rhs")
    calls = [n for n in walk_own(f.node) if isinstance(n, ast.Call) and T(mod, n.func) == "solve_ivp"]
    ok = False
    if len(calls) == 1:
        c = calls[0]
        a = [T(mod, x) for x in c.args]
        kw = {k.arg: T(mod, k.value) for k in c.keywords}
        ok = a == ["f", "psirange", K("tuple(p0)")] and kw.get("t_eval") == "psivals" and kw.get("rtol") == "rtol" and kw.get("atol") == "atol"
    rep.ob("R1", "integration starts at the given point, runs over psirange and reports the solution at the target psi values", ok, f.site(), "", key="ode/call")
    ok = any(isinstance(s, ast.Assign) and T(mod, s) == K("psirange=(psi0,psivals[-1])") for s in walk_own(f.node))
    rep.ob("R1", "psirange = (psi0, last target)", ok, f.site(), "", key="ode/range")
    rets = [r for r in walk_own(f.node) if isinstance(r, ast.Return)]
    # the i-th returned point is Point2D(y[0][i], y[1][i]) of the solution reported at the i-th target
    # (solution.y has one row per coordinate and one column per requested psi value), however the
    # columns are walked: over y.T, over zip of the two rows, by index
    from ..elements import element, NoElement
    import re as _re
    X = r"([A-Za-z_][\w.]*)"
    def columns(t):
        t = _re.sub(r"\*<" + X + r"\.T\[i\]>", r"<\1[0][i]>,<\1[1][i]>", t)
        t = _re.sub(r"\*" + X + r"\[:,<i>\]", r"<\1[0][i]>,<\1[1][i]>", t)
        t = _re.sub(r"<" + X + r"\.T\[i\]>\[(\d)\]", r"<\1[\2][i]>", t)
        t = _re.sub(X + r"\[(\d),<i>\]", r"<\1[\2][i]>", t)
        t = _re.sub(X + r"\[(\d)\]\[<i>\]", r"<\1[\2][i]>", t)
        return t
    ok, seen, opaque = False, [], []
    for r in rets:
        if "solution" not in T(mod, inline_temporaries(f.node, r.value)):
            continue  # the recursive calls for target lists on both sides of the start point
        try:
            el = element(f.node, inline_temporaries(f.node, r.value), {})
        except NoElement as e:
            opaque.append("element of %s (%s)" % (T(mod, r.value)[:60], e))
            continue
        if isinstance(el, str):
            seen.append(columns(el))
            if columns(el) == "Point2D(<solution.y[0][i]>,<solution.y[1][i]>)":
                ok = True
    detail = "i-th element: %s" % seen if ok else ("definite: the i-th returned point is %s, not Point2D(y[0][i], y[1][i])" % seen) if seen else \
        ("not representable: %s" % opaque) if opaque else "no return built from the solution"
    rep.ob("R1", "the result is the list of solution points, one per target value", ok, f.site(), detail, key="ode/result")
    # the f_R, f_Z passed in are the equilibrium's
    init = prog.func(MESH, "MeshRegion.__init__")
    pm = [n for n in ast.walk(init.node) if isinstance(n, ast.Call) and T(mod, n.func) in ("followPerpendicular",)]
    ok = all({k.arg: T(mod, k.value) for k in c.keywords}.get("f_R") == "self.meshParent.equilibrium.f_R" and {k.arg: T(mod, k.value) for k in c.keywords}.get("f_Z") == "self.meshParent.equilibrium.f_Z" for c in pm) and len(pm) == 2
    rep.ob("R1", "direct calls pass the equilibrium's f_R, f_Z (mapped calls receive them from ParallelMap, C13.R2)", ok, init.site(), "", key="ode/fields")
    # R1b: f . grad psi == 1, f x grad psi == 0
    for option in ("spline", "dct"):
        ctx = Context()
        common.declare_equilibrium(ctx)
        common._models.clear()
        m = common.EqModel(prog, ctx, option)
        R, Z = ctx.sym("R"), ctx.sym("Z")
        fR, fZ = m.call("f_R", (R, Z)), m.call("f_Z", (R, Z))
        pR, pZ = common.psi_partial(ctx, 1, 0, R, Z), common.psi_partial(ctx, 0, 1, R, Z)
        rep.ob("R1", "%s: f . grad(psi) == 1 (d psi/d psi along the curve)" % option, (fR * pR + fZ * pZ - 1).is_zero(), m.builder.site(), "", key="field/%s/dot" % option)
        rep.ob("R1", "%s: f x grad(psi) == 0 (the curve follows grad psi)" % option, (fR * pZ - fZ * pR).is_zero(), m.builder.site(), "", key="field/%s/cross" % option)
    # R1c: the clamp applied to (R,Z) before differentiating is the identity on the tabulated box
    sites = common.clip_bound_sites(m.builder)
    for c, fname, ok, detail in sites:
        rep.ob("R1", "%s: clamp bound of `%s` is the min/max of the grid axis that coordinate runs along" % (fname, T(m.builder.module, c.args[0]) if c.args else "?"), ok,
               m.builder.site(c), detail, key="clip/%s/%s" % (fname, T(m.builder.module, c.args[0]) if c.args else "?"))
    rep.floor("R1.clip-sites", len(sites), 4)
    ctx = Context()
    opaque = {"psi_r": ("dpsidr_r",), "dpsidr_r": ("d2psidr2_r",), "d2psidr2_r": (None,)}
    ex = ClassEx(prog, ctx, "CircularEquilibrium", opaque=opaque)
    R, Z = ctx.sym("R"), ctx.sym("Z")
    try:
        psi = ex.call_method("psi", [R, Z])
        fR, fZ = ex.call_method("f_R", [R, Z]), ex.call_method("f_Z", [R, Z])
        pR, pZ = psi.diff("R"), psi.diff("Z")
        rep.ob("R1", "circular: f . grad(psi) == 1", (fR * pR + fZ * pZ - 1).is_zero(), "hypnotoad/cases/circular.py", "", key="field/circular/dot")
        rep.ob("R1", "circular: f x grad(psi) == 0", (fR * pZ - fZ * pR).is_zero(), "hypnotoad/cases/circular.py", "", key="field/circular/cross")
    except AlgError as e:
        rep.error("R1", "circular f_R/f_Z not representable: %s" % e)
    rep.undecided("TORPEX f_R/f_Z are generated with sympy at run time: not extractable")
    # R2 reversal pairing
    rec = [n for n in walk_own(f.node) if isinstance(n, ast.Call) and isinstance(n.func, ast.Name) and n.func.id == "followPerpendicular"]
    parents = {}
    for n in ast.walk(f.node):
        for ch in ast.iter_child_nodes(n):
            parents[ch] = n
    nrev = 0
    for c in rec:
        pv = {k.arg: T(mod, k.value) for k in c.keywords}.get("psivals", "")
        reversed_arg = pv.endswith(K("[::-1]"))
        p = parents.get(c)
        reversed_res = isinstance(p, ast.Subscript) and T(mod, p.slice) == K("::-1")
        if pv == "new_psivals":
            continue
        nrev += reversed_arg
        rep.ob("R2", "recursive call with targets `%s`: the result is %sreversed" % (pv, "" if reversed_arg else "not "), reversed_arg == reversed_res, f.site(c), "", key="pairing/" + pv)
    rep.floor("R2.reversed-calls", nrev, 2)
    # every recursive call hands on every configuration parameter: one that is left out falls
    # back to its default, so part of the line would be followed with other settings than asked
    a = f.node.args
    pos = [x.arg for x in a.args]
    defaults = {x.arg for x in a.args[len(a.args) - len(a.defaults):]} | {x.arg for x, d in zip(a.kwonlyargs, a.kw_defaults) if d is not None}
    required = [x.arg for x, d in zip(a.kwonlyargs, a.kw_defaults) if d is None]
    config = [p_ for p_ in pos[3:] + [x.arg for x in a.kwonlyargs] if p_ not in ("psivals",)]
    for c in rec:
        given = {k.arg: k.value for k in c.keywords if k.arg}
        for i_, v in enumerate(c.args):
            if i_ < len(pos):
                given[pos[i_]] = v
        missing = [p_ for p_ in config if p_ not in given]
        changed = [p_ for p_ in config if p_ in given and T(mod, given[p_]) != p_]
        rep.ob("R2", "recursive call at line %d forwards every configuration parameter unchanged (%s)" % (c.lineno, ", ".join(config)), not missing and not changed, f.site(c),
               ("not passed: %s (falls back to the default) " % missing if missing else "") + ("changed: %s" % changed if changed else ""), key="forward/%d" % rec.index(c))
    rep.floor("R2.recursive-calls", len(rec), 3)
    src = T(mod, f.node)
    ok = (K("left = [psi for psi in psivals if psi < psi0]") in src and K("right = [psi for psi in psivals if psi >= psi0]") in src
          and K("left = [psi for psi in psivals if psi >= psi0]") in src and K("right = [psi for psi in psivals if psi < psi0]") in src and K("ifpsivals[0]<psi0:") in src)
    rep.ob("R2", "the split around psi0 is a partition (< versus >=), assigned to left/right by the side psivals starts on", ok, f.site(), "", key="partition")
    ok = K("ifmin(psivals)<psi0<max(psivals):") in src
    rep.ob("R2", "the split is taken only when psi0 lies strictly inside the target range", ok, f.site(), "", key="partition/guard")
    ok = K("ifabs(psivals[-1]-psi0)<abs(psivals[0]-psi0):") in src
    rep.ob("R2", "targets are reversed when their end is closer to psi0 than their start", ok, f.site(), "", key="pairing/closer-end")
    # the concatenation order: reversed left part first, then right part
    cat = [n for n in walk_own(f.node) if isinstance(n, ast.Return) and isinstance(n.value, ast.BinOp) and isinstance(n.value.op, ast.Add)]
    ok = len(cat) == 1 and K("psivals=left[::-1]") in T(mod, cat[0].value.left) and K("psivals=right") in T(mod, cat[0].value.right)
    rep.ob("R2", "the two halves are joined as reversed(left-from-psi0) + right-from-psi0, i.e. in the order of psivals", ok, f.site(), "", key="partition/join")
    ok = any(isinstance(s, ast.Assign) and T(mod, s) == K("psivals=psivals.copy()") for s in walk_own(f.node))
    rep.ob("R2", "the caller's target array is copied before the rounding fix-up modifies it", ok, f.site(), "", key="targets/copy")
    # R3 results kept in index order (C01.R4 checks the start-point zip)
    ok = K("perp_points_list=self.parallel_map(followPerpendicular,") in T(mod, init.node)
    rep.ob("R3", "one follower call per start point; the results list is indexed like the start points (order guaranteed by C13.R1)", ok, init.site(), "", key="index/map")
    ok = K("forperp_pointsinperp_points_list[1:]:fori,pointinenumerate(perp_points):self.contours[i].append(point)") in T(mod, init.node)
    rep.ob("R3", "points of one perpendicular go to successive contours at the same poloidal position", ok, init.site(), "", key="index/append")
    rep.undecided("integration tolerance, X-point neighbourhoods, recover=True grids")
    return __doc__
