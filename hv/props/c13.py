"""C13 parallel execution is observationally equivalent to serial execution (protocol shape).

R1 index discipline: tasks are enqueued with their enumerate index, the worker echoes the
   index it received, the parent stores each result at the received index; the result list
   has one slot per task.
R2 call-shape agreement between the serial arm and the worker.
R3 results are consumed at every call site; functions mapped over contours return the
   object they modify.
R4 failure path: the task call in the worker is inside a handler that reports to the
   result queue; the parent raises on such a report; the parent's wait is not an unbounded
   blocking get (timeout + worker liveness check).
R5 snapshot freshness: equilibrium attributes read by mapped functions are not reassigned
   after the ParallelMap is constructed.
Not decided: OS scheduling, pickling fidelity, performance.
"""
import ast

from ..model import strip_comments, Program, walk_own, is_self_attr, dotted
from ..report import AnalysisError
from ..model import canon as K

PM = "hypnotoad/utils/parallel_map.py"
MESH = "hypnotoad/core/mesh.py"


def run(rep, tier):
    prog = Program()
    mod = prog.module(PM)
    rep.analysed_add("files", [PM, MESH])
    call = mod.funcs.get("ParallelMap.__call__")
    worker = mod.funcs.get("ParallelMap.worker_run")
    init = mod.funcs.get("ParallelMap.__init__")
    if not (call and worker and init):
        raise AnalysisError("ParallelMap methods not found")
    rep.analysed_add("functions", [call.site(), worker.site(), init.site()])
    rep.rule("R1", "index discipline through both queues")
    rep.rule("R2", "serial and worker call shapes agree")
    rep.rule("R3", "results consumed; mapped functions return what they modify")
    rep.rule("R4", "failure path and bounded wait")
    rep.rule("R5", "snapshot freshness")
    r1(rep, mod, call, worker)
    r2(rep, mod, call, worker, init)
    r3(rep, prog)
    r4(rep, mod, call, worker)
    r5(rep, prog)
    rep.undecided("scheduling and completion order of processes (neutralised structurally by R1)")
    return __doc__


def T(mod, node):
    return mod.code(node)


def r1(rep, mod, call, worker):
    # parent: for i, args in enumerate(args_list): self.task_queue.put((i, function, args, kwargs))
    puts = [n for n in walk_own(call.node) if isinstance(n, ast.Call) and isinstance(n.func, ast.Attribute) and n.func.attr == "put" and "task_queue" in T(mod, n.func.value)]
    ok = False
    put_shape = None
    for p in puts:
        loop = _enclosing(call.node, p, ast.For)
        if loop is not None and isinstance(loop.iter, ast.Call) and dotted(loop.iter.func) == "enumerate" and isinstance(loop.target, ast.Tuple):
            idx = loop.target.elts[0].id
            item = loop.target.elts[1].id
            tup = p.args[0]
            if isinstance(tup, ast.Tuple) and isinstance(tup.elts[0], ast.Name) and tup.elts[0].id == idx:
                put_shape = [T(mod, e) for e in tup.elts]
                ok = item in put_shape and put_shape.index(item) == 2 and T(mod, loop.iter.args[0]) == "args_list"
    rep.ob("R1", "every task is enqueued with its enumerate index as first tuple element", ok and len(puts) == 1, call.site(puts[0]) if puts else call.site(), str(put_shape), key="index/enqueue")
    # worker: i, function, args, kwargs = task_queue.get(); result_queue.put((i, result))
    gets = [n for n in walk_own(worker.node) if isinstance(n, ast.Assign) and isinstance(n.value, ast.Call) and isinstance(n.value.func, ast.Attribute)
            and n.value.func.attr == "get" and "task_queue" in T(mod, n.value.func.value)]
    okw = False
    names = None
    if len(gets) == 1 and isinstance(gets[0].targets[0], ast.Tuple):
        names = [e.id for e in gets[0].targets[0].elts]
        okw = put_shape is not None and len(names) == len(put_shape)
    rep.ob("R1", "the worker unpacks tasks with the same tuple shape as they were enqueued", okw, worker.site(gets[0]) if gets else worker.site(), "get: %s put: %s" % (names, put_shape), key="index/unpack")
    wputs = [n for n in walk_own(worker.node) if isinstance(n, ast.Call) and isinstance(n.func, ast.Attribute) and n.func.attr == "put" and "result_queue" in T(mod, n.func.value)]
    oke = False
    if names and wputs:
        oke = True
        for wp in wputs:
            tup = wp.args[0]
            if not (isinstance(tup, ast.Tuple) and len(tup.elts) == 2 and isinstance(tup.elts[0], ast.Name) and tup.elts[0].id == names[0]):
                oke = False
        # index name not reassigned in the loop body
        for n in walk_own(worker.node):
            if isinstance(n, (ast.Assign, ast.AugAssign)) and n is not gets[0]:
                for t in (n.targets if isinstance(n, ast.Assign) else [n.target]):
                    for x in ast.walk(t):
                        if isinstance(x, ast.Name) and x.id == names[0]:
                            oke = False
    rep.ob("R1", "the worker returns the index it received, unchanged, with the result", oke, worker.site(wputs[0]) if wputs else worker.site(), "", key="index/echo")
    # the function called is the one received
    calls = [n for n in walk_own(worker.node) if isinstance(n, ast.Call) and isinstance(n.func, ast.Name) and names and n.func.id == names[1]]
    okf = len(calls) == 1 and any(isinstance(a, ast.Starred) and isinstance(a.value, ast.Name) and a.value.id == names[2] for a in calls[0].args) \
        and [k.value.id for k in calls[0].keywords if k.arg is None and isinstance(k.value, ast.Name)][-1:] == [names[3]]
    rep.ob("R1", "the worker calls the received function with the received args and kwargs", okf, worker.site(), "", key="index/call")
    # parent: i, this_result = self.result_queue.get(...); result[i] = this_result
    pg = [n for n in walk_own(call.node) if isinstance(n, ast.Assign) and isinstance(n.value, ast.Call) and isinstance(n.value.func, ast.Attribute)
          and n.value.func.attr == "get" and "result_queue" in T(mod, n.value.func.value)]
    oks = False
    if len(pg) == 1 and isinstance(pg[0].targets[0], ast.Tuple) and len(pg[0].targets[0].elts) == 2:
        ri, rv = [e.id for e in pg[0].targets[0].elts]
        stores = [n for n in walk_own(call.node) if isinstance(n, ast.Assign) and isinstance(n.targets[0], ast.Subscript) and isinstance(n.targets[0].value, ast.Name)
                  and n.targets[0].value.id == "result"]
        oks = len(stores) == 1 and T(mod, stores[0].targets[0].slice) == ri and T(mod, stores[0].value) == rv
    rep.ob("R1", "the parent stores each result at the index received with it (not at the loop counter)", oks, call.site(pg[0]) if pg else call.site(), "", key="index/store")
    # sizes
    src = [T(mod, s) for s in call.node.body]
    okn = K("args_list = tuple(args_list)") in src and K("n_tasks = len(args_list)") in src and K("result = [None for i in range(n_tasks)]") in src
    loops = [n for n in walk_own(call.node) if isinstance(n, ast.For) and T(mod, n.iter) == K("range(n_tasks)")]
    rep.ob("R1", "one result slot and one receive per task", okn and len(loops) == 1, call.site(), "", key="index/count")
    rets = [n for n in walk_own(call.node) if isinstance(n, ast.Return)]
    rep.ob("R1", "the assembled list is what is returned", any(T(mod, r.value) == "result" for r in rets if r.value is not None), call.site(), "", key="index/return")


def _enclosing(root, node, kind):
    best = None
    for n in ast.walk(root):
        if isinstance(n, kind):
            for ch in ast.walk(n):
                if ch is node:
                    best = n
    return best


def _expanded_keywords(mod, fnode, c):
    """(explicit keywords {name: value text}, remaining **-spread names) of a call, with a spread
    `**d` of a local that is bound once to a dict display with literal keys written out as the
    keywords it stands for (`common = {"psi": psi, ...}; f(*a, **common, **kw)`)"""
    from ..model import single_def, inline_temporaries
    kw, spread = {}, []
    for k in c.keywords:
        if k.arg is not None:
            kw[k.arg] = T(mod, inline_temporaries(fnode, k.value))
            continue
        d = single_def(fnode, k.value.id) if isinstance(k.value, ast.Name) else None
        mutated = isinstance(k.value, ast.Name) and any(
            (isinstance(n, ast.Call) and isinstance(n.func, ast.Attribute) and isinstance(n.func.value, ast.Name) and n.func.value.id == k.value.id and n.func.attr in ("update", "pop", "setdefault", "clear", "popitem"))
            or (isinstance(n, (ast.Assign, ast.AugAssign, ast.Delete)) and any(isinstance(x, ast.Subscript) and isinstance(x.value, ast.Name) and x.value.id == k.value.id and isinstance(x.ctx, (ast.Store, ast.Del)) for x in ast.walk(n)))
            for n in ast.walk(fnode))
        if isinstance(d, ast.Dict) and not mutated and all(isinstance(kk, ast.Constant) and isinstance(kk.value, str) for kk in d.keys):
            for kk, vv in zip(d.keys, d.values):
                kw[kk.value] = T(mod, inline_temporaries(fnode, vv))
        else:
            spread.append(T(mod, k.value))
    return kw, spread


def _call_shape(mod, c, fnode=None):
    if fnode is not None:
        kw, spread = _expanded_keywords(mod, fnode, c)
    else:
        kw, spread = {k.arg: T(mod, k.value) for k in c.keywords if k.arg}, [T(mod, k.value) for k in c.keywords if k.arg is None]
    return {
        "starred": [T(mod, a.value) for a in c.args if isinstance(a, ast.Starred)],
        "positional": [T(mod, a) for a in c.args if not isinstance(a, ast.Starred)],
        "keywords": sorted(kw),
        "kwstar": spread,
    }


def r2(rep, mod, call, worker, init):
    sc = [n for n in ast.walk(call.node) if isinstance(n, ast.Call) and isinstance(n.func, ast.Name) and n.func.id == "function"]
    wc = [n for n in ast.walk(worker.node) if isinstance(n, ast.Call) and isinstance(n.func, ast.Name) and n.func.id == "function"]
    if len(sc) != 1 or len(wc) != 1:
        rep.ob("R2", "one task call in the serial arm and one in the worker", False, call.site(), "%d / %d" % (len(sc), len(wc)), key="shape/count")
        return
    a, b = _call_shape(mod, sc[0], call.node), _call_shape(mod, wc[0], worker.node)
    rep.ob("R2", "serial arm and worker pass the same keyword set and spread args/kwargs the same way", a["keywords"] == b["keywords"] and a["starred"] == b["starred"]
           and a["kwstar"] == b["kwstar"] and a["positional"] == b["positional"], call.site(sc[0]), "serial %s ; worker %s" % (a, b), key="shape/agree")
    rep.ob("R2", "keyword set is {equilibrium, psi, f_R, f_Z}", a["keywords"] == ["equilibrium", "f_R", "f_Z", "psi"], call.site(sc[0]), str(a["keywords"]), key="shape/keywords")
    # the values: psi/f_R/f_Z are the equilibrium's own functions in both
    kv_s = {k.arg: T(mod, k.value) for k in sc[0].keywords if k.arg}
    kv_w, _ = _expanded_keywords(mod, worker.node, wc[0])
    idefs = {s.targets[0].attr: T(mod, s.value) for s in walk_own(init.node) if isinstance(s, ast.Assign) and is_self_attr(s.targets[0])}
    wdefs = {s.targets[0].id: T(mod, s.value) for s in walk_own(worker.node) if isinstance(s, ast.Assign) and isinstance(s.targets[0], ast.Name)}
    ok = True
    for k in ("psi", "f_R", "f_Z"):
        sv = kv_s.get(k, "")
        ok = ok and sv == "self." + k and idefs.get(k) == "equilibrium." + k
        ok = ok and (wdefs.get(kv_w.get(k, "")) == "equilibrium." + k or kv_w.get(k) == "equilibrium." + k)
    ok = ok and kv_s.get("equilibrium") == "self.equilibrium" and idefs.get("equilibrium") == "equilibrium" and kv_w.get("equilibrium") == "equilibrium"
    rep.ob("R2", "psi, f_R, f_Z are the passed equilibrium's own functions in both arms", ok, call.site(), "serial %s worker %s" % (kv_s, kv_w), key="shape/values")
    # serial arm maps over args_list in order with a list comprehension
    lc = [n for n in ast.walk(call.node) if isinstance(n, ast.ListComp)]
    ok = any(T(mod, l.generators[0].iter) == "args_list" and sc[0] in list(ast.walk(l)) for l in lc)
    rep.ob("R2", "the serial arm maps the task list in order", ok, call.site(), "", key="shape/serial-order")


def r3(rep, prog):
    mm = prog.module(MESH)
    n = 0
    mapped = {}
    for f in mm.funcs.values():
        for s in walk_own(f.node):
            for c in ast.walk(s) if isinstance(s, (ast.Assign, ast.Expr, ast.Return)) else []:
                if isinstance(c, ast.Call) and dotted(c.func) in ("self.parallel_map", "parallel_map") and c.args:
                    n += 1
                    consumed = isinstance(s, (ast.Assign, ast.Return))
                    rep.ob("R3", "result of parallel_map(%s, ...) is used" % T(mm, c.args[0]), consumed, f.site(c), "", key="consume/%s/%s" % (f.name, T(mm, c.args[0])))
                    mapped[T(mm, c.args[0])] = (f, c)
    rep.floor("R3.callsites", n, 6)
    # mapped functions: objects they call methods on / store into must be returned
    eqm = prog.module("hypnotoad/core/equilibrium.py")
    for name, (f, c) in sorted(mapped.items()):
        target = None
        if name in mm.funcs:
            target = mm.funcs[name]
        elif name.startswith("PsiContour."):
            target = eqm.funcs.get(name)
        if target is None:
            rep.ob("R3", "mapped function %s resolved" % name, False, f.site(c), "", key="mapped/%s/resolve" % name)
            continue
        params = [a.arg for a in target.node.args.args]
        modified = set()
        for nnode in walk_own(target.node):
            if isinstance(nnode, ast.Call) and isinstance(nnode.func, ast.Attribute) and isinstance(nnode.func.value, ast.Name) and nnode.func.value.id in params:
                # method call on a parameter object: may modify it (contours cache distances, refine in place)
                if nnode.func.attr not in ("reverse",) or True:
                    modified.add(nnode.func.value.id)
            if isinstance(nnode, (ast.Assign, ast.AugAssign)):
                for t in (nnode.targets if isinstance(nnode, ast.Assign) else [nnode.target]):
                    if isinstance(t, (ast.Attribute, ast.Subscript)):
                        b = t
                        while isinstance(b, (ast.Attribute, ast.Subscript)):
                            b = b.value
                        if isinstance(b, ast.Name) and b.id in params:
                            modified.add(b.id)
        modified -= {"psi", "equilibrium", "f_R", "f_Z", "kwargs"}
        rets = [r for r in walk_own(target.node) if isinstance(r, ast.Return) and r.value is not None]
        returned = set()
        for r in rets:
            for x in ast.walk(r.value):
                if isinstance(x, ast.Name):
                    returned.add(x.id)
        # objects derived from parameters (e.g. contour -> returned tuple containing contour)
        ok = bool(rets) and modified <= returned
        rep.ob("R3", "mapped function %s returns every argument object it modifies (%s)" % (name, sorted(modified)), ok, target.site(),
               "returned names: %s" % sorted(returned & set(params)), key="mapped/%s/returns" % name)
        # ... and the caller keeps the returned objects: in a worker the modification happens on a
        # copy, so the region's own contours must be replaced by what the map returned
        src_attrs = sorted({x.attr for a in c.args[1:] for x in ast.walk(a) if is_self_attr(x) and x.attr in ("contours",)})
        if modified and src_attrs:
            stmt = next((s for s in walk_own(f.node) if isinstance(s, (ast.Assign, ast.Expr, ast.Return)) and any(x is c for x in ast.walk(s))), None)
            res_names = set()
            direct = False
            if isinstance(stmt, ast.Assign):
                for t in stmt.targets:
                    if isinstance(t, ast.Name):
                        res_names.add(t.id)
                    if is_self_attr(t) and t.attr in src_attrs:
                        direct = True
            stored = direct
            # names that hold (parts of) the map's result, through any chain of temporaries
            grew = True
            while grew:
                grew = False
                for s in walk_own(f.node):
                    if isinstance(s, ast.Assign) and s.lineno > c.lineno and any(isinstance(x, ast.Name) and x.id in res_names for x in ast.walk(s.value)):
                        for t in s.targets:
                            for x in ([t] if isinstance(t, ast.Name) else (t.elts if isinstance(t, ast.Tuple) else [])):
                                if isinstance(x, ast.Name) and x.id not in res_names:
                                    res_names.add(x.id)
                                    grew = True
            for s in walk_own(f.node):
                if isinstance(s, ast.Assign) and s.lineno > c.lineno and any(is_self_attr(t) and t.attr in src_attrs for t in s.targets):
                    if any(isinstance(x, ast.Name) and x.id in res_names for x in ast.walk(s.value)):
                        stored = True
            rep.ob("R3", "%s: the %s handed to %s are replaced by the objects the map returned" % (f.qualname, "/".join("self." + a for a in src_attrs), name), stored, f.site(c),
                   "" if stored else "the map's result is not stored back: with worker processes the in-place changes made by %s are lost" % name, key="storeback/%s/%s" % (f.name, name))


def r4(rep, mod, call, worker):
    # the task call is inside try/except that reports through the result queue
    tcall = [n for n in ast.walk(worker.node) if isinstance(n, ast.Call) and isinstance(n.func, ast.Name) and n.func.id == "function"]
    tr = None
    for n in ast.walk(worker.node):
        if isinstance(n, ast.Try) and tcall and any(x is tcall[0] for b in n.body for x in ast.walk(b)):
            tr = n
    ok = False
    marker = None
    if tr is not None:
        for h in tr.handlers:
            catches = h.type is None or T(mod, h.type) in ("Exception", "BaseException")
            reraises = any(isinstance(x, ast.Raise) for x in ast.walk(h))
            if catches and not reraises:
                # the handler must bind the value that is subsequently put on the result queue
                assigned = {t.id for s in h.body if isinstance(s, ast.Assign) for t in s.targets if isinstance(t, ast.Name)}
                for s in h.body:
                    if isinstance(s, ast.Assign) and isinstance(s.value, ast.Call):
                        marker = dotted(s.value.func)
                loop_body = _enclosing(worker.node, tr, ast.While)
                after = False
                for s in (loop_body.body if loop_body else []):
                    if s is tr:
                        after = True
                    elif after and isinstance(s, ast.Expr) and isinstance(s.value, ast.Call) and "result_queue" in T(mod, s.value.func) and s.value.func.attr == "put":
                        names = {x.id for x in ast.walk(s.value) if isinstance(x, ast.Name)}
                        ok = bool(names & assigned)
                puts_in_handler = [x for x in ast.walk(h) if isinstance(x, ast.Call) and isinstance(x.func, ast.Attribute) and x.func.attr == "put" and "result_queue" in T(mod, x.func.value)]
                ok = ok or bool(puts_in_handler)
    rep.ob("R4", "an exception raised by a task is caught in the worker and reported through the result queue", ok, worker.site(tr) if tr else worker.site(),
           "no try/except around the task call: a failing task kills the worker and nothing is ever put on the result queue" if tr is None else "marker %s" % marker, key="failure/worker-reports")
    # parent raises on a failure report
    okp = False
    if marker:
        for n in walk_own(call.node):
            if isinstance(n, ast.If) and any(isinstance(x, ast.Call) and dotted(x.func) == "isinstance" and len(x.args) == 2 and T(mod, x.args[1]) == marker for x in ast.walk(n.test)):
                flagged = {t.id for s in n.body if isinstance(s, ast.Assign) for t in s.targets if isinstance(t, ast.Name)}
                direct = any(isinstance(x, ast.Raise) for x in ast.walk(n))
                later = False
                for m in walk_own(call.node):
                    if isinstance(m, ast.If) and m is not n and any(isinstance(x, ast.Raise) for x in m.body):
                        tn = {x.id for x in ast.walk(m.test) if isinstance(x, ast.Name)}
                        if tn & flagged:
                            later = True
                okp = direct or later
    rep.ob("R4", "the parent turns a reported task failure into a raised exception", okp, call.site(), "", key="failure/parent-raises")
    # bounded wait
    gets = [n for n in walk_own(call.node) if isinstance(n, ast.Call) and isinstance(n.func, ast.Attribute) and n.func.attr == "get" and "result_queue" in T(mod, n.func.value)]
    okb = bool(gets)
    detail = ""
    for g in gets:
        has_timeout = any(k.arg == "timeout" for k in g.keywords) or len(g.args) >= 2 or any(k.arg == "block" and isinstance(k.value, ast.Constant) and k.value.value is False for k in g.keywords)
        tr2 = None
        for n in ast.walk(call.node):
            if isinstance(n, ast.Try) and any(x is g for b in n.body for x in ast.walk(b)):
                tr2 = n
        alive = False
        if tr2 is not None:
            for h in tr2.handlers:
                if any(isinstance(x, ast.Attribute) and x.attr in ("is_alive", "exitcode") for x in ast.walk(h)) and any(isinstance(x, ast.Raise) for x in ast.walk(h)):
                    alive = True
        if not (has_timeout and alive):
            okb = False
            detail = "result_queue.get() at line %d: timeout=%s, liveness check with raise=%s" % (g.lineno, has_timeout, alive)
    rep.ob("R4", "the parent's wait for results has a timeout and raises when a worker process has died", okb, call.site(gets[0]) if gets else call.site(), detail, key="failure/bounded-wait")
    # ... "a worker has died" = some worker is dead: a task held by a dead worker is lost while the
    # others finish theirs, so waiting until no worker is alive waits forever
    quant = []
    for n in ast.walk(call.node):
        if isinstance(n, ast.If) and any(isinstance(x, ast.Raise) for x in n.body) and any(isinstance(x, ast.Attribute) and x.attr == "is_alive" for x in ast.walk(n.test)):
            t = n.test
            neg = False
            while isinstance(t, ast.UnaryOp) and isinstance(t.op, ast.Not):
                neg, t = not neg, t.operand
            if isinstance(t, ast.Call) and isinstance(t.func, ast.Name) and t.func.id in ("all", "any") and t.args and isinstance(t.args[0], (ast.GeneratorExp, ast.ListComp)):
                elt = t.args[0].elt
                eneg = False
                while isinstance(elt, ast.UnaryOp) and isinstance(elt.op, ast.Not):
                    eneg, elt = not eneg, elt.operand
                alive_elt = isinstance(elt, ast.Call) and isinstance(elt.func, ast.Attribute) and elt.func.attr == "is_alive"
                # raises iff some worker is dead:  not all(alive)  or  any(not alive)
                some_dead = alive_elt and ((t.func.id == "all" and neg and not eneg) or (t.func.id == "any" and not neg and eneg))
                quant.append((n, some_dead, T(mod, n.test)))
            else:
                quant.append((n, None, T(mod, n.test)))
    okq = bool(quant) and all(q[1] for q in quant)
    detail = "; ".join(("definite: " if q[1] is False else "unmodelled: ") + "`%s` does not hold as soon as one worker is dead" % q[2][:70] for q in quant if not q[1]) or ""
    rep.ob("R4", "the wait is given up as soon as any one worker process is dead (its task can never arrive)", okq, call.site(quant[0][0]) if quant else call.site(), detail, key="failure/any-dead")
    # drain: a ParallelMap is re-used for later calls, so every result of this call has to be
    # taken off the shared result queue before the call ends, also when a task failed.  Inside
    # the collection loop the only exit is the liveness handler (the pool is dead anyway).
    loops = [n for n in walk_own(call.node) if isinstance(n, ast.For) and any(x is g for g in gets for x in ast.walk(n))]
    okd, detail = bool(loops), "collection loop not found"
    if loops:
        loop = loops[0]
        early = []

        def visit(n, in_handler, inner_loop):
            if isinstance(n, (ast.FunctionDef, ast.Lambda)):
                return
            if isinstance(n, (ast.Raise, ast.Return)) and not in_handler:
                early.append(n)
            if isinstance(n, ast.Break) and not inner_loop:
                early.append(n)
            if isinstance(n, ast.Try):
                own_get = any(x is g for g in gets for b in n.body for x in ast.walk(b))
                for b in n.body + n.orelse + n.finalbody:
                    visit(b, in_handler, inner_loop)
                for h in n.handlers:
                    for b in h.body:
                        visit(b, in_handler or own_get, inner_loop)
                return
            for ch in ast.iter_child_nodes(n):
                visit(ch, in_handler, inner_loop or isinstance(n, (ast.While, ast.For)))

        for st in loop.body:
            visit(st, False, False)
        okd = not early
        detail = "; ".join("%s at line %d leaves the collection loop before all results are received" % (type(e).__name__.lower(), e.lineno) for e in early)
        okd = okd and isinstance(loop.iter, ast.Call) and T(mod, loop.iter) in (K("range(n_tasks)"), K("range(len(args_list))"))
    rep.ob("R4", "all results of a call are received before the call ends (a failed task is reported after the collection loop, so nothing stale stays queued for the next call)",
           okd, call.site(loops[0]) if loops else call.site(), detail, key="failure/drain")


def r5(rep, prog):
    """equilibrium attributes read by code reachable in workers vs writes after the snapshot"""
    mm = prog.module(MESH)
    init = mm.funcs.get("Mesh.__init__")
    if init is None:
        raise AnalysisError("Mesh.__init__ not found")
    # statements after the ParallelMap construction in Mesh.__init__ and in methods that map
    body = init.node.body
    pos = None
    for i, s in enumerate(body):
        if any(isinstance(n, ast.Call) and dotted(n.func) == "ParallelMap" for n in ast.walk(s)):
            pos = i
    rep.ob("R5", "Mesh.__init__ constructs the ParallelMap from the equilibrium", pos is not None, init.site(), "", key="snapshot/constructed")
    if pos is None:
        return
    c = [n for n in ast.walk(body[pos]) if isinstance(n, ast.Call) and dotted(n.func) == "ParallelMap"][0]
    ok = any(k.arg == "equilibrium" and T(mm, k.value) in ("equilibrium", "self.equilibrium") for k in c.keywords)
    rep.ob("R5", "the snapshot is of the mesh's own equilibrium", ok, init.site(c), "", key="snapshot/which")
    # writes to attributes of the equilibrium object anywhere in MeshRegion/Mesh methods that run after construction
    writes = []
    for f in mm.funcs.values():
        if f.cls not in ("Mesh", "BoutMesh", "MeshRegion"):
            continue
        for n in walk_own(f.node):
            if isinstance(n, (ast.Assign, ast.AugAssign)):
                for t in (n.targets if isinstance(n, ast.Assign) else [n.target]):
                    d = dotted(t) if isinstance(t, ast.Attribute) else None
                    if d and (d.startswith("self.equilibrium.") or d.startswith("self.meshParent.equilibrium.")) and d.count(".") == (2 if d.startswith("self.equilibrium.") else 3):
                        writes.append((f, n, d))
    for f, n, d in writes:
        rep.ob("R5", "no write to the equilibrium object after the worker snapshot: %s" % d, False, f.site(n), "", key="snapshot/write/" + d)
    rep.ob("R5", "mesh code does not assign attributes of the equilibrium object (workers hold a pickled snapshot)", not writes, MESH, "", key="snapshot/no-writes")
    # Equilibrium.resetNonorthogonalOptions is the one method that changes the equilibrium later:
    # mapped functions receive options through arguments/contours, so they must not read
    # equilibrium.nonorthogonal_options
    reads = []
    names = ("followPerpendicular", "_find_intersection", "_refine_extend", "_calc_contour_distance", "regrid_contours")
    for nm in names:
        f = mm.funcs.get(nm)
        if f is None:
            continue
        for n in ast.walk(f.node):
            if isinstance(n, ast.Attribute) and n.attr == "nonorthogonal_options" and isinstance(n.value, ast.Name) and n.value.id == "equilibrium":
                reads.append((f, n))
    rep.ob("R5", "mapped functions do not read equilibrium.nonorthogonal_options (the only equilibrium state reset after the snapshot)", not reads, MESH,
           "; ".join(f.site(n) for f, n in reads), key="snapshot/nonorth-read")
