"""C17 geqdsk write/read agreement (tables, loop nests, token languages).

R1 field order: the scalars on lines 2-5, the array sequence, the counts and the (r,z)
   pairs are written and read in the same order; the header's last three integers are
   idum, nx, ny on both sides.
R2 2-D order: writer and reader iterate y outer / x inner and index [x, y]; sizes from nx, ny.
R3 token languages: every token the writer can emit (float via f2s, int via ChunkOutput,
   fixed-width counts and header integers) is tokenised back to itself by the reader in
   every concatenation, including abutting negative numbers; the float/int discrimination
   agrees; chunking never splits a token.  Decided by enumerating the writer's token shape
   classes (sign x exponent sign x digit-count classes) against the reader's regex and
   split() logic taken from the source.
R4 read_geqdsk builds R, Z, the psi profile grid and the wall from the file fields as the
   format defines.
Not decided: ten-digit numerical fidelity (follows from %1.9E, trusted); 3-digit exponents
(excluded by the statement).
"""
import ast
import itertools
import re

from ..alg import AlgError, Context, Rat
from ..extract import Extractor, _dotted
from ..model import Program, walk_own
from ..report import AnalysisError
from ..model import canon as K

GEQ = "hypnotoad/geqdsk/_geqdsk.py"
FU = "hypnotoad/geqdsk/_fileutils.py"
TOK = "hypnotoad/cases/tokamak.py"


def T(mod, n):
    return mod.code(n)


def run(rep, tier):
    prog = Program()
    rep.analysed_add("files", [GEQ, FU, TOK])
    rep.rule("R1", "field/array/pair order agreement between write and read")
    rep.rule("R2", "2-D loop nest agreement")
    rep.rule("R3", "writer token languages vs reader tokenisation")
    rep.rule("R4", "read_geqdsk axis and wall construction")
    rep.trust("Python's % / str.format number formatting and re / str.split semantics (used on enumerated shape-class representatives)")
    r1(prog, rep)
    r2(prog, rep)
    r3(prog, rep, thorough=(tier == "thorough"))
    r4(prog, rep)
    rep.undecided("numerical fidelity beyond the format's ten significant digits; three-digit exponents")
    return __doc__


def writer_scalar_sequence(mod, w):
    """names written with f2s on the scalar lines, in order ('0.0' for literal zeros)"""
    seq = []
    for s in w.node.body:
        if isinstance(s, ast.Expr) and isinstance(s.value, ast.Call) and _dotted(s.value.func) == "fh.write":
            arg = s.value.args[0]
            calls = [n for n in ast.walk(arg) if isinstance(n, ast.Call) and _dotted(n.func) == "f2s"]
            if not calls:
                continue
            calls.sort(key=lambda n: (n.lineno, n.col_offset))
            line = []
            for c in calls:
                a = c.args[0]
                if isinstance(a, ast.Subscript) and isinstance(a.slice, ast.Constant):
                    line.append(a.slice.value)
                elif isinstance(a, ast.Constant):
                    line.append(a.value)
                else:
                    line.append("?" + T(mod, a))
            seq.append(line)
    return seq


def r1(prog, rep):
    mod = prog.module(GEQ)
    w = mod.funcs.get("write")
    r = mod.funcs.get("read")
    if w is None or r is None:
        raise AnalysisError("geqdsk write/read not found")
    rep.analysed_add("functions", [w.site(), r.site()])
    lines = writer_scalar_sequence(mod, w)
    flat = [x for l in lines for x in l]
    fields = None
    for s in walk_own(r.node):
        if isinstance(s, ast.Assign) and isinstance(s.targets[0], ast.Name) and s.targets[0].id == "fields" and isinstance(s.value, ast.List):
            fields = [e.value for e in s.value.elts]
    rep.ob("R1", "writer emits 4 scalar lines of 5 values", [len(l) for l in lines] == [5, 5, 5, 5], w.site(), str(lines), key="order/lines")
    ok = fields is not None and len(fields) == len(flat)
    detail = []
    if ok:
        seen = set()
        for i, (a, b) in enumerate(zip(flat, fields)):
            if b is None:
                good = a == 0.0 or isinstance(a, str)  # discarded on reading
            else:
                good = a == b
            if not good:
                ok = False
                detail.append("position %d: written %r, read as %r" % (i, a, b))
        # every named field is written at least once under its own name before any discard
        names = [b for b in fields if b]
    rep.ob("R1", "scalar fields are read in the order they are written (None <-> 0.0 or a repeated value)", ok, r.site(), "; ".join(detail) or "writer %s ; reader %s" % (flat, fields), key="order/scalars")
    # reader consumes them sequentially
    loops = [n for n in walk_own(r.node) if isinstance(n, ast.For) and T(mod, n.iter) == "fields"]
    ok = len(loops) == 1 and K("val=next(values)") in [T(mod, s) for s in loops[0].body] and any(T(mod, s) == K("iff:data[f]=val") for s in loops[0].body)
    rep.ob("R1", "reader takes one value per field entry, storing the named ones", ok, r.site(), "", key="order/consume")
    # arrays
    wseq = []
    for s in w.node.body:
        for c in ([s.value] if isinstance(s, ast.Expr) and isinstance(s.value, ast.Call) else []):
            d = _dotted(c.func)
            if d in ("write_1d", "write_2d"):
                wseq.append((d, T(mod, c.args[0])))
        if isinstance(s, ast.If):
            t = T(mod, s.test)
            b = [(_dotted(x.value.func), T(mod, x.value.args[0])) for x in s.body if isinstance(x, ast.Expr) and isinstance(x.value, ast.Call) and _dotted(x.value.func) in ("write_1d", "write_2d")]
            e = [(_dotted(x.value.func), T(mod, x.value.args[0])) for x in s.orelse if isinstance(x, ast.Expr) and isinstance(x.value, ast.Call) and _dotted(x.value.func) in ("write_1d", "write_2d")]
            if b and e:
                wseq.append((b[0][0], b[0][1] + "|" + e[0][1]))
    # presence guards test the key they protect: `if "k" in data:` ... data["k"] ...
    n_guards = 0
    for fn_ in (w, r, prog.module(TOK).funcs.get("read_geqdsk")):
        if fn_ is None:
            continue
        for n in ast.walk(fn_.node):
            if not (isinstance(n, ast.If)):
                continue
            tests = n.test.values if isinstance(n.test, ast.BoolOp) and isinstance(n.test.op, ast.And) else [n.test]
            tested = {}
            for t_ in tests:
                if isinstance(t_, ast.Compare) and len(t_.ops) == 1 and isinstance(t_.ops[0], ast.In) and isinstance(t_.left, ast.Constant) and isinstance(t_.left.value, str) and isinstance(t_.comparators[0], ast.Name):
                    tested.setdefault(t_.comparators[0].id, set()).add(t_.left.value)
            for dname, keys in tested.items():
                used = {x.slice.value for b_ in n.body for x in ast.walk(b_) if isinstance(x, ast.Subscript) and isinstance(x.value, ast.Name) and x.value.id == dname
                        and isinstance(x.slice, ast.Constant) and isinstance(x.slice.value, str) and isinstance(x.ctx, ast.Load)}
                if not used:
                    continue
                n_guards += 1
                rep.ob("R1", "%s: entries read under the presence test %s are the tested ones" % (fn_.qualname, sorted(keys)), used <= keys, fn_.site(n),
                       "reads %s[%s] under a test of %s" % (dname, sorted(used - keys), sorted(keys)), key="guard-key/%s/%s" % (fn_.qualname, "+".join(sorted(keys))))
    rep.floor("R1.presence-guards", n_guards, 4)
    rseq = []
    for s in r.node.body:
        if isinstance(s, ast.Assign) and isinstance(s.targets[0], ast.Subscript) and isinstance(s.value, ast.Call) and isinstance(s.value.func, ast.Name) and s.value.func.id in ("read_1d", "read_2d"):
            rseq.append((s.value.func.id, s.targets[0].slice.value, [T(mod, a) for a in s.value.args]))
    want_w = [("write_1d", K('data["fpol"]')), ("write_1d", K('data["pres"]')), ("write_1d", K('data["ffprime"]') + "|workk"), ("write_1d", K('data["pprime"]') + "|workk"), ("write_2d", K('data["psi"]')), ("write_1d", K('data["qpsi"]'))]
    rep.ob("R1", "writer array sequence: fpol, pres, ffprime (or zeros), pprime (or zeros), psi (2-D), qpsi", wseq == want_w, w.site(), str(wseq), key="order/arrays-written")
    want_r = [("read_1d", "fpol", ["nx"]), ("read_1d", "pres", ["nx"]), ("read_1d", "ffprime", ["nx"]), ("read_1d", "pprime", ["nx"]), ("read_2d", "psi", ["nx", "ny"]), ("read_1d", "qpsi", ["nx"])]
    rep.ob("R1", "reader array sequence and sizes: the same six arrays, 1-D of length nx, psi nx by ny", rseq == want_r, r.site(), str(rseq), key="order/arrays-read")
    kinds_agree = [a[0].replace("write", "read") for a in wseq] == [b[0] for b in rseq] and [re.sub(r'''data\[['"](\w+)['"]\].*''', r"\1", a[1]) for a in wseq] == [b[1] for b in rseq]
    rep.ob("R1", "array kinds and names agree position by position", kinds_agree, w.site(), "", key="order/arrays-agree")
    zeros_ok = any(isinstance(s, ast.Assign) and T(mod, s) == K("workk=zeros([nx])") for s in w.node.body)
    rep.ob("R1", "missing optional arrays are written as nx zeros (so positions are preserved)", zeros_ok, w.site(), "", key="order/optional-zeros")
    # counts and pairs
    wsrc = T(mod, w.node)
    rsrc = T(mod, r.node)
    ok = K('fh.write("{0:5d}{1:5d}\\n".format(nbdry,nlim))') in wsrc and K("nbdry=next(values)nlim=next(values)") in rsrc.replace("\n", "")
    rep.ob("R1", "counts are written and read as nbdry then nlim", ok, w.site(), "", key="order/counts")
    pairs_w = []
    for n in sorted(walk_own(w.node), key=lambda x: getattr(x, "lineno", 0)):
        if isinstance(n, ast.For) and isinstance(n.iter, ast.Call) and _dotted(n.iter.func) == "zip":
            pairs_w.append(([T(mod, a) for a in n.iter.args], [T(mod, s) for s in n.body], "&".join(_all_guards(mod, w.node, n))))
    ok = pairs_w == [([K('data["rbdry"]'), K('data["zbdry"]')], [K("co.write(r)"), K("co.write(z)")], K("nbdry>0")), ([K('data["rlim"]'), K('data["zlim"]')], [K("co.write(r)"), K("co.write(z)")], K("nlim>0"))]
    rep.ob("R1", "boundary then limiter points are written as interleaved (r, z) pairs, each block under its own count test only", ok, w.site(), str(pairs_w), key="order/pairs-written")
    pairs_r = []
    for n in sorted(walk_own(r.node), key=lambda x: getattr(x, "lineno", 0)):
        if isinstance(n, ast.For) and T(mod, n.iter) in (K("range(nbdry)"), K("range(nlim)")):
            pairs_r.append((T(mod, n.iter), [T(mod, s) for s in n.body], "&".join(_all_guards(mod, r.node, n))))
    ok = pairs_r == [(K("range(nbdry)"), [K('data["rbdry"][i]=next(values)'), K('data["zbdry"][i]=next(values)')], K("nbdry>0")), (K("range(nlim)"), [K('data["rlim"][i]=next(values)'), K('data["zlim"][i]=next(values)')], K("nlim>0"))]
    rep.ob("R1", "boundary then limiter points are read as interleaved (r, z) pairs, each block under its own count test only", ok, r.site(), str(pairs_r), key="order/pairs-read")
    counts_def = K("nbdry=0") in wsrc and K("nlim=0") in wsrc and K('if"rbdry"indata:nbdry=len(data["rbdry"])') in wsrc and K('if"rlim"indata:nlim=len(data["rlim"])') in wsrc
    rep.ob("R1", "counts are the lengths of the arrays written (0 when absent)", counts_def, w.site(), "", key="order/counts-def")
    # header integers
    hdr = None
    for s in walk_own(w.node):
        if isinstance(s, ast.Assign) and isinstance(s.targets[0], ast.Name) and s.targets[0].id == "header" and isinstance(s.value, ast.Call):
            hdr = s.value
    ok = hdr is not None and [T(mod, a) for a in hdr.args][-3:] == ["idum", "nx", "ny"]
    fmt = hdr.func.value.value if hdr is not None and isinstance(hdr.func, ast.Attribute) and isinstance(hdr.func.value, ast.Constant) else None
    idx = re.findall(r"\{(\d+):", fmt or "")
    ok = ok and idx[-3:] == ["4", "5", "6"] and fmt.endswith(K("\n"))
    rep.ob("R1", "header ends with idum, nx, ny", ok, w.site(), repr(fmt), key="order/header-written")
    hdr_ints = _header_ints(mod, r) if False else _header_ints(prog.module(GEQ), r)
    ok = K("words=header.split()") in rsrc and hdr_ints == {"idum": "int(words[-3])", "nx": "int(words[-2])", "ny": "int(words[-1])"}
    rep.ob("R1", "reader takes idum, nx, ny from the last three words of the header", ok, r.site(), "", key="order/header-read")


def _header_ints(mod, r):
    """what idum, nx, ny are bound to in the reader: `nx = int(words[-2])`, or the k-th target of an
    unpacking of `(int(w) for w in words[-3:])` / `map(int, words[-3:])` (element k of words[-3:]
    is words[-3+k])"""
    from ..elements import element, NoElement
    out = {}
    for st in walk_own(r.node):
        if not isinstance(st, ast.Assign) or len(st.targets) != 1:
            continue
        t = st.targets[0]
        if isinstance(t, ast.Name) and t.id in ("idum", "nx", "ny"):
            out[t.id] = T(mod, st.value)
        elif isinstance(t, ast.Tuple) and all(isinstance(e, ast.Name) for e in t.elts) and {e.id for e in t.elts} & {"idum", "nx", "ny"}:
            try:
                el = element(r.node, st.value)
            except NoElement:
                continue
            m = re.fullmatch(r"int\(<words\[-(\d+)\+i\]>\)", el) if isinstance(el, str) else None
            if m and int(m.group(1)) == len(t.elts):
                for k, e in enumerate(t.elts):
                    out[e.id] = "int(words[%d])" % (k - len(t.elts))
    return out


def _parent_if(root, node):
    best = None
    for n in ast.walk(root):
        if isinstance(n, ast.If) and node in n.body:
            best = n
    if best is None:
        raise AnalysisError("enclosing if not found")
    return best


def _all_guards(mod, root, node):
    """every condition under which `node` executes: tests of all enclosing If arms (an else
    arm is written not(...)), outermost first"""
    out = []

    def visit(n, stack):
        if n is node:
            out.extend(stack)
            return True
        if isinstance(n, ast.If):
            t = T(mod, n.test)
            for ch in n.body:
                if visit(ch, stack + [t]):
                    return True
            for ch in n.orelse:
                if visit(ch, stack + ["not(%s)" % t]):
                    return True
            return False
        for ch in ast.iter_child_nodes(n):
            if visit(ch, stack):
                return True
        return False

    visit(root, [])
    return out


def r2(prog, rep):
    mod = prog.module(FU)
    w2 = mod.funcs.get("write_2d")
    gm = prog.module(GEQ)
    r2f = gm.funcs.get("read.read_2d")
    if w2 is None or r2f is None:
        raise AnalysisError("write_2d/read_2d not found")

    from ..elements import loop_env, value, NoElement
    from ..model import inline_temporaries

    def norm_index(t):
        # X[:,b][a] and X[a][b] are X[a,b] (integer indices into an array)
        import re as _re
        t = _re.sub(r"(\w+)\[:,([^\[\]]+)\]\[([^\[\]]+)\]", r"\1[\3,\2]", t)
        return _re.sub(r"(\w+)\[([^\[\]:,]+)\]\[([^\[\]:,]+)\]", r"\1[\2,\3]", t)

    def nest(mod_, f):
        """(outer extent, inner extent, statements of the inner body with the loop variables named
        <outer> / <inner> and temporaries seen through)"""
        outer = [n for n in f.node.body if isinstance(n, ast.For)]
        if len(outer) != 1:
            return None
        o = outer[0]
        inner = [n for n in o.body if isinstance(n, ast.For)]
        if len(inner) != 1:
            return None
        i = inner[0]
        if not (isinstance(o.target, ast.Name) and isinstance(i.target, ast.Name)):
            return None
        ext = lambda it: T(mod_, it.args[0]) if isinstance(it, ast.Call) and T(mod_, it.func) == "range" and len(it.args) == 1 else "?" + T(mod_, it)
        ren = {o.target.id: "<outer>", i.target.id: "<inner>"}
        body = []
        for st in i.body:
            st2 = inline_temporaries(f.node, st, keep=tuple(ren))
            for x in ast.walk(st2):
                if isinstance(x, ast.Name) and x.id in ren:
                    x.id = ren[x.id]
            body.append(norm_index(T(mod_, st2)))
        return (ext(o.iter), ext(i.iter), body)

    a, b = nest(mod, w2), nest(gm, r2f)
    ok = a == ("ny", "nx", ["out.write(val[<inner>,<outer>])"])
    rep.ob("R2", "write_2d: y outer, x inner, element [x, y]", ok, w2.site(), str(a), key="nest/write")
    ok = b == ("m", "n", ["val[<inner>,<outer>]=next(values)"])
    rep.ob("R2", "read_2d: y outer, x inner, element [x, y]", ok, r2f.site(), str(b), key="nest/read")
    ok = K("nx,ny=val.shape") in [T(mod, s) for s in w2.node.body] and K("val=zeros([n,m])") in [T(gm, s) for s in r2f.node.body]
    rep.ob("R2", "extents: writer (nx, ny) = val.shape; reader allocates (n, m) and is called with (nx, ny)", ok, w2.site(), "", key="nest/extents")
    w1 = mod.funcs.get("write_1d")
    stmts = [s_ for s_ in w1.node.body if not (isinstance(s_, ast.Expr) and isinstance(s_.value, ast.Constant))]
    ok, detail = False, "body is not one loop followed by out.newline()"
    if len(stmts) == 2 and isinstance(stmts[0], ast.For) and not stmts[0].orelse and T(mod, stmts[1]) == K("out.newline()") and len(stmts[0].body) == 1:
        try:
            env = loop_env(w1.node, stmts[0])
            c = stmts[0].body[0].value if isinstance(stmts[0].body[0], ast.Expr) else None
            written = value(c.args[0], env) if isinstance(c, ast.Call) and T(mod, c.func) == "out.write" and len(c.args) == 1 else None
            whole = isinstance(stmts[0].iter, ast.Name) or T(mod, stmts[0].iter) in (K("range(len(val))"), K("enumerate(val)"))
            ok = written == "<val[i]>" and whole
            detail = "i-th value written: %s; loop over %s" % (written, T(mod, stmts[0].iter))
        except NoElement as e:
            detail = "unmodelled loop: %s" % e
    rep.ob("R2", "write_1d writes the elements in index order and ends the line", ok, w1.site(), detail, key="nest/write_1d")
    ok = K("out.newline()") in [T(mod, s) for s in w2.node.body]
    rep.ob("R2", "write_2d ends the line after the array", ok, w2.site(), "", key="nest/write_2d-newline")


# ---------------------------------------------------------------------------------
class _Unmodelled(Exception):
    pass


def _string_result(mod, f, nonneg):
    """the string a one-argument formatting function returns for a non-negative / negative
    argument, as a list of pieces: literal strings and ("fmt", "<%-format applied to the argument>").
    The function is followed statement by statement (effects view); its only decision is the sign
    test of its argument."""
    from ..stores import effects
    arg = f.node.args.args[0].arg
    env = {}

    def truth(c):
        t = T(mod, c)
        table = {K("%s>=0.0" % arg): nonneg, K("%s>=0" % arg): nonneg, K("%s<0.0" % arg): not nonneg, K("%s<0" % arg): not nonneg,
                 K("not %s>=0.0" % arg): not nonneg, K("not %s<0.0" % arg): nonneg}
        if t not in table:
            raise _Unmodelled("condition " + t)
        return table[t]

    def ev(n):
        if isinstance(n, ast.Constant) and isinstance(n.value, str):
            return [n.value] if n.value else []
        if isinstance(n, ast.Name) and n.id in env:
            return list(env[n.id])
        if isinstance(n, ast.BinOp) and isinstance(n.op, ast.Add):
            return ev(n.left) + ev(n.right)
        if isinstance(n, ast.BinOp) and isinstance(n.op, ast.Mod) and isinstance(n.left, ast.Constant) and isinstance(n.right, ast.Name) and n.right.id == arg:
            return [("fmt", n.left.value)]
        if isinstance(n, ast.IfExp):
            return ev(n.body) if truth(n.test) else ev(n.orelse)
        raise _Unmodelled("expression " + T(mod, n)[:60])

    for e in effects(f.node, inline=False):
        if not all(truth(c) for c in e.conds):
            continue
        if e.kind == "store" and isinstance(e.target, ast.Name):
            env[e.target.id] = ev(e.value)
        elif e.kind == "augstore" and isinstance(e.target, ast.Name) and isinstance(e.node.op, ast.Add):
            env[e.target.id] = env.get(e.target.id, []) + ev(e.value)
        elif e.kind == "return":
            out = ev(e.value)
            # adjacent literals are one literal
            merged = []
            for p_ in out:
                if merged and isinstance(p_, str) and isinstance(merged[-1], str):
                    merged[-1] += p_
                else:
                    merged.append(p_)
            return merged
        elif e.kind in ("call", "raise"):
            raise _Unmodelled("effect " + e.kind)
    raise _Unmodelled("no return reached")


def source_formats(prog):
    mod = prog.module(FU)
    f2s = mod.funcs.get("f2s")
    co = mod.funcs.get("ChunkOutput.write")
    nv = mod.funcs.get("next_value")
    if not (f2s and co and nv):
        raise AnalysisError("f2s / ChunkOutput.write / next_value not found")
    # float format and sign-space rule: evaluate f2s for a non-negative and for a negative argument
    ffmt = None
    for n in ast.walk(f2s.node):
        if isinstance(n, ast.BinOp) and isinstance(n.op, ast.Mod) and isinstance(n.left, ast.Constant) and isinstance(n.left.value, str):
            ffmt = n.left.value
    try:
        pos, neg = _string_result(mod, f2s, True), _string_result(mod, f2s, False)
        space_rule = ffmt is not None and pos == [" ", ("fmt", ffmt)] and neg == [("fmt", ffmt)]
    except _Unmodelled:
        space_rule = False
    # int prefix: the string written on the isinstance(value, int) arm (helper methods spliced in)
    from ..stores import effects
    iprefix = None
    for e in effects(co.node, inline=False):
        if e.kind == "call" and T(mod, e.value.func) == K("self.fh.write") and [T(mod, c) for c in e.conds if not isinstance(c, str)][-1:] == [K("isinstance(value,int)")]:
            a = e.value.args[0]
            if isinstance(a, ast.BinOp) and isinstance(a.left, ast.Constant) and T(mod, a.right) == K("str(value)"):
                iprefix = a.left.value
    pattern = None
    pname = None
    for n in ast.walk(nv.node):
        if isinstance(n, ast.Call) and _dotted(n.func) == "re.compile" and isinstance(n.args[0], ast.Constant):
            pattern = n.args[0].value
            pname = "pattern"
    if pattern is None:
        # a module-level compiled pattern used by the reader
        used = {x.id for x in ast.walk(nv.node) if isinstance(x, ast.Name)}
        for st in mod.tree.body:
            if isinstance(st, ast.Assign) and len(st.targets) == 1 and isinstance(st.targets[0], ast.Name) and st.targets[0].id in used and isinstance(st.value, ast.Call) \
                    and _dotted(st.value.func) == "re.compile" and isinstance(st.value.args[0], ast.Constant):
                pattern, pname = st.value.args[0].value, st.targets[0].id
    # every token goes through one test `"." in <text>`: float(<text>) if it holds, int(<text>) otherwise
    discr = False
    for n in ast.walk(nv.node):
        if isinstance(n, (ast.If, ast.IfExp)) and isinstance(n.test, ast.Compare) and len(n.test.ops) == 1 and isinstance(n.test.ops[0], ast.In) \
                and isinstance(n.test.left, ast.Constant) and n.test.left.value == ".":
            x = T(mod, n.test.comparators[0])
            yes = n.body if isinstance(n, ast.IfExp) else (n.body[0].value.value if len(n.body) == 1 and isinstance(n.body[0], ast.Expr) and isinstance(n.body[0].value, ast.Yield) else None)
            no = n.orelse if isinstance(n, ast.IfExp) else (n.orelse[0].value.value if len(n.orelse) == 1 and isinstance(n.orelse[0], ast.Expr) and isinstance(n.orelse[0].value, ast.Yield) else None)
            discr = yes is not None and no is not None and T(mod, yes) == "float(%s)" % x and T(mod, no) == "int(%s)" % x
    # the tokens are all non-overlapping matches of the pattern, left to right: findall, or finditer + group(0)
    findall = False
    for n in ast.walk(nv.node):
        if isinstance(n, ast.Call) and isinstance(n.func, ast.Attribute) and isinstance(n.func.value, ast.Name) and n.func.value.id == pname:
            if n.func.attr == "findall":
                findall = True
            elif n.func.attr == "finditer":
                findall = any(isinstance(g, ast.Call) and isinstance(g.func, ast.Attribute) and g.func.attr == "group" and (not g.args or (isinstance(g.args[0], ast.Constant) and g.args[0].value == 0))
                              for g in ast.walk(nv.node))
    chunk = None
    init = mod.funcs.get("ChunkOutput.__init__")
    for a, d in zip(init.node.args.args[-2:], init.node.args.defaults[-2:]):
        if a.arg == "chunksize":
            chunk = d.value
        if a.arg == "extraspaces":
            extra = d.value
    return dict(ffmt=ffmt, space_rule=space_rule, iprefix=iprefix, pattern=pattern, discr=discr, findall=findall, chunk=chunk, extra=extra, f2s=f2s, co=co, nv=nv, mod=mod)


def float_tokens(ffmt, thorough):
    """one representative per shape class of f2s output: sign x exponent sign x leading digit class"""
    vals = [0.0, 1.0, 9.999999999, 1.5e-7, 2.5e12, 3.0e-99, 9.0e99, 1e10, 1e-10]
    if thorough:
        vals += [d * 10.0 ** e for d in (1.0, 5.5, 9.9) for e in (-50, -1, 0, 1, 50)]
    out = []
    for v in vals:
        for s in (1, -1):
            x = s * v
            tok = (" " if x >= 0.0 else "") + ffmt % x
            out.append((tok, x))
    out.append((" " + ffmt % -0.0, -0.0))  # -0.0 >= 0.0 is True: gets the space AND the minus sign
    return out


def int_tokens(prefix):
    return [(prefix + str(v), v) for v in (0, 3, 12, 999, 12345, -4, -120)]


def tokenise(pattern, text):
    out = []
    for m in re.compile(pattern).findall(text):
        out.append(float(m) if "." in m else int(m))
    return out


def r3(prog, rep, thorough=False):
    sf = source_formats(prog)
    mod = sf["mod"]
    rep.ob("R3", "float tokens are `%1.9E`-style with a leading space exactly for non-negative values", sf["ffmt"] is not None and re.fullmatch(r"%\d*\.\d+E", sf["ffmt"]) is not None and sf["space_rule"], sf["f2s"].site(),
           "format %r" % sf["ffmt"], key="tokens/float-format")
    rep.ob("R3", "integers written through ChunkOutput get a separating prefix of spaces", sf["iprefix"] is not None and set(sf["iprefix"]) == {K(" ")} and len(sf["iprefix"]) >= 1, sf["co"].site(), repr(sf["iprefix"]), key="tokens/int-format")
    rep.ob("R3", "reader tokenises each line with findall of one pattern and discriminates int/float by the decimal point", sf["discr"] and sf["findall"] and sf["pattern"] is not None, sf["nv"].site(), repr(sf["pattern"]), key="tokens/reader-shape")
    if not (sf["ffmt"] and sf["iprefix"] is not None and sf["pattern"]):
        return
    pat = sf["pattern"]
    ft = float_tokens(sf["ffmt"], thorough)
    it = int_tokens(sf["iprefix"])
    # the precision digits of the format: ten significant digits
    prec = int(re.match(r"%\d*\.(\d+)E", sf["ffmt"]).group(1))
    rep.ob("R3", "float format carries ten significant digits (one before and nine after the point)", prec == 9, sf["f2s"].site(), sf["ffmt"], key="tokens/precision")
    # (a) single tokens
    bad = []
    for tok, v in ft + it:
        got = tokenise(pat, tok)
        if len(got) != 1 or type(got[0]) is not type(v) or (got[0] != v and not (abs(got[0] - v) <= 1e-9 * abs(v))):
            bad.append((tok, got))
    rep.ob("R3", "every writer token shape (%d float, %d int classes) is read back as one value of the same kind" % (len(ft), len(it)), not bad, sf["nv"].site(), "failing: %s" % bad[:3], key="tokens/single")
    # (b) all ordered concatenations of up to three tokens, no separator (abutting) - ChunkOutput adds none
    toks = ft + it
    n_checked = 0
    bad = []
    for combo in itertools.product(toks, repeat=2):
        text = "".join(t for t, _ in combo)
        got = tokenise(pat, text)
        n_checked += 1
        want = [v for _, v in combo]
        if len(got) != len(want) or any(type(g) is not type(w) or (g != w and not abs(g - w) <= 1e-9 * abs(w)) for g, w in zip(got, want)):
            bad.append((text, got))
    if thorough:
        for combo in itertools.product(toks[::3], repeat=3):
            text = "".join(t for t, _ in combo)
            got = tokenise(pat, text)
            n_checked += 1
            want = [v for _, v in combo]
            if len(got) != len(want) or any(type(g) is not type(w) or (g != w and not abs(g - w) <= 1e-9 * abs(w)) for g, w in zip(got, want)):
                bad.append((text, got))
    rep.ob("R3", "every concatenation of writer tokens (%d combinations of shape classes, abutting negatives included) tokenises back to the same values" % n_checked, not bad, sf["nv"].site(),
           "failing: %s" % bad[:2], key="tokens/concatenation")
    # (c) chunking: newline only after a complete token
    co = sf["co"]
    from ..stores import effects
    meths = {q.split(".")[-1]: g.node for q, g in mod.funcs.items() if q.startswith("ChunkOutput.") and q.count(".") == 1}
    tail = []
    for e in effects(co.node, inline=False, methods=meths):
        cs = [T(mod, c) for c in e.conds if not isinstance(c, str)]
        if cs and cs[0] == K("isinstance(value, list)"):
            continue  # the list arm writes element by element through this same method
        cs = [c for c in cs if c != K("not isinstance(value, list)")]
        tail.append((e.kind, T(mod, e.target) if e.target is not None else None, T(mod, e.value) if e.value is not None else None, tuple(cs)))
    full = (K("self.counter==self.chunk"),)
    ok = tail[-3:] == [("augstore", "self.counter", "1", ()), ("call", None, K('self.fh.write("\\n")'), full), ("store", "self.counter", "0", full)] and sf["chunk"] == 5 \
        and not any(k == "call" and v == K('self.fh.write("\\n")') for k, t_, v, c in tail[:-3])
    rep.ob("R3", "a newline is written only after a complete token, every 5 values", ok, co.site(), "", key="tokens/chunking")
    # reader iterates lines: tokens never span lines (previous rule) and empty lines yield nothing
    nv = sf["nv"]
    ok = any(isinstance(n, ast.For) and T(mod, n.iter) == "fh" for n in ast.walk(nv.node))
    rep.ob("R3", "reader processes the file line by line", ok, nv.site(), "", key="tokens/lines")
    # (d) fixed-width integer fields: header {4:4d}{5:4d}{6:4d} with split(); counts {0:5d}{1:5d} with the regex
    gm = prog.module(GEQ)
    w = gm.funcs.get("write")
    hdr_fmt = None
    cnt_fmt = None
    for n in ast.walk(w.node):
        if isinstance(n, ast.Call) and isinstance(n.func, ast.Attribute) and n.func.attr == "format" and isinstance(n.func.value, ast.Constant):
            s = n.func.value.value
            if K("{6:") in s:
                hdr_fmt = s
            elif s.count(K("{")) == 2 and K("d}") in s and K("\n") in s:
                cnt_fmt = s
    if hdr_fmt is None or cnt_fmt is None:
        raise AnalysisError("header / counts format strings not found")
    for digits in (1, 2, 3, 4, 5):
        v = 10 ** (digits - 1) + (3 if digits > 1 else 0)
        line = hdr_fmt.format("FREEGS", "01/01/2000", "# 0", "  0ms", 3, v, v)
        words = line.split()
        try:
            got = (int(words[-3]), int(words[-2]), int(words[-1]))
        except (ValueError, IndexError):
            got = None
        rep.ob("R3", "header integers stay separable by split() when nx, ny have %d digits" % digits, got == (3, v, v), w.site(),
               "header %r -> %s" % (line[-16:], got), key="tokens/header/%d-digits" % digits)
        line = cnt_fmt.format(v, v)
        got = tokenise(pat, line)
        rep.ob("R3", "boundary/limiter counts stay separable by the reader when they have %d digits" % digits, got == [v, v], w.site(), "line %r -> %s" % (line, got), key="tokens/counts/%d-digits" % digits)
    # label / shot / time header variants never put digits right before the integer fields
    for label, shot, time in (("FREEGS", "# 0", "  0ms"), ("ABCDEFGHIJKL", "# 123456", "  1234ms"), ("x", "#99", "0ms")):
        line = hdr_fmt.format(label, "01/01/2000", shot, time, 3, 65, 129)
        words = line.split()
        got = (int(words[-3]), int(words[-2]), int(words[-1])) if len(words) >= 3 else None
        rep.ob("R3", "header variant (label %r, shot %r, time %r) leaves idum, nx, ny as the last three words" % (label, shot, time), got == (3, 65, 129), w.site(), repr(line), key="tokens/header-variant/%s" % label)


class LinEx(Extractor):
    def on_subscript(self, node, value, env):
        return self.ctx.sym(T(self.module, node))

    def on_name(self, name, env):
        return self.ctx.sym(name)


def _wall_rule(mod, f):
    """wall = pairs (rlim[i], zlim[i]) when both are present, else None; accepted spellings:
    if/else, default None + if, negated test; list(zip(..)) or a comprehension over zip(..)"""
    stores = [s for s in walk_own(f.node) if isinstance(s, ast.Assign) and isinstance(s.targets[0], ast.Name) and s.targets[0].id == "wall"]
    none_stores = [s for s in stores if isinstance(s.value, ast.Constant) and s.value.value is None]
    val_stores = [s for s in stores if s not in none_stores]
    if len(val_stores) != 1 or len(none_stores) != 1:
        return False
    v = val_stores[0].value
    zips = [c for c in ast.walk(v) if isinstance(c, ast.Call) and _dotted(c.func) == "zip" and [T(mod, a) for a in c.args] == [K('data["rlim"]'), K('data["zlim"]')]]
    if len(zips) != 1:
        return False
    if isinstance(v, ast.ListComp):
        tg = v.generators[0].target
        if not (isinstance(tg, ast.Tuple) and len(tg.elts) == 2 and isinstance(v.elt, ast.Tuple) and [T(mod, e) for e in v.elt.elts] == [T(mod, e) for e in tg.elts] and not v.generators[0].ifs):
            return False
    elif not (isinstance(v, ast.Call) and _dotted(v.func) == "list" and v.args and v.args[0] is zips[0]):
        return False
    # the value store is guarded by both presence tests (directly or as the else arm of the negation)
    present = {K('"rlim" in data'), K('"zlim" in data')}
    for n in ast.walk(f.node):
        if isinstance(n, ast.If):
            t = n.test
            parts = {T(mod, x) for x in t.values} if isinstance(t, ast.BoolOp) and isinstance(t.op, ast.And) else {T(mod, t)}
            if parts == present and val_stores[0] in n.body and (none_stores[0] in n.orelse or none_stores[0].lineno < n.lineno):
                return True
            absent = {K('"rlim" not in data'), K('"zlim" not in data')}
            parts_or = {T(mod, x) for x in t.values} if isinstance(t, ast.BoolOp) and isinstance(t.op, ast.Or) else set()
            neg = isinstance(t, ast.UnaryOp) and isinstance(t.op, ast.Not) and isinstance(t.operand, ast.BoolOp) and {T(mod, x) for x in t.operand.values} == present
            if (parts_or == absent or neg) and none_stores[0] in n.body and val_stores[0] in n.orelse:
                return True
    return False


def r4(prog, rep):
    mod = prog.module(TOK)
    f = mod.funcs.get("read_geqdsk")
    if f is None:
        raise AnalysisError("read_geqdsk not found")
    ctx = Context()
    ex = LinEx(ctx, mod)
    D = lambda k: ctx.sym(K('data["%s"]' % k))
    calls = {}
    for s in walk_own(f.node):
        if isinstance(s, ast.Assign) and isinstance(s.targets[0], ast.Name) and isinstance(s.value, ast.Call) and _dotted(s.value.func) in ("np.linspace", "numpy.linspace"):
            calls[s.targets[0].id] = s.value
        if isinstance(s, ast.Assign) and isinstance(s.targets[0], ast.Name) and s.targets[0].id in ("psi_bdry_gfile", "psi_axis_gfile"):
            ex.stmt(s, {})
    env = {"psi_bdry_gfile": D("sibdry"), "psi_axis_gfile": D("simagx")}
    want = {
        "R1D": (D("rleft"), D("rleft") + D("rdim"), D("nx")),
        "Z1D": (D("zmid") - D("zdim") / 2, D("zmid") + D("zdim") / 2, D("ny")),
        "psi1D": (D("simagx"), D("sibdry"), D("nx")),
    }
    for nm, (a, b, n) in want.items():
        c = calls.get(nm)
        ok = False
        detail = "linspace not found"
        if c is not None:
            try:
                from ..model import inline_temporaries
                va, vb, vn = [ex.expr(inline_temporaries(f.node, x), env) for x in c.args[:3]]
                ok = (va - a).is_zero() and (vb - b).is_zero() and (vn - n).is_zero()
                ep = [k for k in c.keywords if k.arg == "endpoint"]
                ok = ok and (not ep or (isinstance(ep[0].value, ast.Constant) and ep[0].value.value is True))
                detail = "linspace(%s, %s, %s)" % (va.show(), vb.show(), vn.show())
            except AlgError as e:
                detail = str(e)
        rep.ob("R4", "%s is the uniform grid the format defines" % nm, ok, f.site(c) if c is not None else f.site(), detail, key="axes/" + nm)
    src = T(mod, f.node)
    facts = {
        "psi2D is the file's psi array": K('psi2D=data["psi"]') in src,
        "the wall is the limiter contour zip(rlim, zlim), None when absent": _wall_rule(mod, f),
        "pressure and fpol profiles come from pres and fpol": K('pressure=data["pres"]') in src and K('fpol=data["fpol"]') in src,
        "the gfile axis/boundary psi are simagx and sibdry": K('psi_bdry_gfile=data["sibdry"]') in src and K('psi_axis_gfile=data["simagx"]') in src,
    }
    for k, ok in facts.items():
        rep.ob("R4", k, ok, f.site(), "", key="mapping/" + k)
    # constructor call passes the arrays in (R, Z, psi2D, psi1D, fpol) order with matching keywords
    init = [n for n in ast.walk(f.node) if isinstance(n, ast.Call) and T(mod, n.func) == "result.__init__"]
    ok = len(init) == 1 and [T(mod, a) for a in init[0].args] == ["R1D", "Z1D", "psi2D", "psi1D", "fpol"] and \
        {k.arg: T(mod, k.value) for k in init[0].keywords}.items() >= {"psi_bdry_gfile": "psi_bdry_gfile", "psi_axis_gfile": "psi_axis_gfile", "pressure": "pressure", "wall": "wall"}.items()
    rep.ob("R4", "TokamakEquilibrium is constructed with (R1D, Z1D, psi2D, psi1D, fpol) and the matching keywords", ok, f.site(), "", key="mapping/constructor")
    ctor = mod.funcs.get("TokamakEquilibrium.__init__")
    ok = [a.arg for a in ctor.node.args.args[1:6]] == ["R1D", "Z1D", "psi2D", "psi1D", "fpol1D"]
    rep.ob("R4", "constructor positional order is (R1D, Z1D, psi2D, psi1D, fpol1D)", ok, ctor.site(), "", key="mapping/ctor-signature")
    # (R, Z) order into the interpolants: spline takes psi2D[R, Z] as is; DCT transposes once (checked in C18.R2)
    calls = [n for n in walk_own(ctor.node) if isinstance(n, ast.Call) and T(mod, n.func) == "self.magneticFunctionsFromGrid"]
    ok = len(calls) == 1 and [T(mod, a) for a in calls[0].args[:3]] == ["R1D", "Z1D", "psi2D"]
    rep.ob("R4", "the interpolant builder receives (R1D, Z1D, psi2D) with psi2D indexed [R, Z]", ok, ctor.site(), "", key="mapping/interpolant-args")
    eqm = prog.module("hypnotoad/core/equilibrium.py")
    b = eqm.funcs.get("Equilibrium.magneticFunctionsFromGrid")
    src = T(eqm, b.node)
    ok = K("self.psi_func=interpolate.RectBivariateSpline(R,Z,psiRZ)") in src and K("self._dct=DCT_2D(R,Z,psiRZ)") in src
    rep.ob("R4", "both interpolants are built from (R, Z, psiRZ) in that order", ok, b.site(), "", key="mapping/interpolant-build")
