"""C12 a valid grid or an explicit error; shipped inputs are accepted (tables, guards, E4b).

R1 every documented grid-file variable is written by the writer.
R2 run-time guards exist, raise, follow the definition of what they guard and (for the
   positivity/monotonicity ones) are NaN-safe.
R3 every command-line entry point that builds a mesh rejects unknown options before
   generation, and accepts the keys it reads itself.
R4 shipped option files use only keys their entry point accepts, with values of the
   declared type / allowed set; expression defaults reference existing options.
R6 every 2-D field handed to the writer has computed data at every location it is written
   at (no silent zeros, no division by never-assigned spacings).
Not decided: finiteness/positivity of the numbers; that the examples' numerics succeed.
"""
import ast
import glob
import os
import re

import yaml

from ..model import inline_temporaries
from ..model import Program, walk_own, is_self_attr, dotted, repo_root
from ..options import Schemas
from ..report import AnalysisError
from .. import locsets
from ..model import key_in, canon as K

TOK = "hypnotoad/cases/tokamak.py"
MESH = "hypnotoad/core/mesh.py"
EQ = "hypnotoad/core/equilibrium.py"


def run(rep, tier):
    prog = Program()
    rep.rule("R1", "documented variables are written")
    rep.rule("R2", "guards: raise, placed after the definition they guard, NaN-safe form")
    rep.rule("R3", "CLI entry points reject unknown options before generation")
    rep.rule("R4", "shipped option files agree with the option schema of their entry point")
    rep.rule("R5", "a numeric option for which 0 is a valid value is compared with None, never tested for truthiness (0 must not act as 'unset')")
    rep.rule("R6", "written fields have computed data at every written location")
    r1(prog, rep)
    r2(prog, rep)
    sch = Schemas(prog)
    r3(prog, rep, sch)
    r4(prog, rep, sch)
    r5(prog, rep, sch)
    r6(prog, rep)
    # which X-points the grid topology accounts for (a null inside the gridded range that is
    # dropped gives a malformed grid without any error): rule instances of C19.R4
    from ..report import Premise
    from . import c19
    rep.rule("R7", "premise: X-point selection and topology choice (C19.R4)")
    # finite chi on closed field lines, NaN elsewhere: the NaN ranges are y-subscripts of with-guard
    # arrays built from the topology integers (rule instances of C08.R5/R6)
    rep.rule("R8", "premise: y-subscripts of with-guard arrays (chi NaN ranges, theta offsets) land on region boundaries of the with-guard grid (C08.R5/R6)")
    from . import c08 as _c08
    from .. import tables as _tables
    _topos = _tables.all_topologies(prog) + [_c08.torpex_topology(prog)] + _c08.circular_topologies(prog)
    _c08.r5_r6(prog, Premise(rep, "R8", "C08"), _topos)
    nan_clamp_rules(prog, rep)
    c19.r4(prog, Premise(rep, "R7", "C19"))
    # the container the location-set analysis (R6) reasons about
    from . import c18
    c18.mla_rules(prog, Premise(rep, "R6", "C18"), "R3")
    rep.undecided("finiteness and positivity of written values; success of the numerics on the shipped examples")
    return __doc__


def r5(prog, rep, sch):
    types, nonzero = {}, {}
    for fac in sch.factories.values():
        for k, o in fac.items():
            types.setdefault(k, set()).update(o.value_types() or [])
            nonzero.setdefault(k, []).append("is_positive" in o.checks())
    numeric = {k for k, t in types.items() if ({"float", "int"} & t) and "bool" not in t and not all(nonzero[k])}
    rep.analysed_add("numeric options admitting 0", sorted(numeric))
    bad = []
    n_sites = 0
    for m in prog.modules.values():
        for n in ast.walk(m.tree):
            roots = []
            if isinstance(n, (ast.If, ast.While, ast.IfExp, ast.Assert)):
                roots.append(n.test)
            elif isinstance(n, ast.BoolOp) and isinstance(n.op, ast.Or):
                roots.extend(n.values[:-1])  # `opt or default`
            for t in roots:
                stack = [t]
                while stack:
                    x = stack.pop()
                    if isinstance(x, ast.BoolOp):
                        stack.extend(x.values)
                    elif isinstance(x, ast.UnaryOp) and isinstance(x.op, ast.Not):
                        stack.append(x.operand)
                    elif isinstance(x, ast.Attribute) and isinstance(x.value, ast.Attribute) and x.value.attr.endswith("options"):
                        n_sites += 1
                        if x.attr in numeric:
                            bad.append((m, x, t))
    seen = set()
    for m, x, t in bad:
        key = "%s/%s" % (m.rel, x.attr)
        if key in seen:
            continue
        seen.add(key)
        rep.ob("R5", "option %s is not tested for truthiness" % x.attr, False, "%s:%d" % (m.rel, x.lineno), "test `%s`: a value of 0 would be treated as unset" % m.code(t)[:100], key="truthiness/" + key)
    rep.ob("R5", "no numeric option that admits 0 is tested for truthiness (%d option truth tests examined, %d numeric options)" % (n_sites, len(numeric)), not bad, "", "", key="truthiness/all")
    rep.floor("R5.numeric-options", len(numeric), 40)


# ---------------------------------------------------------------------------------
def documented_variables(root):
    out = {}
    for rel in ("doc/grid-file.rst", "doc/provenance-tracking.rst"):
        p = os.path.join(root, rel)
        if not os.path.exists(p):
            raise AnalysisError("%s not found" % rel)
        lines = open(p).read().split("\n")
        i = 0
        while i < len(lines):
            m = re.match(r"^\s*\* - (.*)$", lines[i])
            if m:
                key = m.group(1)
                j = i + 1
                while j < len(lines) and lines[j].strip() and not re.match(r"^\s*- ", lines[j]):
                    key += " " + lines[j].strip()
                    j += 1
                for name in re.findall(r"``([^`]+)``", key):
                    out.setdefault(name, "%s:%d" % (rel, i + 1))
                i = j
            else:
                i += 1
    return out


def nan_clamp_rules(prog, rep):
    """Mesh.smoothnl normalises each difference array by its mean, 0.5*m/mean(m), and clamps the
    result at 1.  For a field that is identically zero (curl_bOverB_x, bxcvx, ... when Bt = 0, as in
    the shipped analytic examples) that is 0/0 = NaN: the clamp is what keeps NaN out of the
    smoothed field, so it has to be NaN-absorbing: numpy.where(v < 1.0, v, 1.0) (a comparison with
    NaN is false) or numpy.fmin(v, 1.0).  numpy.minimum / numpy.clip propagate NaN."""
    rep.rule("R9", "clamps that stand between a 0/0 and a written field absorb NaN")
    f = prog.func(MESH, "Mesh.smoothnl")
    mod = f.module
    n = 0
    for st in ast.walk(f.node):
        if not (isinstance(st, ast.Assign) and isinstance(st.targets[0], ast.Name) and st.targets[0].id.startswith("this_mark") and isinstance(st.value, ast.Call)):
            continue
        fn = mod.code(st.value.func)
        if fn not in ("numpy.where", "numpy.minimum", "numpy.fmin", "numpy.clip", "min", "numpy.nan_to_num"):
            continue
        n += 1
        v = st.targets[0].id
        t = mod.code(st.value)
        ok = t in (K("numpy.where(%s < 1.0, %s, 1.0)" % (v, v)), K("numpy.fmin(%s, 1.0)" % v), K("numpy.fmin(1.0, %s)" % v), K("numpy.where(%s < 1, %s, 1)" % (v, v)))
        rep.ob("R9", "smoothnl: the clamp of `%s` at 1 maps a NaN (0/0 for an identically zero field) to 1" % v, ok, f.site(st),
               "" if ok else "definite: `%s` propagates NaN into the smoothed field" % t[:60], key="nan-clamp/%s/%d" % (v, sum(1 for x in ast.walk(f.node) if isinstance(x, ast.Assign) and x.lineno < st.lineno and isinstance(x.targets[0], ast.Name) and x.targets[0].id == v and isinstance(x.value, ast.Call))))
    rep.floor("R9.clamps", n, 8)


def written_variables(prog):
    mm = prog.module(MESH)
    w = mm.funcs.get("BoutMesh.writeGridfile")
    geo = mm.funcs.get("BoutMesh.geometry")
    if w is None or geo is None:
        raise AnalysisError("writer methods not found")
    names = {}

    from ..stores import effects, Marker

    def suffixes(method, param_idx=1):
        f = mm.funcs.get("BoutMesh." + method)
        if f is None:
            raise AnalysisError("BoutMesh.%s not found" % method)
        pname = f.node.args.args[param_idx].arg
        out = []
        for e in effects(f.node, consts=True):
            c = e.value
            if e.kind == "call" and isinstance(c.func, ast.Attribute) and c.func.attr == "write" and c.args:
                a = c.args[0]
                if isinstance(a, ast.Name) and a.id == pname:
                    out.append("")
                elif isinstance(a, ast.BinOp) and isinstance(a.left, ast.Name) and a.left.id == pname and isinstance(a.right, ast.Constant):
                    out.append(a.right.value)
                else:
                    raise AnalysisError("BoutMesh.%s writes under a name that is not `%s` + literal (unmodelled): %s" % (method, pname, mm.text(a)))
        return out

    suf = {m: suffixes(m) for m in ("writeArray", "writeCorners", "writeArrayXDirection")}
    lists = {"fields_to_output": [], "arrayXDirection_to_output": []}
    collectors = {}
    for g in [x for x in ast.walk(geo.node) if isinstance(x, ast.FunctionDef) and x is not geo.node]:
        for c in ast.walk(g):
            if isinstance(c, ast.Call) and isinstance(c.func, ast.Attribute) and c.func.attr == "append" and isinstance(c.func.value, ast.Attribute) and c.func.value.attr in lists:
                collectors[g.name] = c.func.value.attr
    for e in effects(geo.node, consts=True):
        c = e.value
        if e.kind == "call" and isinstance(c.func, ast.Name) and c.func.id in collectors and c.args and isinstance(c.args[0], ast.Constant):
            lists[collectors[c.func.id]].append((c.args[0].value, e.node.lineno))
    for e in effects(w.node, consts=True):
        n = e.value
        if e.kind != "call" or not isinstance(n.func, ast.Attribute):
            continue
        ln = e.node.lineno
        if n.func.attr == "write" and n.args and isinstance(n.args[0], ast.Constant) and dotted(n.func.value) == "f":
            names[n.args[0].value] = "f.write at line %d" % ln
        elif dotted(n.func) in ("self.writeArray", "self.writeCorners", "self.writeArrayXDirection") and n.args:
            meth = n.func.attr
            a = n.args[0]
            if isinstance(a, ast.Constant):
                for s in suf[meth]:
                    names[a.value + s] = "%s at line %d" % (meth, ln)
            elif isinstance(a, ast.Name):
                loop = next((c for c in reversed(e.conds) if isinstance(c, Marker) and isinstance(c.target, ast.Name) and c.target.id == a.id), None)
                if loop is None:
                    raise AnalysisError("writer call with non-constant name outside a loop at line %d" % ln)
                if isinstance(loop.iter, ast.Attribute) and loop.iter.attr in lists:
                    base = lists[loop.iter.attr]
                else:
                    raise AnalysisError("writer loop over %s not understood" % mm.text(loop.iter))
                for nm, l2 in base:
                    for s in suf[meth]:
                        names[nm + s] = "%s of %s (line %d)" % (meth, nm, l2)
    return names, lists


def r1(prog, rep):
    doc = documented_variables(prog.root)
    written, lists = written_variables(prog)
    rep.analysed_add("documented variables", sorted(doc))
    rep.analysed_add("written variables", sorted(written))
    twoD = {n for n, _ in lists["fields_to_output"]}
    n = 0
    for name, where in sorted(doc.items()):
        if name in ("y", "dy") and name == "y":
            continue  # prose, not a variable
        if name.startswith("hypnotoad-") or name.endswith("()"):
            continue  # a command / function name in prose
        n += 1
        rep.ob("R1", "documented variable %s is written to the grid file" % name, name in written, where, written.get(name, "no f.write / writeArray emits this name"), key="doc/" + name)
        if name in twoD:
            for s in ("_xlow", "_ylow"):
                rep.ob("R1", "2-D field %s is also written at %s (documented convention)" % (name, s), name + s in written, where, "", key="doc/%s%s" % (name, s))
    rep.floor("R1.documented", n, 50)


# ---------------------------------------------------------------------------------
def _raising(node):
    """statement list always raises: a top-level raise (anything after it is dead)"""
    return any(isinstance(s, ast.Raise) for s in node)


_EFFECTS_CACHE = {}


def _tok_in(tok, t):
    """a token, or a tuple of alternative spellings of it, occurs in the text"""
    return any(key_in(x, t) for x in tok) if isinstance(tok, tuple) else key_in(tok, t)


def _find_guards(mod, f, tokens):
    """`if <test>: raise`; or `if <X>: ... else: raise` read as the guard `not <X>`; or
    `if <X>: return` followed by an unconditional raise in the same block (guard `not <X>`).
    Temporaries assigned once are seen through (`bad = a < b; if numpy.any(bad): raise`)."""
    from ..model import inline_temporaries
    out = []

    class _Diff(ast.NodeTransformer):
        # numpy.diff(E) along the only axis is E[1:] - E[:-1]
        def visit_Call(self, n):
            self.generic_visit(n)
            if mod.code(n.func) == "numpy.diff" and len(n.args) == 1 and not n.keywords:
                e = n.args[0]
                sl = lambda lo, hi: ast.Subscript(value=e, slice=ast.Slice(lower=lo, upper=hi, step=None), ctx=ast.Load())
                return ast.BinOp(left=sl(ast.Constant(value=1), None), op=ast.Sub(), right=sl(None, ast.UnaryOp(op=ast.USub(), operand=ast.Constant(value=1))))
            return n

    def text(test):
        # the test as written; with once-assigned temporaries seen through; and with temporaries
        # bound to calls seen through as well and numpy.diff spelled as a difference of slices
        import copy
        deep = _Diff().visit(copy.deepcopy(inline_temporaries(f.node, test, inline_calls=True)))
        return mod.code(test) + " || " + mod.code(inline_temporaries(f.node, test)) + " || " + mod.code(ast.fix_missing_locations(deep))

    for n in ast.walk(f.node):
        if isinstance(n, ast.If) and _raising(n.body):
            t = text(n.test)
            if all(_tok_in(tok, t) for tok in tokens):
                out.append(n)
        elif isinstance(n, ast.If) and n.orelse and _raising(n.orelse) and not (len(n.orelse) == 1 and isinstance(n.orelse[0], ast.If)):
            t = text(n.test)
            if any(all(_tok_in(tok, v) for tok in tokens) for v in _negations(t)):
                out.append(n)
    # the same through the control-flow-normalised view (guards written as a loop over a
    # literal table, guard clauses, temporaries): a raise whose innermost condition has the tokens
    from ..stores import effects
    import copy
    for calls in (False, True):
        ck = (id(f.node), calls)
        if ck not in _EFFECTS_CACHE:
            _EFFECTS_CACHE[ck] = effects(f.node, calls=calls)
        for e in _EFFECTS_CACHE[ck]:
            if e.kind == "raise" and e.conds and not isinstance(e.conds[-1], str) and e.ifs[-1] is not None:
                c = e.conds[-1]
                t = mod.code(c) + " || " + mod.code(ast.fix_missing_locations(_Diff().visit(copy.deepcopy(c))))
                if all(_tok_in(tok, t) for tok in tokens) and e.ifs[-1] not in out:
                    out.append(e.ifs[-1])
    for b in _blocks_of(f.node):
        for i, n in enumerate(b):
            if isinstance(n, ast.If) and not n.orelse and len(n.body) == 1 and isinstance(n.body[0], ast.Return) and n.body[0].value is None \
                    and any(isinstance(x, ast.Raise) for x in b[i + 1:]):
                t = text(n.test)
                if any(all(_tok_in(tok, v) for tok in tokens) for v in _negations(t)) and n not in out:
                    out.append(n)
    return out


def _negations(t):
    parts = t.split(" || ")
    return ["not" + p + " || " + "not(" + p + ")" for p in parts] + [" || ".join("not" + p for p in parts), " || ".join("not(" + p + ")" for p in parts)]


def _blocks_of(root):
    for n in ast.walk(root):
        for fld in ("body", "orelse", "finalbody"):
            b = getattr(n, fld, None)
            if isinstance(b, list) and b and isinstance(b[0], ast.stmt):
                yield b


def _preceding(f, node):
    """statements that precede `node` on the straight line, at its own nesting level and
    at the level of every enclosing compound statement (innermost last)"""
    parent = {}
    for n in ast.walk(f.node):
        for fld in ("body", "orelse", "finalbody"):
            b = getattr(n, fld, None)
            if isinstance(b, list):
                for st in b:
                    parent[st] = (n, b)
    out = []
    cur = node
    while cur in parent:
        p, b = parent[cur]
        out = b[: b.index(cur)] + out
        if p is f.node:
            break
        cur = p
    return out


def _own_returns(s):
    """return statements in s, not counting nested function definitions"""
    stack = [] if isinstance(s, (ast.FunctionDef, ast.ClassDef)) else [s]
    while stack:
        n = stack.pop()
        if isinstance(n, ast.Return):
            yield n
        for ch in ast.iter_child_nodes(n):
            if not isinstance(ch, (ast.FunctionDef, ast.Lambda, ast.ClassDef)):
                stack.append(ch)


GUARDS = [
    # (file, function, label, tokens in the test, defining token that must precede on the same block, NaN-safe required)
    (MESH, "MeshRegion.calcHy", "hy.centre > 0", ["hy.centre > 0.0"], "hy /= self.dy", True),
    (MESH, "MeshRegion.calcHy", "hy.xlow > 0", ["hy.xlow > 0.0"], "hy /= self.dy", True),
    (MESH, "MeshRegion.calcHy", "hy.ylow > 0", ["hy.ylow > 0.0"], "hy /= self.dy", True),
    (MESH, "MeshRegion.calcHy", "hy.corners > 0", ["hy.corners > 0.0"], "hy /= self.dy", True),
    (MESH, "MeshRegion.calcMetric", "Jacobian check at centre", ["check.centre"], "check =", True),
    (MESH, "MeshRegion.calcMetric", "Jacobian check at ylow", ["check.ylow"], "check =", True),
    (MESH, "MeshRegion.calcMetric", "Jacobian check at xlow", ["check.xlow"], None, True),
    (MESH, "MeshRegion.calcMetric", "Jacobian check at corners", ["check.corners"], None, True),
    (EQ, "PsiContour.get_distance", "contour distance strictly increasing",
     [("d[1:]-d[:-1]>0.0", "numpy.array(self._distance)[1:]-numpy.array(self._distance)[:-1]>0.0")], "self._distance =", True),
    (EQ, "Equilibrium.make1dGrid", "1-D grid strictly monotonic", ["diffs>0.0", "diffs<0.0"], "diffs =", True),
    (EQ, "Equilibrium.makeConnection", "upper edge not already connected", ['["upper"]isnotNone'], None, False),
    (EQ, "Equilibrium.makeConnection", "lower edge not already connected", ['["lower"]isnotNone'], None, False),
    (EQ, "Equilibrium.makeConnection", "nx equal across a connection", ["nx[lowerSegment]!=uRegion.nx[upperSegment]"], None, False),
    (MESH, "Mesh.__init__", "equilibrium and mesh options consistent", ["self.equilibrium.user_options[key]!=self.user_options[key]"], "self.user_options =", False),
    (MESH, "BoutMesh.__init__", "all regions have the same nx list", [".nx==eq_region0.nx"], None, False),
    (MESH, "BoutMesh.__init__", "all segments of a region have the same ny", ["region.ny(", ")==this_ny"], "this_ny =", False),
    (MESH, "MeshRegion.geometry1", "Bp sign consistent (negative Bp)", ["self.bpsign>0.0"], None, False),
    (MESH, "MeshRegion.geometry1", "Bp sign consistent (positive Bp)", ["self.bpsign<0.0"], None, False),
    (MESH, "MeshRegion.calcMetric", "shiftedmetric=False refused", ["notself.user_options.shiftedmetric"], None, False),
    (MESH, "Mesh.redistributePoints", "orthogonal mesh refused", ["self.user_options.orthogonal"], None, False),
    (EQ, "EquilibriumRegion._checkMonotonic", "spacing function non-decreasing", ["scheck[1:]<scheck[:-1]"], "scheck =", False),
    (TOK, "TokamakEquilibrium.describeDoubleNull", "connected double null refused when the second X-point lies beyond the first outer-SOL surface",
     ['segments["outer_sol"]["psi_vals"][1]', "self.psi_sep[1]"], "segments = self.segmentsWithPsivals(segments)", False),
    (TOK, "TokamakEquilibrium.describeDoubleNull", "connected double null refused when the second X-point lies beyond the first inner-SOL surface",
     ['segments["inner_sol"]["psi_vals"][1]', "self.psi_sep[1]"], "segments = self.segmentsWithPsivals(segments)", False),
]


def r2(prog, rep):
    n = 0
    for rel, qn, label, tokens, deftok, nan_safe in GUARDS:
        f = prog.func(rel, qn)
        mod = f.module
        gs = _find_guards(mod, f, tokens)
        n += 1
        if not gs:
            rep.ob("R2", "%s: guard `%s` exists and raises" % (qn, label), False, f.site(), "no `if ...: raise` with test containing %s" % tokens, key="guard/%s/%s" % (qn, label))
            continue
        g = gs[0]
        ok = True
        detail = []
        t = mod.code(g.test)
        if nan_safe:
            # NaN-safe: the raise is taken unless the comparison holds everywhere: `not numpy.all(x > 0)` / `not (all(..) or all(..))`
            safe = t.startswith("not") and "numpy.all(" in t and "numpy.any(" not in t
            ok = ok and safe
            detail.append("NaN-safe form" if safe else "NaN-blind form: %s" % t[:80])
        if deftok is not None:
            before = _preceding(f, g)
            texts = [mod.code(s) for s in before]
            d = K(deftok)
            pos = [i for i, x in enumerate(texts) if x.startswith(d) or d in x[: len(d) + 5]]
            okd = bool(pos)
            ok = ok and okd
            detail.append("follows `%s`" % deftok if okd else "definition `%s` not found before the guard in the same block" % deftok)
            # nothing between the definition and the guard returns
            if okd:
                between = before[pos[-1] + 1:]
                if any(True for s in between for x in _own_returns(s)):
                    ok = False
                    detail.append("a return lies between definition and guard")
        rep.ob("R2", "%s: guard `%s` raises%s" % (qn, label, ", NaN-safe, after the guarded definition" if nan_safe or deftok else ""), ok, f.site(g), "; ".join(detail), key="guard/%s/%s" % (qn, label))
    rep.floor("R2.guards", n, 20)
    # a guard written twice in one block stands where a different guard was meant
    from .. import redundancy
    HARMLESS = {
        ("MeshRegion.calcHy", K("not numpy.all(hy.xlow > 0.0)")): "second, terser copy; all four locations are guarded above (R2 instances hy.* > 0)",
        ("MeshRegion.calcHy", K("not numpy.all(hy.ylow > 0.0)")): "as for xlow",
        ("MeshRegion.calcHy", K("not numpy.all(hy.corners > 0.0)")): "as for xlow",
    }
    dups = []
    nfun = 0
    for f in prog.all_funcs():
        nfun += 1
        for a, b, t in redundancy.duplicate_guards(f):
            if (f.qualname, t) in HARMLESS:
                continue
            dups.append((f, a, b, t))
            rep.ob("R2", "%s: guard `%s` is not repeated in the same block" % (f.qualname, t[:60]), False, f.site(b),
                   "same test as the guard at line %d: the second can never fire, so the condition that was meant is not checked" % a.lineno, key="guard/duplicate/%s/%s" % (f.qualname, t[:60]))
    rep.ob("R2", "no raising guard is written twice in one block (%d functions scanned, %d listed harmless repeats)" % (nfun, len(HARMLESS)), not dups, "", "", key="guard/duplicate/none")
    # unknown topologies raise in the writer
    w = prog.func(MESH, "BoutMesh.writeGridfile")
    chains = _len_chains(w)
    xs = chains.get("len(self.x_startinds)")
    ys = chains.get("len(self.y_regions_noguards)")
    rep.ob("R2", "writer refuses unsupported topology: more than two separatrices", xs is not None and _raising(xs[1]) and set(xs[0]) == {2, 3, 4}, w.site(),
           "arms %s, else raises: %s" % (sorted(xs[0]), _raising(xs[1])) if xs else "dispatch on len(self.x_startinds) not found", key="guard/writer/more than two separatrices")
    for k in (2, 5):
        rep.ob("R2", "writer refuses unsupported topology: %d y-regions" % k, ys is not None and k in ys[0] and _raising(ys[0][k]), w.site(),
               "" if ys else "dispatch on len(self.y_regions_noguards) not found", key="guard/writer/%d y-regions" % k)
    # perpendicular follower: iteration cap raises unless recover
    fp = prog.func(MESH, "followPerpendicular")
    handlers = [h for n_ in ast.walk(fp.node) if isinstance(n_, ast.Try) for h in n_.handlers if h.type is not None and "MaxIter" in fp.module.text(h.type)]
    ok = False
    if handlers:
        h = handlers[0]
        ifs = [x for x in h.body if isinstance(x, ast.If)]
        if ifs:
            i0 = ifs[0]
            t = fp.module.code(i0.test)
            after = h.body[h.body.index(i0) + 1:]
            ok = (t == "recover" and (_raising(i0.orelse) or (i0.body and isinstance(i0.body[-1], ast.Return) and not i0.orelse and _raising(after)))) \
                or (t in ("notrecover", "not(recover)") and _raising(i0.body))
    rep.ob("R2", "perpendicular follower re-raises the iteration-cap exception unless `recover`", ok, fp.site(), "", key="guard/followPerpendicular/maxits")
    inner = [x for x in ast.walk(fp.node) if isinstance(x, ast.FunctionDef) and x.name == "f"]
    ok = bool(inner) and any(isinstance(x, ast.If) and K("call_counter >= maxits") in fp.module.code(x.test) and _raising(x.body) for x in ast.walk(inner[0]))
    rep.ob("R2", "perpendicular follower counts right-hand-side calls and raises at maxits", ok, fp.site(), "", key="guard/followPerpendicular/counter")


def _len_chains(f):
    """dispatches of the form `<subject> == <int>`: subject text -> ({int: body}, final else body).
    Understood spellings: if/elif/else chains, nested ifs in else arms, and the guard-clause form
    of the last arm (`if not <subject> == k: raise` followed by the arm for k)."""
    out = {}
    mod = f.module
    seen = set()
    exits = lambda b: bool(b) and isinstance(b[-1], (ast.Return, ast.Raise, ast.Continue, ast.Break))

    def eq_int(t):
        if isinstance(t, ast.Compare) and len(t.ops) == 1 and isinstance(t.ops[0], ast.Eq) and isinstance(t.comparators[0], ast.Constant) and type(t.comparators[0].value) is int:
            left, k = inline_temporaries(f.node, t.left, inline_calls=True), t.comparators[0].value
            # S - c == k  /  S + c == k   is   S == k + c  /  S == k - c
            while isinstance(left, ast.BinOp) and isinstance(left.op, (ast.Add, ast.Sub)) and isinstance(left.right, ast.Constant) and type(left.right.value) is int:
                k = k + left.right.value if isinstance(left.op, ast.Sub) else k - left.right.value
                left = left.left
            return mod.code(left), k
        return None

    def chain(block, i, arms, subj):
        """continue a dispatch on `subj` at statement i of block; returns the final else body"""
        cur = block[i]
        t = cur.test
        e = eq_int(t)
        if e and (subj is None or e[0] == subj):
            seen.add(id(cur))
            arms[e[1]] = cur.body
            subj = e[0]
            if cur.orelse and isinstance(cur.orelse[0], ast.If):
                s2, rest = chain(cur.orelse, 0, arms, subj)
                return s2, rest
            return subj, cur.orelse
        neg = eq_int(t.operand) if isinstance(t, ast.UnaryOp) and isinstance(t.op, ast.Not) else None
        if neg and (subj is None or neg[0] == subj) and exits(cur.body):
            seen.add(id(cur))
            arms[neg[1]] = list(cur.orelse) if cur.orelse else list(block[i + 1:])
            return neg[0], cur.body
        return subj, list(block[i:])

    for blk in _blocks_of(f.node):
        for i, n in enumerate(blk):
            if not isinstance(n, ast.If) or id(n) in seen:
                continue
            arms = {}
            subj, rest = chain(blk, i, arms, None)
            if subj and len(arms) > 1 and subj not in out:
                out[subj] = (arms, rest)
    return out


# ---------------------------------------------------------------------------------
def script_info(script):
    """accepted factories, keys read by the script, whether an unknown-option raise exists
    before the first mesh/equilibrium construction"""
    main = script.funcs.get("main")
    if main is None:
        return None
    facs_seen = []
    uses_defaults = any(isinstance(n, ast.Attribute) and n.attr == "defaults" for n in ast.walk(main.node))
    for n in ast.walk(main.node):
        if isinstance(n, ast.Attribute) and n.attr.endswith("options_factory") and uses_defaults:
            d = dotted(n)
            if d:
                parts = d.split(".")
                if len(parts) >= 2 and parts[-2] + "." + parts[-1] not in facs_seen:
                    facs_seen.append(parts[-2] + "." + parts[-1])
    facs = facs_seen
    extra = set()
    # the list the unknown-option test compares with: `[.. for o in options if o not in <accepted>]`
    accepted_name = "possible_options"
    for n in ast.walk(main.node):
        if isinstance(n, ast.Compare) and len(n.ops) == 1 and isinstance(n.ops[0], ast.NotIn) and isinstance(n.comparators[0], ast.Name) \
                and any(isinstance(c, ast.comprehension) and n in c.ifs for c in ast.walk(main.node)):
            accepted_name = n.comparators[0].id
    # literal extra keys put into it (assignment, +=, .extend([...]), .append("..."))
    for n in ast.walk(main.node):
        if isinstance(n, ast.Assign) and isinstance(n.targets[0], ast.Name) and n.targets[0].id == accepted_name:
            for c in ast.walk(n.value):
                if isinstance(c, (ast.List, ast.Tuple)):
                    for e in c.elts:
                        if isinstance(e, ast.Constant) and isinstance(e.value, str):
                            extra.add(e.value)
        if isinstance(n, ast.AugAssign) and isinstance(n.target, ast.Name) and n.target.id == accepted_name:
            for e in ast.walk(n.value):
                if isinstance(e, ast.Constant) and isinstance(e.value, str):
                    extra.add(e.value)
        if isinstance(n, ast.Call) and isinstance(n.func, ast.Attribute) and n.func.attr in ("extend", "append") and isinstance(n.func.value, ast.Name) \
                and n.func.value.id == accepted_name and len(n.args) == 1:
            arg = n.args[0]
            for e in (arg.elts if isinstance(arg, (ast.List, ast.Tuple)) else [arg]):
                if isinstance(e, ast.Constant) and isinstance(e.value, str):
                    extra.add(e.value)
    reads = set()
    for n in ast.walk(main.node):
        if isinstance(n, ast.Call) and isinstance(n.func, ast.Attribute) and n.func.attr == "get" and isinstance(n.func.value, ast.Name) and n.func.value.id == "options" \
                and n.args and isinstance(n.args[0], ast.Constant):
            reads.add(n.args[0].value)
        if isinstance(n, ast.Subscript) and isinstance(n.value, ast.Name) and n.value.id == "options" and isinstance(n.slice, ast.Constant):
            reads.add(n.slice.value)
    # guard position
    guard = None
    build = None
    for i, s in enumerate(main.node.body):
        if isinstance(s, ast.If) and _raising(s.body) and "unused_options" in script.text(s.test):
            guard = i
        if build is None:
            for c in ast.walk(s):
                if isinstance(c, ast.Call):
                    d = dotted(c.func) or ""
                    if d.split(".")[-1] in ("BoutMesh", "Mesh", "createMesh", "read_geqdsk", "CircularEquilibrium", "TokamakEquilibrium", "TORPEXMagneticField"):
                        build = i
    unused_def = None
    for n in ast.walk(main.node):
        if isinstance(n, ast.Assign) and isinstance(n.targets[0], ast.Name) and n.targets[0].id == "unused_options":
            unused_def = script.code(n.value)
    return {"factories": facs, "extra": extra, "reads": reads, "guard": guard, "build": build, "unused_def": unused_def, "main": main}


def r3(prog, rep, sch):
    n = 0
    for rel, script in sorted(prog.modules.items()):
        if not rel.startswith("hypnotoad/scripts/"):
            continue
        info = script_info(script)
        if info is None or info["build"] is None:
            continue
        if not any(isinstance(c, ast.Attribute) and c.attr == "writeGridfile" for c in ast.walk(info["main"].node)):
            continue  # a utility that does not generate a grid
        n += 1
        name = os.path.basename(rel)
        ok = info["guard"] is not None and info["guard"] < info["build"] and info["unused_def"] == K("[opt for opt in options if opt not in possible_options]")
        rep.ob("R3", "%s rejects unknown options (raise) before building equilibrium or mesh" % name, ok, info["main"].site(),
               "no `if unused_options != []: raise` before the first construction" if not ok else "", key="cli/%s/unknown-check" % name)
        if info["guard"] is not None:
            accepted = set(info["extra"])
            for fac in info["factories"]:
                accepted |= set(sch.keys(fac))
            miss = sorted(info["reads"] - accepted)
            rep.ob("R3", "%s accepts every option key it reads itself" % name, not miss, info["main"].site(), "read but rejected: %s" % miss, key="cli/%s/own-keys" % name)
    rep.floor("R3.entry-points", n, 3)


YAML_ENTRY = [
    # (glob, entry script, section key or None, factories when the entry point has no check)
    ("geqdsk_*.yaml", "hypnotoad/scripts/hypnotoad_geqdsk.py", None),
    ("integrated_tests/*/*.yml", "hypnotoad/scripts/hypnotoad_geqdsk.py", None),
    ("examples/tokamak/*.yaml", "hypnotoad/scripts/hypnotoad_geqdsk.py", None),
    ("examples/torpex-xpoint/*.yaml", "hypnotoad/scripts/hypnotoad_torpex.py", "Mesh"),
]
TYPE_OK = {"float": (float, int), "int": (int,), "bool": (bool,), "str": (str,), "NoneType": (type(None),), "Sequence": (list, tuple), "list": (list,), "dict": (dict,)}


def r4(prog, rep, sch):
    nfiles = 0
    for pat, entry, section in YAML_ENTRY:
        script = prog.module(entry)
        info = script_info(script)
        if info["factories"]:
            facs = info["factories"]
        else:
            facs = ["TORPEXMagneticField.user_options_factory", "TORPEXMagneticField.nonorthogonal_options_factory", "BoutMesh.user_options_factory"]
        table = {}
        for fac in facs:
            table.update(sch.keys(fac))
        accepted = set(table) | set(info["extra"])
        for path in sorted(glob.glob(os.path.join(prog.root, pat))):
            rel = os.path.relpath(path, prog.root)
            with open(path) as fh:
                d = yaml.safe_load(fh) or {}
            if section:
                d = d.get(section, {})
            nfiles += 1
            unknown = sorted(k for k in d if k not in accepted)
            for k in unknown:
                rep.ob("R4", "%s: key %s is an option of %s" % (rel, k, os.path.basename(entry)), False, rel,
                       "not defined by %s" % ", ".join(facs), key="yaml/%s/%s" % (rel, k))
            rep.ob("R4", "%s: all %d keys are options of %s" % (rel, len(d), os.path.basename(entry)), not unknown, rel, "unknown: %s" % unknown, key="yaml/%s/all" % rel)
            for k, v in d.items():
                opt = table.get(k)
                if opt is None:
                    continue
                vt = opt.value_types()
                if vt:
                    pyt = tuple(t for name in vt for t in TYPE_OK.get(name.split(".")[-1], ()))
                    ok = isinstance(v, pyt) and not (isinstance(v, bool) and bool not in pyt and v in (True, False) and int not in pyt)
                    if isinstance(v, bool) and "bool" not in [x.split(".")[-1] for x in vt]:
                        ok = False
                    if not ok:
                        rep.ob("R4", "%s: value of %s has a declared type %s" % (rel, k, vt), False, rel, "value %r" % (v,), key="yaml/%s/%s/type" % (rel, k))
                al = opt.allowed()
                if al is not None and v not in al:
                    rep.ob("R4", "%s: value of %s is one of %s" % (rel, k, al), False, rel, "value %r" % (v,), key="yaml/%s/%s/allowed" % (rel, k))
    rep.floor("R4.files", nfiles, 12)
    # expression defaults reference existing options
    nexp = 0
    for fac, opts in sch.factories.items():
        for name, opt in opts.items():
            dnode = opt.default
            refs = set()
            if isinstance(dnode, ast.Lambda):
                p = dnode.args.args[0].arg if dnode.args.args else None
                for a in ast.walk(dnode.body):
                    if isinstance(a, ast.Attribute) and isinstance(a.value, ast.Name) and a.value.id == p:
                        refs.add(a.attr)
            elif isinstance(dnode, ast.Constant) and isinstance(dnode.value, str) and re.match(r"^[A-Za-z_][A-Za-z0-9_]*$", dnode.value) and dnode.value in _all_option_names(sch):
                refs.add(dnode.value)
            if refs and opt.owner == fac:
                nexp += 1
                miss = sorted(r for r in refs if r not in opts)
                rep.ob("R4", "%s: expression default of %s references existing options" % (fac, name), not miss, opt.module.rel, "missing: %s" % miss, key="default/%s/%s" % (fac, name))
    rep.floor("R4.expression-defaults", nexp, 10)


_names_cache = {}


def _all_option_names(sch):
    if "n" not in _names_cache:
        s = set()
        for opts in sch.factories.values():
            s |= set(opts)
        _names_cache["n"] = s
    return _names_cache["n"]


# ---------------------------------------------------------------------------------
def r6(prog, rep):
    wfields, wlocs = locsets.writer_requirements(prog)
    arms = [("orthogonal", lambda c: "not (self.user_options.orthogonal)" not in c),
            ("non-orthogonal", lambda c: True),
            ("orthogonal/xy-curvature", lambda c: True)]
    for arm, _ in arms:
        fields = []
        for name, cond, line in wfields:
            if "not self.user_options.shiftedmetric" in cond and "not (" not in cond:
                continue  # sinty: shiftedmetric=False is refused by the metric method
            fields.append(name)
        locsets.check_fields(prog, rep, "R6", fields, arms=(arm,), need=tuple(wlocs))
    # hthe is hy written again on orthogonal grids: covered by hy
    it, st, order = locsets.infer(prog, "orthogonal")
    for site, which, expr, nm in it.bad_refs:
        rep.ob("R6", "%s(%r) references an existing field" % (which, expr), False, site, "self.%s is not assigned before" % nm, key="badref/%s/%s" % (which, expr))
