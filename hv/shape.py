"""How far has a function moved from the tree the rule instances were confirmed on?

reference/shapes.json holds, per function, the multiset of its canonical statement texts
(hashes), computed on the normalised and de-renamed tree.  `distance` is the size of the
symmetric difference with today's function.  A single-site change moves one or two statements
(distance 1-4); a maintenance refactoring moves dozens.

Use (hv/report.py): a rule instance that fails inside a function whose distance exceeds
RESTRUCTURED is reported as an analysis error ("the function has been restructured since this
instance was confirmed; the rule can no longer be matched against it"), not as a violation:
the check says that it cannot decide, instead of claiming that the property is broken.
"""
import ast
import hashlib
import json
import os

from .model import walk_own, unparse

REF_FILE = os.path.join(os.path.dirname(os.path.dirname(os.path.abspath(__file__))), "reference", "shapes.json")
RESTRUCTURED = 10


def _h(text):
    return hashlib.md5("".join(text.split()).encode()).hexdigest()[:10]


def statements(fnode):
    """canonical texts of the simple statements and compound-statement headers of a function's own body"""
    out = []
    for n in walk_own(fnode):
        try:
            if isinstance(n, (ast.Assign, ast.AugAssign, ast.AnnAssign, ast.Expr, ast.Return, ast.Raise, ast.Assert, ast.Delete, ast.Pass, ast.Break, ast.Continue, ast.Global, ast.Nonlocal, ast.Import, ast.ImportFrom)):
                if isinstance(n, ast.Expr) and isinstance(n.value, ast.Constant) and isinstance(n.value.value, str):
                    continue  # docstring
                if isinstance(n, ast.Raise) and n.exc is not None and isinstance(n.exc, ast.Call):
                    out.append("raise " + unparse(n.exc.func))  # message wording is not shape
                else:
                    out.append(unparse(n))
            elif isinstance(n, (ast.If, ast.While)):
                out.append("if " + unparse(n.test))
            elif isinstance(n, (ast.For, ast.AsyncFor)):
                out.append("for %s in %s" % (unparse(n.target), unparse(n.iter)))
            elif isinstance(n, (ast.With, ast.AsyncWith)):
                out.append("with " + ", ".join(unparse(i.context_expr) for i in n.items))
            elif isinstance(n, ast.ExceptHandler):
                out.append("except " + (unparse(n.type) if n.type else ""))
            elif isinstance(n, (ast.FunctionDef, ast.AsyncFunctionDef)) and n is not fnode:
                out.append("def " + n.name)
        except Exception:
            continue
    return out


def fingerprint(fnode):
    return sorted(_h(t) for t in statements(fnode))


def module_fingerprint(tree):
    """statements at module and class level (option tables, constants)"""
    out = []
    for n in ast.walk(tree):
        if isinstance(n, (ast.Module, ast.ClassDef)):
            for s in n.body:
                if isinstance(s, (ast.Assign, ast.AugAssign, ast.AnnAssign)):
                    try:
                        out.append(_h(unparse(s)))
                    except Exception:
                        pass
    return sorted(out)


_ref = None


def reference():
    global _ref
    if _ref is None:
        try:
            with open(REF_FILE) as f:
                _ref = json.load(f)
        except FileNotFoundError:
            _ref = {}
    return _ref


def _dist(a, b):
    from collections import Counter
    ca, cb = Counter(a), Counter(b)
    return sum(((ca - cb) + (cb - ca)).values())


def distances(prog):
    """{rel: {qualname or '<module>': distance}}; functions absent from the reference get None"""
    ref = reference()
    out = {}
    for rel, m in prog.modules.items():
        r = ref.get(rel)
        if r is None:
            continue
        d = {}
        for qn, f in m.funcs.items():
            if qn in r:
                d[qn] = _dist(fingerprint(f.node), r[qn])
            else:
                d[qn] = None
        for qn in r:
            if qn != "<module>" and qn not in m.funcs:
                d[qn] = None  # function vanished
        if "<module>" in r:
            d["<module>"] = _dist(module_fingerprint(m.tree), r["<module>"])
        out[rel] = d
    return out


def build_reference(prog):
    out = {}
    for rel, m in sorted(prog.modules.items()):
        d = {qn: fingerprint(f.node) for qn, f in m.funcs.items()}
        d["<module>"] = module_fingerprint(m.tree)
        out[rel] = d
    return out
