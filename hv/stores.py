"""Guarded effects of a function, independent of how its control flow is spelled.

`effects(fnode)` walks a function body and yields one record per *simple effect*
(an assignment to a subscript/attribute/name, an expression-statement call, a return, a raise)
together with the list of conditions under which it executes.  The spelling of the control
flow is normalised away:

* `if c: return` / `raise` / `continue` followed by REST  ==  REST under `not c`
  (guard clause versus nested if);
* `if not c: A else: B`  ==  `if c: B else: A`;   `not (a is None)` == `a is not None` etc.;
* a `for` over a literal tuple/list (of names, attributes, constants or tuples of those) is
  unrolled, the loop variables substituted (`for mine, theirs in ((self.R, up.R), ...)`);
* `a, b = x, y` is split into two store effects that share their statement (`.node`): a consumer
  that replays effects must treat the stores of one statement as simultaneous;
* single-assignment temporaries in targets, values and conditions are inlined
  (model.inline_temporaries).

Other loops (`for`, `while`) contribute a marker condition `<loop: target in iter>` so that a rule
can see that the effect is repeated; `with` and `try` bodies are walked as straight-line code
(handlers under a marker condition `<except T>`).

This is a syntax-directed walk (the repository has no gotos); it is not path-sensitive beyond
the condition list.  A rule that needs "always reaches" must use hv.flow.
"""
import ast
import copy

from .model import inline_temporaries, unparse, reorder_operands

_NEG = {ast.Is: ast.IsNot, ast.IsNot: ast.Is, ast.Eq: ast.NotEq, ast.NotEq: ast.Eq, ast.In: ast.NotIn, ast.NotIn: ast.In}


def negate(test):
    """logical negation in canonical form (only rewrites that are exact for every operand type)"""
    if isinstance(test, ast.UnaryOp) and isinstance(test.op, ast.Not):
        return test.operand
    if isinstance(test, ast.Compare) and len(test.ops) == 1 and type(test.ops[0]) in _NEG:
        return ast.Compare(left=test.left, ops=[_NEG[type(test.ops[0])]()], comparators=test.comparators)
    return ast.UnaryOp(op=ast.Not(), operand=test)


def canon_test(test):
    if isinstance(test, ast.UnaryOp) and isinstance(test.op, ast.Not):
        inner = test.operand
        if isinstance(inner, ast.UnaryOp) and isinstance(inner.op, ast.Not):
            return canon_test(inner.operand)
        if isinstance(inner, ast.Compare) and len(inner.ops) == 1 and type(inner.ops[0]) in _NEG:
            return negate(inner)
    return test


class Marker(str):
    """a non-boolean condition: the effect happens inside a loop / handler that is not unrolled.
    A str (so it prints), with the loop's target and iterable attached."""
    def __new__(cls, text, target=None, iter=None):
        o = super().__new__(cls, text)
        o.target, o.iter = target, iter
        return o


class Effect:
    __slots__ = ("kind", "conds", "target", "value", "node", "ifs")

    def __init__(self, kind, conds, target, value, node, ifs=()):
        self.kind, self.conds, self.target, self.value, self.node = kind, conds, target, value, node
        self.ifs = list(ifs)  # the If statements the conditions come from (markers: None)

    def cond_text(self):
        return [unparse(c) if not isinstance(c, str) else c for c in self.conds]

    def __repr__(self):
        return "<%s %s = %s if %s>" % (self.kind, unparse(self.target) if self.target is not None else "-",
                                     unparse(self.value)[:60] if self.value is not None else "-", " and ".join(self.cond_text()))


def _always_leaves(body):
    if not body:
        return False
    last = body[-1]
    if isinstance(last, (ast.Return, ast.Raise, ast.Continue, ast.Break)):
        return True
    if isinstance(last, ast.If) and last.orelse:
        return _always_leaves(last.body) and _always_leaves(last.orelse)
    return False


def _literal_rows(it):
    """rows of a literal iterable usable for unrolling, or None"""
    if not isinstance(it, (ast.Tuple, ast.List)) or not it.elts or len(it.elts) > 12:
        return None

    def simple(e):
        return isinstance(e, (ast.Name, ast.Attribute, ast.Constant, ast.Subscript)) or (isinstance(e, (ast.Tuple, ast.List)) and all(simple(x) for x in e.elts))

    return list(it.elts) if all(simple(e) for e in it.elts) else None


class _Subst(ast.NodeTransformer):
    def __init__(self, env):
        self.env = env

    def visit_Name(self, n):
        if isinstance(n.ctx, ast.Load) and n.id in self.env:
            return copy.deepcopy(self.env[n.id])
        return n


def _bind(target, row):
    if isinstance(target, ast.Name):
        return {target.id: row}
    if isinstance(target, (ast.Tuple, ast.List)) and isinstance(row, (ast.Tuple, ast.List)) and len(target.elts) == len(row.elts):
        env = {}
        for t, r in zip(target.elts, row.elts):
            b = _bind(t, r)
            if b is None:
                return None
            env.update(b)
        return env
    return None


class _Fold(ast.NodeTransformer):
    """partial evaluation of what unrolling a loop over literal names produces:
    "psi_" + "core" -> "psi_core";  getattr(X, "n") -> X.n;  X.<..options>["n"] -> X.<..options>.n
    (the option containers of this repository answer to both spellings)"""

    def visit_BinOp(self, n):
        self.generic_visit(n)
        if isinstance(n.op, ast.Add) and isinstance(n.left, ast.Constant) and isinstance(n.right, ast.Constant) \
                and isinstance(n.left.value, str) and isinstance(n.right.value, str):
            return ast.Constant(value=n.left.value + n.right.value)
        # (X + "a") + "b" -> X + "ab"
        if isinstance(n.op, ast.Add) and isinstance(n.right, ast.Constant) and isinstance(n.right.value, str) and isinstance(n.left, ast.BinOp) \
                and isinstance(n.left.op, ast.Add) and isinstance(n.left.right, ast.Constant) and isinstance(n.left.right.value, str):
            return ast.BinOp(left=n.left.left, op=ast.Add(), right=ast.Constant(value=n.left.right.value + n.right.value))
        return n

    def visit_JoinedStr(self, n):
        self.generic_visit(n)
        if all(isinstance(v, ast.Constant) or (isinstance(v, ast.FormattedValue) and isinstance(v.value, ast.Constant) and isinstance(v.value.value, str)
                                                 and v.conversion == -1 and v.format_spec is None) for v in n.values):
            return ast.Constant(value="".join(v.value if isinstance(v, ast.Constant) else v.value.value for v in n.values))
        return n

    def visit_Call(self, n):
        self.generic_visit(n)
        if isinstance(n.func, ast.Name) and n.func.id == "getattr" and len(n.args) == 2 and not n.keywords and isinstance(n.args[1], ast.Constant) \
                and isinstance(n.args[1].value, str) and n.args[1].value.isidentifier():
            return ast.Attribute(value=n.args[0], attr=n.args[1].value, ctx=ast.Load())
        return n

    def visit_Subscript(self, n):
        self.generic_visit(n)
        if isinstance(n.value, ast.Attribute) and n.value.attr.endswith("options") and isinstance(n.slice, ast.Constant) and isinstance(n.slice.value, str) \
                and n.slice.value.isidentifier():
            return ast.Attribute(value=n.value, attr=n.slice.value, ctx=n.ctx)
        return n


def effects(fnode, inline=True, keep=(), consts=False, calls=False, methods=None):
    """methods: {name: FunctionDef} of the same class; a statement `self.name()` (no arguments) is
    replaced by the effects of that method's body (helper methods extracted from a long method).
    consts=True also sees through temporaries bound to literal constants (`i_pf = 0`);
    calls=True through temporaries bound to the result of a call (for comparison of values only:
    the call is then shown at every use)"""
    out = []

    def fin(e, env):
        """e with loop variables substituted, temporaries inlined (their definitions may mention
        loop variables again) and the result partially evaluated"""
        if e is None:
            return e
        e = copy.deepcopy(e)
        if env:
            e = _Subst(env).visit(e)
        if inline:
            e = inline_temporaries(fnode, e, keep=tuple(keep) + tuple(env), inline_consts=consts, inline_calls=calls)
            if env:
                e = _Subst(env).visit(e)
        e = ast.fix_missing_locations(_Fold().visit(e))
        # substitution and inlining can put a literal where the canonical operand order wants a
        # name (or the reverse): restore the one spelling the rules' patterns are written in
        return ast.fix_missing_locations(reorder_operands(e, fnode))

    class C(list):
        """condition list that remembers the If node of each condition"""
        def __init__(self, items=(), ifs=()):
            super().__init__(items)
            self.ifs = list(ifs)

        def plus(self, cond, ifnode=None):
            return C(list(self) + [cond], self.ifs + [ifnode])

    def emit(kind, conds, target, value, node):
        out.append(Effect(kind, list(conds), target, value, node, conds.ifs))

    def store(conds, tgt, val, node, env, kind="store"):
        t = fin(tgt, env) if not isinstance(tgt, ast.Name) else tgt
        emit(kind, conds, t, fin(val, env), node)

    def walk(body, conds, env):
        body = list(body)
        for k, s in enumerate(body):
            if isinstance(s, ast.If):
                t = canon_test(s.test)
                walk(s.body, conds.plus(fin(t, env), s), env)
                if s.orelse:
                    walk(s.orelse, conds.plus(fin(negate(t), env), s), env)
                if _always_leaves(s.body) and not s.orelse:
                    walk(body[k + 1:], conds.plus(fin(negate(t), env), s), env)
                    return
            elif isinstance(s, ast.For):
                it = fin(s.iter, env) if isinstance(s.iter, ast.Name) else s.iter
                rows = _literal_rows(it)
                done = False
                if rows is not None and not s.orelse:
                    envs = [_bind(s.target, r) for r in rows]
                    if all(e is not None for e in envs):
                        for e in envs:
                            walk(s.body, conds, dict(env, **e))
                        done = True
                if not done:
                    walk(s.body, conds.plus(Marker("<loop: %s in %s>" % (unparse(s.target), unparse(s.iter)), s.target, fin(s.iter, env))), env)
                    walk(s.orelse, conds, env)
            elif isinstance(s, ast.While):
                walk(s.body, conds.plus(Marker("<while: %s>" % unparse(s.test))), env)
            elif isinstance(s, ast.With):
                walk(s.body, conds, env)
            elif isinstance(s, ast.Try):
                walk(s.body, conds, env)
                for h in s.handlers:
                    walk(h.body, conds.plus(Marker("<except %s>" % (unparse(h.type) if h.type is not None else ""))), env)
                walk(s.orelse, conds, env)
                walk(s.finalbody, conds, env)
            elif isinstance(s, ast.Assign):
                for t in s.targets:
                    if isinstance(t, (ast.Tuple, ast.List)) and isinstance(s.value, (ast.Tuple, ast.List)) and len(t.elts) == len(s.value.elts):
                        for a, b in zip(t.elts, s.value.elts):
                            store(conds, a, b, s, env)
                    else:
                        store(conds, t, s.value, s, env)
            elif isinstance(s, ast.AugAssign):
                store(conds, s.target, s.value, s, env, kind="augstore")
            elif isinstance(s, ast.Expr):
                if isinstance(s.value, ast.Call):
                    c0 = s.value
                    if methods and isinstance(c0.func, ast.Attribute) and isinstance(c0.func.value, ast.Name) and c0.func.value.id == "self" and not c0.args and not c0.keywords \
                            and c0.func.attr in methods and len(spliced) < 8 and c0.func.attr not in spliced:
                        m = methods[c0.func.attr]
                        if len(m.args.args) == 1 and not any(isinstance(x, ast.Return) and x.value is not None for x in ast.walk(m)):
                            spliced.append(c0.func.attr)
                            walk(m.body, conds, env)
                            spliced.pop()
                            continue
                    v = fin(s.value, env)
                    if isinstance(v, ast.Call) and isinstance(v.func, ast.Name) and v.func.id == "setattr" and len(v.args) == 3 and not v.keywords \
                            and isinstance(v.args[1], ast.Constant) and isinstance(v.args[1].value, str) and v.args[1].value.isidentifier():
                        emit("store", conds, ast.Attribute(value=v.args[0], attr=v.args[1].value, ctx=ast.Store()), v.args[2], s)
                    else:
                        emit("call", conds, None, v, s)
            elif isinstance(s, ast.Return):
                emit("return", conds, None, fin(s.value, env), s)
            elif isinstance(s, ast.Raise):
                emit("raise", conds, None, s.exc, s)

    spliced = []
    walk(fnode.body, C(), {})
    return out
