"""E4 for contour-derived arrays: a contour has 2*ny+1 points, point p <-> logical y = p/2;
contour number c <-> logical x = c/2.  Linear combinations of contour-distance samples are
typed by the logical y of every sample."""
import ast
from fractions import Fraction

from .slices import Affine, norm_slice, slice_of
from .stagger import StencilError, const_int

CONTOUR_LEN = Affine(1, 2)  # 2*ny + 1


def point_sel(node):
    """selector on the point axis of a contour -> ('index'|'range', first Affine, step, count)"""
    c = const_int(node)
    if c is not None:
        return ("index", Affine(c) if c >= 0 else CONTOUR_LEN + c, 1, Affine(1))
    if isinstance(node, ast.Slice):
        try:
            first, step, count = norm_slice(*slice_of(node), CONTOUR_LEN)
        except (ValueError, TypeError) as e:
            raise StencilError("contour slice not affine: %s" % e)
        return ("range", first, step, count)
    raise StencilError("contour selector not understood")


def linear_terms(node, coeff=Fraction(1)):
    """expression -> [(coefficient, array name, selector node)] for sums/differences of
    subscripted names, optionally scaled by a numeric constant"""
    if isinstance(node, ast.BinOp) and isinstance(node.op, (ast.Add, ast.Sub)):
        l = linear_terms(node.left, coeff)
        r = linear_terms(node.right, coeff if isinstance(node.op, ast.Add) else -coeff)
        return l + r
    if isinstance(node, ast.BinOp) and isinstance(node.op, ast.Mult):
        for a, b in ((node.left, node.right), (node.right, node.left)):
            if isinstance(a, ast.Constant) and isinstance(a.value, (int, float)):
                return linear_terms(b, coeff * Fraction(a.value))
    if isinstance(node, ast.UnaryOp) and isinstance(node.op, ast.USub):
        return linear_terms(node.operand, -coeff)
    if isinstance(node, ast.Subscript) and isinstance(node.value, ast.Name):
        return [(coeff, node.value.id, node.slice)]
    raise StencilError("not a linear combination of array samples: %s" % ast.dump(node)[:80])


def contour_index(node, loopvar):
    """self.contours[2*i+1] -> (2, 1): contour number as a*i+b"""
    if isinstance(node, ast.Name) and node.id == loopvar:
        return (1, 0)
    c = const_int(node)
    if c is not None:
        return (0, c)
    if isinstance(node, ast.BinOp) and isinstance(node.op, ast.Add):
        a1, b1 = contour_index(node.left, loopvar)
        a2, b2 = contour_index(node.right, loopvar)
        return (a1 + a2, b1 + b2)
    if isinstance(node, ast.BinOp) and isinstance(node.op, ast.Mult):
        for x, y in ((node.left, node.right), (node.right, node.left)):
            k = const_int(x)
            if k is not None:
                a, b = contour_index(y, loopvar)
                return (k * a, k * b)
    raise StencilError("contour index not affine in the loop variable")
