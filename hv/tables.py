"""E5: conditional constant propagation over the topology description code.

Runs the table-building methods of TokamakEquilibrium (describeSingleNull /
describeDoubleNull, createRegionObjects ordering) on abstract values: dict/list/tuple
literals with symbolic leaves.  Branch tests are decided only by the seed (which X-point
is lower, nx_inter_sep == 0, start_at_upper_outer) or by constant folding; an `if` whose
test is not decided is accepted only when one arm raises.  Numeric code is never entered:
leg tracing, radial gridding and flux-surface following are modelled calls returning
named leaves.
"""
import ast

from .alg import AlgError, Context, Rat
from .extract import Extractor, Closure, Opaque, PathRaises, ReturnValue, _dotted
from .model import canon, Program
from .report import AnalysisError

TOK = "hypnotoad/cases/tokamak.py"


class Leaf:
    """opaque named value (a point, a list of points, ...)"""

    def __init__(self, name, **attrs):
        self.name = name
        self.attrs = attrs

    def __eq__(self, o):
        return isinstance(o, Leaf) and o.name == self.name

    def __hash__(self):
        return hash(self.name)

    def __repr__(self):
        return self.name


class Sliced:
    """base[lo:hi:step] of an abstract sequence"""

    def __init__(self, base, lo, hi, step):
        self.base, self.lo, self.hi, self.step = base, lo, hi, step

    def __eq__(self, o):
        return isinstance(o, Sliced) and (self.base, self.step) == (o.base, o.step) and _same(self.lo, o.lo) and _same(self.hi, o.hi)

    def __hash__(self):
        return hash(repr(self))

    def __repr__(self):
        f = lambda v: "" if v is None else (v.show() if isinstance(v, Rat) else str(v))
        return "%r[%s:%s%s]" % (self.base, f(self.lo), f(self.hi), "" if self.step is None else ":%s" % f(self.step))


def _same(a, b):
    if isinstance(a, Rat) and isinstance(b, Rat):
        return (a - b).is_zero()
    return a == b


SEEDS = {
    # name: (number of X-points, primary X-point is the lower one, nx_inter_sep == 0)
    "LSN": dict(nx=1, lower_first=True, connected=None),
    "USN": dict(nx=1, lower_first=False, connected=None),
    "CDN": dict(nx=2, lower_first=True, connected=True),
    "CDN(upper primary)": dict(nx=2, lower_first=False, connected=True),
    "LDN": dict(nx=2, lower_first=True, connected=False),
    "UDN": dict(nx=2, lower_first=False, connected=False),
}


class TableEx(Extractor):
    def __init__(self, ctx, module, seed):
        super().__init__(ctx, module, max_depth=4)
        self.seed = seed
        self.skipped = []
        self.attrs_set = {}

    # -- leaves ----------------------------------------------------------------------
    def on_attr(self, d, node, env):
        if d.startswith("self.user_options."):
            return self.ctx.sym(d[len("self.user_options."):])
        if d in ("self.psi_core", "self.psi_sol", "self.psi_sol_inner", "self.psi_pf_lower", "self.psi_pf_upper"):
            return self.ctx.sym(d[5:])
        if d == "self.psi_increasing":
            return Opaque("psi_increasing")
        if d in ("self.x_points", "self.psi_sep", "self.o_point"):
            return Leaf(d[5:])
        if d.startswith("self.") and d[5:] in self.attrs_set:
            return self.attrs_set[d[5:]]
        return Leaf(d)

    def on_name(self, name, env):
        if name in ("abs", "min", "max", "len", "print"):
            return Opaque("builtin " + name)
        raise AlgError("unbound name " + name)

    def attr_of(self, value, attr, node, env):
        if isinstance(value, Leaf):
            return Leaf(value.name + "." + attr)
        return super().attr_of(value, attr, node, env)

    def index_of(self, node, env):
        v = self.expr(node, env)
        if isinstance(v, Rat):
            c = v.as_const()
            if c is not None and c.denominator == 1:
                return int(c)
        if isinstance(v, (int, str)):
            return v
        raise AlgError("non-constant index " + self.text(node))

    def on_subscript(self, node, value, env):
        sl = node.slice
        if isinstance(sl, ast.Slice):
            lo = None if sl.lower is None else self.expr(sl.lower, env)
            hi = None if sl.upper is None else self.expr(sl.upper, env)
            st = None if sl.step is None else self.expr(sl.step, env)
            if isinstance(value, list):
                ci = lambda v: None if v is None else int(v.as_const())
                return value[ci(lo):ci(hi):ci(st)]
            return Sliced(value, lo, hi, st)
        if value is None:
            value = self.expr(node.value, env)
        if isinstance(value, dict):
            k = self.index_of(sl, env)
            if k not in value:
                raise AlgError("key %r not in table" % (k,))
            return value[k]
        if isinstance(value, (list, tuple)):
            return value[self.index_of(sl, env)]
        if isinstance(value, Leaf):
            i = self.index_of(sl, env)
            if value.name in ("x_points", "psi_sep") and isinstance(i, int):
                if i < 0:
                    i += self.seed["nx"]
                if value.name == "psi_sep":
                    return self.ctx.sym("psi_sep[%d]" % i)
                return Leaf("x_points[%d]" % i)
            return Leaf("%s[%r]" % (value.name, i))
        raise AlgError("subscript of %r" % (value,))

    def expr(self, node, env):
        if isinstance(node, ast.Dict):
            return {self.index_of(k, env): self.expr(v, env) for k, v in zip(node.keys, node.values)}
        if isinstance(node, ast.JoinedStr):
            return Opaque("f-string")
        if isinstance(node, ast.Compare):
            # a comparison stored in a local: decided like a branch test (bool), else opaque
            try:
                d = self.choose(node, env)
                if isinstance(d, bool):
                    return d
            except AlgError:
                pass
            return Opaque("comparison " + self.text(node))
        return super().expr(node, env)

    # -- branches ---------------------------------------------------------------------
    def choose(self, test, env):
        t = "".join(self.text(test).split())
        s = self.seed
        if t == "self.x_points[0].Z<self.o_point.Z":
            return s["lower_first"]
        # the same decision spelled through a temporary: <something that is x_points[0]>.Z < o_point.Z
        if isinstance(test, ast.Compare) and len(test.ops) == 1 and isinstance(test.ops[0], ast.Lt) and "".join(self.text(test.comparators[0]).split()) == "self.o_point.Z" \
                and isinstance(test.left, ast.Attribute) and test.left.attr == "Z":
            try:
                who = self.expr(test.left.value, env)
            except AlgError:
                who = None
            if isinstance(who, Leaf) and who.name == "x_points[0]":
                return s["lower_first"]
        # a decision taken earlier and kept in a local (`is_lower = ...; if is_lower:`)
        if isinstance(test, ast.Name) and isinstance(env.get(test.id), bool):
            return env[test.id]
        if isinstance(test, ast.UnaryOp) and isinstance(test.op, ast.Not) and isinstance(test.operand, ast.Name) and isinstance(env.get(test.operand.id), bool):
            return not env[test.operand.id]
        if t in ("nx_inter_sep==0", "self.user_options.nx_inter_sep==0"):
            return s["connected"]
        if t == "self.psi_increasing":
            return True  # only scales the operands of two raising guards
        if t == "self.user_options.psi_spacing_separatrix_multiplierisnotNone":
            return True
        if t.startswith("len(self.x_points)!="):
            return int(t.split("!=")[1]) != s["nx"]
        if t == "self.user_options.start_at_upper_outer" or t == "notself.user_options.start_at_upper_outer":
            v = s.get("start_at_upper_outer", False)
            return v if not t.startswith("not") else not v
        if isinstance(test, ast.Compare) and len(test.ops) == 1 and isinstance(test.ops[0], (ast.Eq, ast.NotEq)):
            try:
                a, b = self.expr(test.left, env), self.expr(test.comparators[0], env)
                if isinstance(a, Leaf) and isinstance(b, Leaf):
                    return (a == b) if isinstance(test.ops[0], ast.Eq) else (a != b)
            except AlgError:
                pass
        if isinstance(test, ast.Compare) and len(test.ops) == 1 and isinstance(test.ops[0], (ast.In, ast.NotIn)):
            try:
                a, b = self.expr(test.left, env), self.expr(test.comparators[0], env)
                if isinstance(a, str) and isinstance(b, (dict, list, tuple)):
                    return (a in b) if isinstance(test.ops[0], ast.In) else (a not in b)
            except AlgError:
                pass
        return super().choose(test, env)

    # -- calls -------------------------------------------------------------------------
    def on_call(self, node, fname, args, kwargs, env):
        if fname == "self.findLegs":
            x = args[0]
            return {"inner": Leaf("leg(%r,inner)" % x), "outer": Leaf("leg(%r,outer)" % x)}
        if fname == "self.segmentsWithPsivals":
            out = {}
            for name, seg in args[0].items():
                seg = dict(seg)
                seg["psi_vals"] = Leaf("psi_vals(%s)" % name, spec={k: seg.get(k) for k in ("nx", "psi_start", "psi_end", "grad_start", "grad_end")})
                out[name] = seg
            return out
        if fname == "min":
            items = sorted(args[0], key=lambda r: r.show(400))  # min is symmetric in its arguments
            k = kwargs.get("key")
            by_abs = isinstance(k, Opaque) and str(k.why).endswith("abs")
            # selection by magnitude commutes with psi -> -psi; a plain min does not
            return self.ctx.call("min_abs" if by_abs else "min_signed", *items)
        if fname in ("print", "np.isclose", "numpy.isclose"):
            return Opaque(fname)
        if fname == "abs":
            return Opaque("abs")
        if fname and fname.endswith(".copy") and isinstance(args, list):
            base = self.expr(node.func.value, env)
            if isinstance(base, dict):
                return dict(base)
        if fname == "len":
            if isinstance(args[0], (list, tuple, dict)):
                return self.ctx.const(len(args[0]))
            if isinstance(args[0], Leaf) and args[0].name == "x_points":
                return self.ctx.const(self.seed["nx"])
        if fname == "self.psi":
            return Opaque("psi")
        raise AlgError("unmodelled call %s" % (fname or self.text(node)[:50]))

    # -- statements -----------------------------------------------------------------------
    def stmt(self, s, env):
        if isinstance(s, ast.For):
            self.skipped.append("for-loop at line %d (%s)" % (s.lineno, self.text(s.target)))
            return
        if isinstance(s, ast.Assign) and len(s.targets) == 1 and isinstance(s.targets[0], ast.Subscript):
            tgt = s.targets[0]
            base = self.expr(tgt.value, env)
            if isinstance(base, dict):
                base[self.index_of(tgt.slice, env)] = self.expr(s.value, env)
                return
            if isinstance(base, list):
                base[self.index_of(tgt.slice, env)] = self.expr(s.value, env)
                return
            raise AlgError("store into %r" % (base,))
        if isinstance(s, ast.AugAssign) and isinstance(s.target, ast.Subscript):
            base = self.expr(s.target.value, env)
            k = self.index_of(s.target.slice, env)
            base[k] = self.binop(s.op, base[k], self.expr(s.value, env), s)
            return
        if isinstance(s, ast.Assign) and len(s.targets) == 1 and isinstance(s.targets[0], ast.Attribute) and _dotted(s.targets[0]).startswith("self."):
            v = self.expr(s.value, env)
            self.attrs_set[_dotted(s.targets[0])[5:]] = v
            return
        if isinstance(s, ast.Assign):
            # do not swallow errors into Opaque for table code: fail loudly
            v = self.expr(s.value, env)
            for t in s.targets:
                self.assign(t, v, env)
            return
        return super().stmt(s, env)


class Topology:
    """result of evaluating one seed"""

    def __init__(self, name, seed, leg_regions, core_regions, segments, connections, order, double_null_type, skipped):
        self.name = name
        self.seed = seed
        self.segments = segments
        self.connections = [tuple(int(x.as_const()) if isinstance(x, Rat) else x for x in c) for c in connections]
        self.double_null_type = double_null_type
        self.skipped = skipped
        allr = dict(leg_regions)
        for k, v in core_regions.items():
            v = dict(v)
            v["core"] = True
            allr[k] = v
        self.regions = {k: allr[k] for k in order if k in allr}
        self.unordered = [k for k in allr if k not in order]
        self.order = [k for k in order if k in allr]

    def nseg(self):
        return len(next(iter(self.regions.values()))["segments"])


_cache = {}


def topology(prog, seedname, start_at_upper_outer=False):
    key = (id(prog), seedname, start_at_upper_outer)
    if key in _cache:
        return _cache[key]
    seed = dict(SEEDS[seedname])
    seed["start_at_upper_outer"] = start_at_upper_outer
    mod = prog.module(TOK)
    fname = "TokamakEquilibrium.describeSingleNull" if seed["nx"] == 1 else "TokamakEquilibrium.describeDoubleNull"
    f = mod.funcs.get(fname)
    if f is None:
        raise AnalysisError("%s not found" % fname)
    ctx = Context()
    ex = TableEx(ctx, mod, seed)
    env = {}
    try:
        ex.block(f.node.body, env)
        raise AnalysisError("%s did not return on seed %s" % (fname, seedname))
    except ReturnValue as r:
        ret = r.value
    except PathRaises as e:
        raise AnalysisError("%s raises on seed %s: %s" % (fname, seedname, e))
    except AlgError as e:
        raise AnalysisError("%s not representable on seed %s: %s" % (fname, seedname, e))
    leg_regions, core_regions, segments, connections = ret
    # ordering from createRegionObjects
    g = mod.funcs.get("TokamakEquilibrium.createRegionObjects")
    if g is None:
        raise AnalysisError("createRegionObjects not found")
    allnames = list(leg_regions) + list(core_regions)
    env2 = {"region_objects": {k: True for k in allnames}}
    ex2 = TableEx(ctx, mod, seed)
    order = None
    for s in g.node.body:
        if isinstance(s, ast.If) and "region_objects" in mod.text(s.test) and any(isinstance(n, ast.Assign) and isinstance(n.targets[0], ast.Name) and n.targets[0].id == "ordering" for n in ast.walk(s)):
            ex2.stmt(s, env2)
            order = env2.get("ordering")
    if not isinstance(order, list):
        raise AnalysisError("region ordering not found in createRegionObjects")
    # the ordered dict is built by filtering `ordering` by presence
    ret_ok = any(isinstance(n, ast.Return) and mod.code(n.value) == canon("OrderedDict([(key, region_objects[key]) for key in ordering if key in region_objects])") for n in ast.walk(g.node))
    if not ret_ok:
        raise AnalysisError("createRegionObjects no longer returns OrderedDict filtered from `ordering`")
    t = Topology(seedname + ("/start_at_upper_outer" if start_at_upper_outer else ""), seed, leg_regions, core_regions, segments, connections, order,
                 ex.attrs_set.get("double_null_type"), ex.skipped)
    t.ctx = ctx
    _cache[key] = t
    return t


def all_topologies(prog):
    out = []
    for name in SEEDS:
        out.append(topology(prog, name))
        if name != "USN":
            out.append(topology(prog, name, True))
    return out
