"""Self-test: the checker tested both ways.

mutants      small source edits on a scratch copy of /repo that must make the named rule fire
equivalents  behaviour-preserving edits on which the check must stay as quiet as on the
             pristine tree
Scratch copies live under $TMPDIR and are removed immediately.
"""
import json
import os
import shutil
import subprocess
import sys
import tempfile
from concurrent.futures import ThreadPoolExecutor

from .model import repo_root

HERE = os.path.dirname(os.path.dirname(os.path.abspath(__file__)))
COPY = ["hypnotoad", "examples", "doc", "integrated_tests", "geqdsk_cdn.yaml", "geqdsk_ldn.yaml", "README.md"]


def load_catalogue():
    cat = []
    d = os.path.join(HERE, "selftest")
    for fn in sorted(os.listdir(d)):
        if fn.endswith(".json"):
            with open(os.path.join(d, fn)) as f:
                for m in json.load(f):
                    m.setdefault("source", fn)
                    cat.append(m)
    # one whole-tree equivalent per property: every source file re-emitted by ast.unparse
    # (layout, comments, quote style, redundant parentheses, number spelling all change)
    for p in sorted({m["prop"] for m in cat}):
        cat.append({"id": "%s-eq-reformat" % p.lower(), "prop": p, "kind": "equiv", "transform": "unparse", "edits": [],
                    "why": "ast.unparse of every module: behaviour identical, text different", "source": "builtin"})
    for p in sorted({m["prop"] for m in cat}):
        cat.append({"id": "%s-eq-rename-locals" % p.lower(), "prop": p, "kind": "equiv", "transform": "rename-locals", "edits": [],
                    "why": "every function-local name gets a suffix (and the tree is re-emitted): behaviour identical", "source": "builtin"})
    for p in sorted({m["prop"] for m in cat if m.get("source") != "builtin"}):
        cat.append({"id": "%s-eq-annotate-alias" % p.lower(), "prop": p, "kind": "equiv", "transform": "annotate-alias", "edits": [],
                    "why": "type annotations on parameters/returns/first assignment of every function, `import numpy` -> `import numpy as np`", "source": "builtin"})
    for p in sorted({m["prop"] for m in cat if m.get("source") != "builtin"}):
        cat.append({"id": "%s-eq-commute" % p.lower(), "prop": p, "kind": "equiv", "transform": "commute", "edits": [],
                    "why": "every `x * k`/`k + x` with a numeric literal and every single comparison written the other way round", "source": "builtin"})
    for p in sorted({m["prop"] for m in cat if m.get("source") != "builtin"}):
        cat.append({"id": "%s-eq-flip-else" % p.lower(), "prop": p, "kind": "equiv", "transform": "flip-else", "edits": [],
                    "why": "every two-armed if/else written with the negated test and the arms exchanged", "source": "builtin"})
    for p in sorted({m["prop"] for m in cat if m.get("source") != "builtin"}):
        cat.append({"id": "%s-eq-name-returns" % p.lower(), "prop": p, "kind": "equiv", "transform": "name-returns", "edits": [],
                    "why": "every returned expression first bound to a fresh local", "source": "builtin"})
    return cat


def annotate_alias_tree(dest):
    import ast
    import re
    for dp, dn, fn in os.walk(os.path.join(dest, "hypnotoad")):
        if "test_suite" in dp:
            continue
        for f in fn:
            if not f.endswith(".py") or f.startswith("hypnotoad_"):
                continue
            p = os.path.join(dp, f)
            with open(p) as fh:
                src = fh.read()
            if re.search(r"^import numpy$", src, flags=re.M):
                src = re.sub(r"^import numpy$", "import numpy as np", src, flags=re.M)
                src = re.sub(r"(?<![\w.])numpy\.", "np.", src)
            try:
                t = ast.parse(src)
            except SyntaxError:
                continue
            obj = lambda: ast.Name(id="object", ctx=ast.Load())
            for n in ast.walk(t):
                if isinstance(n, ast.FunctionDef):
                    n.returns = obj()
                    for a in n.args.args:
                        if a.arg != "self":
                            a.annotation = obj()
                    for i, st in enumerate(n.body):
                        if isinstance(st, ast.Assign) and len(st.targets) == 1 and isinstance(st.targets[0], ast.Name):
                            n.body[i] = ast.copy_location(ast.AnnAssign(target=st.targets[0], annotation=obj(), value=st.value, simple=1), st)
                            break
            with open(p, "w") as fh:
                fh.write(ast.unparse(ast.fix_missing_locations(t)) + "\n")


class _RenameLocals:
    """x -> x_ for every function-local name that no nested scope mentions"""

    def run(self, tree):
        import ast

        outer = self

        class R(ast.NodeTransformer):
            def __init__(self):
                self.stack = []

            def visit_FunctionDef(self, node):
                params = {a.arg for a in node.args.args + node.args.kwonlyargs + node.args.posonlyargs}
                if node.args.vararg:
                    params.add(node.args.vararg.arg)
                if node.args.kwarg:
                    params.add(node.args.kwarg.arg)
                assigned, declared, inner_used = set(), set(), set()
                scopes = (ast.FunctionDef, ast.Lambda, ast.ClassDef, ast.ListComp, ast.SetComp, ast.DictComp, ast.GeneratorExp)

                def own(n):
                    for ch in ast.iter_child_nodes(n):
                        if isinstance(ch, scopes):
                            for x in ast.walk(ch):
                                if isinstance(x, ast.Name):
                                    inner_used.add(x.id)
                            continue
                        yield ch
                        yield from own(ch)

                for n in own(node):
                    if isinstance(n, ast.Name) and isinstance(n.ctx, (ast.Store, ast.Del)):
                        assigned.add(n.id)
                    if isinstance(n, (ast.Global, ast.Nonlocal)):
                        declared.update(n.names)
                ren = {x for x in assigned if x not in params and x not in declared and x not in inner_used and not x.startswith("__")}
                self.stack.append(ren)
                node.body = [self.visit(s) for s in node.body]
                self.stack.pop()
                return node

            def visit_Lambda(self, node):
                return node

            def visit_ClassDef(self, node):
                self.stack.append(set())
                self.generic_visit(node)
                self.stack.pop()
                return node

            def visit_ListComp(self, node):
                return node

            visit_SetComp = visit_DictComp = visit_GeneratorExp = visit_ListComp

            def visit_Name(self, node):
                if self.stack and node.id in self.stack[-1]:
                    node.id = node.id + "_"
                return node

        return R().visit(tree)


def commute_tree(dest):
    """behaviour-preserving operand swaps: `k * x` <-> `x * k` and `k + x` <-> `x + k` where k is
    a numeric literal (exact for floats, and the reflected operator of the repository's classes
    is the same function), and `a < b` <-> `b > a` for single comparisons (==, !=, <, <=, >, >=)."""
    import ast

    def numeric(n):
        return isinstance(n, ast.Constant) and isinstance(n.value, (int, float)) and not isinstance(n.value, bool)

    class T(ast.NodeTransformer):
        def visit_BinOp(self, node):
            self.generic_visit(node)
            if isinstance(node.op, (ast.Mult, ast.Add)) and numeric(node.left) != numeric(node.right):
                node.left, node.right = node.right, node.left
            return node

        def visit_Compare(self, node):
            self.generic_visit(node)
            flip = {ast.Lt: ast.Gt, ast.Gt: ast.Lt, ast.LtE: ast.GtE, ast.GtE: ast.LtE, ast.Eq: ast.Eq, ast.NotEq: ast.NotEq}
            if len(node.ops) == 1 and type(node.ops[0]) in flip and not any(isinstance(x, (ast.Call, ast.NamedExpr, ast.Await)) for side in (node.left, node.comparators[0]) for x in ast.walk(side)):
                node.left, node.comparators, node.ops = node.comparators[0], [node.left], [flip[type(node.ops[0])]()]
            return node

    for base in ("hypnotoad", "examples"):
        for dp, dn, fn in os.walk(os.path.join(dest, base)):
            if "test_suite" in dp:
                continue
            for f in fn:
                if f.endswith(".py"):
                    p = os.path.join(dp, f)
                    with open(p) as fh:
                        src = fh.read()
                    try:
                        out = ast.unparse(ast.fix_missing_locations(T().visit(ast.parse(src)))) + "\n"
                    except SyntaxError:
                        continue
                    with open(p, "w") as fh:
                        fh.write(out)


def flip_else_tree(dest):
    """every two-armed `if c: A else: B` (no elif) becomes `if not c: B else: A`; `not (x is None)`
    style tests are respelled `x is not None` and back"""
    import ast

    class T(ast.NodeTransformer):
        def visit_If(self, node):
            self.generic_visit(node)
            if node.orelse and not (len(node.orelse) == 1 and isinstance(node.orelse[0], ast.If)):
                t = node.test
                if isinstance(t, ast.UnaryOp) and isinstance(t.op, ast.Not):
                    nt = t.operand
                elif isinstance(t, ast.Compare) and len(t.ops) == 1 and isinstance(t.ops[0], (ast.Is, ast.IsNot, ast.In, ast.NotIn)):
                    swap = {ast.Is: ast.IsNot, ast.IsNot: ast.Is, ast.In: ast.NotIn, ast.NotIn: ast.In}
                    nt = ast.Compare(left=t.left, ops=[swap[type(t.ops[0])]()], comparators=t.comparators)
                else:
                    nt = ast.UnaryOp(op=ast.Not(), operand=t)
                node.test, node.body, node.orelse = nt, node.orelse, node.body
            return node

    for base in ("hypnotoad", "examples"):
        for dp, dn, fn in os.walk(os.path.join(dest, base)):
            if "test_suite" in dp:
                continue
            for f in fn:
                if f.endswith(".py"):
                    p = os.path.join(dp, f)
                    with open(p) as fh:
                        src = fh.read()
                    try:
                        out = ast.unparse(ast.fix_missing_locations(T().visit(ast.parse(src)))) + "\n"
                    except SyntaxError:
                        continue
                    with open(p, "w") as fh:
                        fh.write(out)


def name_returns_tree(dest):
    """every `return <expression>` becomes `ret_value_<k>_ = <expression>; return ret_value_<k>_`
    (a fresh local per return statement)"""
    import ast

    class T(ast.NodeTransformer):
        def __init__(self):
            self.k = 0

        def visit_Return(self, node):
            if node.value is None or isinstance(node.value, (ast.Name, ast.Constant)):
                return node
            self.k += 1
            nm = "ret_value_%d_" % self.k
            a = ast.copy_location(ast.Assign(targets=[ast.Name(id=nm, ctx=ast.Store())], value=node.value, type_comment=None), node)
            r = ast.copy_location(ast.Return(value=ast.Name(id=nm, ctx=ast.Load())), node)
            return [a, r]

        def visit_Lambda(self, node):
            return node

    for base in ("hypnotoad", "examples"):
        for dp, dn, fn in os.walk(os.path.join(dest, base)):
            if "test_suite" in dp:
                continue
            for f in fn:
                if f.endswith(".py"):
                    p = os.path.join(dp, f)
                    with open(p) as fh:
                        src = fh.read()
                    try:
                        out = ast.unparse(ast.fix_missing_locations(T().visit(ast.parse(src)))) + "\n"
                    except SyntaxError:
                        continue
                    with open(p, "w") as fh:
                        fh.write(out)


def reformat_tree(dest, rename=False):
    import ast
    for base in ("hypnotoad", "examples"):
        for dp, dn, fn in os.walk(os.path.join(dest, base)):
            if "test_suite" in dp:
                continue
            for f in fn:
                if f.endswith(".py"):
                    p = os.path.join(dp, f)
                    with open(p) as fh:
                        src = fh.read()
                    try:
                        tree = ast.parse(src)
                        if rename:
                            tree = _RenameLocals().run(tree)
                        out = ast.unparse(tree) + "\n"
                    except SyntaxError:
                        continue
                    with open(p, "w") as fh:
                        fh.write(out)


def make_copy(root, dest):
    for c in COPY:
        s = os.path.join(root, c)
        if os.path.isdir(s):
            shutil.copytree(s, os.path.join(dest, c), ignore=shutil.ignore_patterns("__pycache__", "*.pyc", "*.nc", "*.png"))
        elif os.path.exists(s):
            shutil.copy(s, os.path.join(dest, c))


def run_one(m, root):
    tmp = tempfile.mkdtemp(prefix="hvst_")
    try:
        make_copy(root, tmp)
        for pf in m.get("patches", []):
            # a behaviour-preserving hunk (selftest/patches/*.diff) applied first; "edits" then act on the patched tree
            pr = subprocess.run(["patch", "-p1", "-s", "-d", tmp, "-i", os.path.join(HERE, pf)], capture_output=True, text=True)
            if pr.returncode != 0:
                return {"id": m["id"], "status": "skipped", "why": "patch %s does not apply: %s" % (pf, (pr.stdout + pr.stderr)[-200:])}
        edits = m["edits"] if "edits" in m else ([{"file": m["file"], "old": m["old"], "new": m["new"]}] if "file" in m else [])
        for e in edits:
            p = os.path.join(tmp, e["file"])
            with open(p) as f:
                s = f.read()
            if s.count(e["old"]) != 1:
                return {"id": m["id"], "status": "skipped", "why": "context occurs %d times in %s" % (s.count(e["old"]), e["file"])}
            with open(p, "w") as f:
                f.write(s.replace(e["old"], e["new"]))
        if m.get("transform") == "unparse":
            reformat_tree(tmp)
        elif m.get("transform") == "rename-locals":
            reformat_tree(tmp, rename=True)
        elif m.get("transform") == "annotate-alias":
            annotate_alias_tree(tmp)
        elif m.get("transform") == "commute":
            commute_tree(tmp)
        elif m.get("transform") == "flip-else":
            flip_else_tree(tmp)
        elif m.get("transform") == "name-returns":
            name_returns_tree(tmp)
        env = dict(os.environ)
        env["VERIF_REPO"] = tmp
        env["HV_EVIDENCE_DIR"] = os.path.join(tmp, "_ev")
        r = subprocess.run([os.path.join(HERE, "bin", "hv"), m["prop"], "--tier", "quick"], capture_output=True, text=True, env=env, timeout=600)
        out = r.stdout + r.stderr
        ev = {}
        try:
            with open(os.path.join(tmp, "_ev", m["prop"] + ".json")) as f:
                ev = json.load(f)
        except Exception:
            pass
        newv = ev.get("coverage", {}).get("new_violations", [])
        rules = sorted({v["rule"] for v in newv})
        if m["kind"] == "mutant":
            want = m.get("expect_rule")
            # exit 2 (analysis error, e.g. an instance-count floor) still counts when the run
            # also reported the expected rule as a violation
            ok = (r.returncode == 1 and (want is None or want in rules)) or (r.returncode == 2 and bool(rules) and (want is None or want in rules))
            return {"id": m["id"], "status": "caught" if ok else "MISSED", "rc": r.returncode, "rules": rules,
                    "first": (newv[0]["instance"] if newv else out[-300:])}
        else:
            # "allow_undecided": the variant is behaviour preserving but beyond what the rules can
            # prove; the only wrong answer is a VIOLATION
            ok = r.returncode == 0 or (m.get("allow_undecided") and r.returncode == 2 and not newv and "VIOLATION" not in out)
            return {"id": m["id"], "status": "quiet" if ok else "NOISY", "rc": r.returncode, "rules": rules,
                    "first": (newv[0]["instance"] + " | " + newv[0]["detail"][:200] if newv else out[-400:])}
    except Exception as e:
        return {"id": m["id"], "status": "ERROR", "why": repr(e)}
    finally:
        shutil.rmtree(tmp, ignore_errors=True)


def run(prop=None, jobs=16, ids=None):
    cat = [m for m in load_catalogue() if (prop is None or m["prop"] == prop) and (ids is None or m["id"] in ids)]
    root = repo_root()
    with ThreadPoolExecutor(max_workers=jobs) as ex:
        res = list(ex.map(lambda m: run_one(m, root), cat))
    return cat, res


def summary(res):
    c = {}
    for r in res:
        c[r["status"]] = c.get(r["status"], 0) + 1
    return c


if __name__ == "__main__":
    prop = sys.argv[1] if len(sys.argv) > 1 and sys.argv[1] != "all" else None
    ids = set(sys.argv[2:]) or None
    cat, res = run(prop, ids=ids)
    bad = 0
    for m, r in zip(cat, res):
        flag = r["status"] in ("MISSED", "NOISY", "ERROR")
        bad += flag
        print("%-7s %-28s %-4s %s %s" % (r["status"], r["id"], m["prop"], r.get("rules", ""), (r.get("first") or r.get("why") or "")[:150] if (flag or "-v" in sys.argv) else ""))
    print(summary(res))
    sys.exit(1 if bad else 0)
