"""E2-lite: forward *must* dataflow over structured Python (no CFG library needed).

facts are frozensets; `transfer(stmt, facts)` returns new facts for a simple statement.
If/Try arms are joined by intersection; arms ending in raise are dropped; loops are
treated as zero-or-more iterations (facts after = facts before ∩ facts after body) unless
`loops_once` is set.  Every `return` is reported to `on_return(node, facts)`.
"""
import ast


class _Exit(Exception):
    pass


class MustFlow:
    def __init__(self, transfer, on_return=None, loops_once=False, branch=None, on_expr=None, guard=None):
        self.on_expr = on_expr
        self.guard = guard  # (If node whose body always raises, facts) -> fact established on the surviving path
        self.transfer = transfer
        self.on_return = on_return or (lambda node, facts: None)
        self.loops_once = loops_once
        self.branch = branch  # optional (test, facts) -> True/False/None
        self.exits = []

    def run(self, fnode, facts=frozenset()):
        out = self.block(fnode.body, facts)
        if out is not None:
            self.on_return(None, out)  # falls off the end
        return out

    def block(self, stmts, facts):
        """returns facts at normal exit, or None if no path exits normally"""
        for s in stmts:
            facts = self.stmt(s, facts)
            if facts is None:
                return None
        return facts

    def stmt(self, s, facts):
        if isinstance(s, ast.Return):
            facts = self.transfer(s, facts)
            self.on_return(s, facts)
            return None
        if isinstance(s, ast.Raise):
            return None
        if isinstance(s, (ast.Break, ast.Continue)):
            self._loop_exits.append(facts) if hasattr(self, "_loop_exits") else None
            return None
        if isinstance(s, ast.If):
            if self.on_expr:
                self.on_expr(s.test, facts)
            dec = self.branch(s.test, facts) if self.branch else None
            if dec is True:
                return self.block(s.body, facts)
            if dec is False:
                return self.block(s.orelse, facts)
            a = self.block(s.body, facts)
            b = self.block(s.orelse, facts)
            if a is None and b is not None and self.guard is not None:
                g = self.guard(s, facts)
                if g is not None:
                    b = b | {g}
            if a is None:
                return b
            if b is None:
                return a
            return a & b
        if isinstance(s, (ast.For, ast.While)):
            saved = getattr(self, "_loop_exits", None)
            self._loop_exits = []
            if self.on_expr:
                self.on_expr(s.iter if isinstance(s, ast.For) else s.test, facts)
            bfacts = facts
            if isinstance(s, ast.For):
                bfacts = self.transfer(ast.copy_location(ast.Assign(targets=[s.target], value=ast.Constant(value=None)), s), facts)
            body = self.block(s.body, bfacts)
            exits = self._loop_exits
            if saved is None:
                del self._loop_exits
            else:
                self._loop_exits = saved
            outs = list(exits)
            if body is not None:
                outs.append(body)
            if not self.loops_once or isinstance(s, ast.While) and not _is_true(s.test):
                outs.append(facts)
            elif not self.loops_once:
                outs.append(facts)
            if not outs:
                return None
            r = outs[0]
            for o in outs[1:]:
                r = r & o
            if s.orelse:
                return self.block(s.orelse, r)
            return r
        if isinstance(s, ast.With):
            for it in s.items:
                if self.on_expr:
                    self.on_expr(it.context_expr, facts)
                if it.optional_vars is not None:
                    facts = self.transfer(ast.copy_location(ast.Assign(targets=[it.optional_vars], value=ast.Constant(value=None)), s), facts)
            return self.block(s.body, facts)
        if isinstance(s, ast.Try):
            a = self.block(s.body, facts)
            outs = [] if a is None else [a]
            for h in s.handlers:
                hf = facts
                if h.name:
                    hf = facts | {h.name}
                hb = self.block(h.body, hf)
                if hb is not None:
                    outs.append(hb)
            if not outs:
                return None
            r = outs[0]
            for o in outs[1:]:
                r = r & o
            if s.finalbody:
                return self.block(s.finalbody, r)
            return r
        if isinstance(s, (ast.FunctionDef, ast.ClassDef)):
            return self.transfer(s, facts)
        return self.transfer(s, facts)


def _is_true(test):
    return isinstance(test, ast.Constant) and test.value is True


def possibly_undefined(fnode):
    """[(Name node, name)] loads of a local name that is not definitely assigned on every
    path reaching the load (nested function bodies and comprehension variables excluded)."""
    params = {a.arg for a in fnode.args.posonlyargs + fnode.args.args + fnode.args.kwonlyargs}
    if fnode.args.vararg:
        params.add(fnode.args.vararg.arg)
    if fnode.args.kwarg:
        params.add(fnode.args.kwarg.arg)
    locals_ = set()
    globs = set()

    def own_nodes(node):
        stack = [node]
        while stack:
            n = stack.pop()
            yield n
            for ch in ast.iter_child_nodes(n):
                if isinstance(ch, (ast.FunctionDef, ast.AsyncFunctionDef, ast.Lambda, ast.ClassDef)) and ch is not node:
                    if isinstance(ch, (ast.FunctionDef, ast.ClassDef)):
                        locals_.add(ch.name)
                    continue
                stack.append(ch)

    comp_vars = set()
    for n in own_nodes(fnode):
        if isinstance(n, ast.Name) and isinstance(n.ctx, ast.Store):
            locals_.add(n.id)
        elif isinstance(n, ast.Global):
            globs.update(n.names)
        elif isinstance(n, ast.comprehension):
            for x in ast.walk(n.target):
                if isinstance(x, ast.Name):
                    comp_vars.add(x.id)
        elif isinstance(n, (ast.Import, ast.ImportFrom)):
            for a in n.names:
                locals_.add((a.asname or a.name).split(".")[0])
        elif isinstance(n, ast.ExceptHandler) and n.name:
            locals_.add(n.name)
    locals_ -= globs
    found = []

    def loads(expr, facts):
        for n in own_nodes(expr):
            if isinstance(n, ast.Name) and isinstance(n.ctx, ast.Load):
                if n.id in locals_ and n.id not in facts and n.id not in params and n.id not in comp_vars:
                    found.append((n, n.id))

    def stores(node):
        out = set()
        for n in own_nodes(node):
            if isinstance(n, ast.Name) and isinstance(n.ctx, ast.Store):
                out.add(n.id)
        return out

    def transfer(s, facts):
        if isinstance(s, (ast.FunctionDef, ast.ClassDef)):
            return facts | {s.name}
        if isinstance(s, (ast.Import, ast.ImportFrom)):
            return facts | {(a.asname or a.name).split(".")[0] for a in s.names}
        if isinstance(s, ast.Assign):
            loads(s.value, facts)
            for t in s.targets:
                loads(t, facts)  # subscript/attribute targets read their base
            return facts | stores(s)
        if isinstance(s, ast.AugAssign):
            loads(s.value, facts)
            if isinstance(s.target, ast.Name):
                if s.target.id in locals_ and s.target.id not in facts and s.target.id not in params:
                    found.append((s.target, s.target.id))
            else:
                loads(s.target, facts)
            return facts | stores(s)
        if isinstance(s, ast.Delete):
            return facts - {t.id for t in s.targets if isinstance(t, ast.Name)}
        loads(s, facts)
        return facts | stores(s)

    class CorrFlow(MustFlow):
        """correlated tests: a name assigned only under `if T:` counts as assigned inside a
        later `if T:` with the same test text, provided no variable of T was reassigned"""

        def stmt(self, s, facts):
            if isinstance(s, ast.If):
                t = ast.unparse(s.test)
                tvars = {n.id for n in ast.walk(s.test) if isinstance(n, ast.Name)}
                self.on_expr(s.test, facts)
                inb = facts | {f[2] for f in facts if isinstance(f, tuple) and f[0] == "cond" and f[1] == t}
                a = MustFlow.block(self, s.body, inb)
                b = MustFlow.block(self, s.orelse, facts)
                if a is None:
                    return b
                if b is None:
                    return a
                j = a & b
                body_stores = set()
                for st in s.body:
                    body_stores |= stores(st)
                if not (tvars & body_stores):
                    for nm in a - b:
                        if isinstance(nm, str):
                            j = j | {("cond", t, nm)}
                return j
            out = MustFlow.stmt(self, s, facts)
            if out is not None and isinstance(s, (ast.Assign, ast.AugAssign, ast.For, ast.With)):
                st = stores(s) if not isinstance(s, (ast.For, ast.With)) else set()
                if st:
                    out = frozenset(f for f in out if not (isinstance(f, tuple) and f[0] == "cond" and
                                                           ({n.id for n in ast.walk(ast.parse(f[1], mode="eval")) if isinstance(n, ast.Name)} & st)))
            return out

    CorrFlow(transfer, on_expr=loads, loops_once=False).run(fnode, frozenset(params))
    seen = set()
    out = []
    for n, nm in found:
        k = (n.lineno, n.col_offset)
        if k not in seen:
            seen.add(k)
            out.append((n, nm))
    return out
