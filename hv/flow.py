"""E2-lite: forward *must* dataflow over structured Python (no CFG library needed).

facts are frozensets; `transfer(stmt, facts)` returns new facts for a simple statement.
If/Try arms are joined by intersection; arms ending in raise are dropped; loops are
treated as zero-or-more iterations (facts after = facts before ∩ facts after body) unless
`loops_once` is set.  Every `return` is reported to `on_return(node, facts)`.
"""
import ast


class _Exit(Exception):
    pass


class MustFlow:
    def __init__(self, transfer, on_return=None, loops_once=False, branch=None):
        self.transfer = transfer
        self.on_return = on_return or (lambda node, facts: None)
        self.loops_once = loops_once
        self.branch = branch  # optional (test, facts) -> True/False/None
        self.exits = []

    def run(self, fnode, facts=frozenset()):
        out = self.block(fnode.body, facts)
        if out is not None:
            self.on_return(None, out)  # falls off the end
        return out

    def block(self, stmts, facts):
        """returns facts at normal exit, or None if no path exits normally"""
        for s in stmts:
            facts = self.stmt(s, facts)
            if facts is None:
                return None
        return facts

    def stmt(self, s, facts):
        if isinstance(s, ast.Return):
            facts = self.transfer(s, facts)
            self.on_return(s, facts)
            return None
        if isinstance(s, ast.Raise):
            return None
        if isinstance(s, (ast.Break, ast.Continue)):
            self._loop_exits.append(facts) if hasattr(self, "_loop_exits") else None
            return None
        if isinstance(s, ast.If):
            facts = self.transfer(s.test, facts) if False else facts
            dec = self.branch(s.test, facts) if self.branch else None
            if dec is True:
                return self.block(s.body, facts)
            if dec is False:
                return self.block(s.orelse, facts)
            a = self.block(s.body, facts)
            b = self.block(s.orelse, facts)
            if a is None:
                return b
            if b is None:
                return a
            return a & b
        if isinstance(s, (ast.For, ast.While)):
            saved = getattr(self, "_loop_exits", None)
            self._loop_exits = []
            body = self.block(s.body, facts)
            exits = self._loop_exits
            if saved is None:
                del self._loop_exits
            else:
                self._loop_exits = saved
            outs = list(exits)
            if body is not None:
                outs.append(body)
            if not self.loops_once or isinstance(s, ast.While) and not _is_true(s.test):
                outs.append(facts)
            elif not self.loops_once:
                outs.append(facts)
            if not outs:
                return None
            r = outs[0]
            for o in outs[1:]:
                r = r & o
            if s.orelse:
                return self.block(s.orelse, r)
            return r
        if isinstance(s, ast.With):
            return self.block(s.body, facts)
        if isinstance(s, ast.Try):
            a = self.block(s.body, facts)
            outs = [] if a is None else [a]
            for h in s.handlers:
                hb = self.block(h.body, facts)
                if hb is not None:
                    outs.append(hb)
            if not outs:
                return None
            r = outs[0]
            for o in outs[1:]:
                r = r & o
            if s.finalbody:
                return self.block(s.finalbody, r)
            return r
        if isinstance(s, (ast.FunctionDef, ast.ClassDef)):
            return self.transfer(s, facts)
        return self.transfer(s, facts)


def _is_true(test):
    return isinstance(test, ast.Constant) and test.value is True
