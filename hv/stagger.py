"""E4: stagger / affine-slice typing for 2-D region arrays.

Logical coordinates (in cell units): centre (i+1/2, j+1/2), xlow (i, j+1/2),
ylow (i+1/2, j), corners (i, j).  Axis lengths: x: nx for centre/ylow, nx+1 for
xlow/corners; y: ny for centre/xlow, ny+1 for ylow/corners.

A selector on one axis is an int index, a slice a:b[:s] or `...`/`:`; it is normalised to
(first index, step, count) with first/count affine in the axis size n (Fractions).
"""
import ast
from fractions import Fraction

from .slices import Affine, norm_slice, slice_of

HALF = Fraction(1, 2)
XHALF = {"centre": HALF, "ylow": HALF, "xlow": Fraction(0), "corners": Fraction(0)}
YHALF = {"centre": HALF, "xlow": HALF, "ylow": Fraction(0), "corners": Fraction(0)}
XLEN = {"centre": Affine(0, 1), "ylow": Affine(0, 1), "xlow": Affine(1, 1), "corners": Affine(1, 1)}
YLEN = {"centre": Affine(0, 1), "xlow": Affine(0, 1), "ylow": Affine(1, 1), "corners": Affine(1, 1)}


class StencilError(Exception):
    pass


def const_int(node):
    if isinstance(node, ast.Constant) and isinstance(node.value, int) and not isinstance(node.value, bool):
        return node.value
    if isinstance(node, ast.UnaryOp) and isinstance(node.op, ast.USub) and isinstance(node.operand, ast.Constant) and isinstance(node.operand.value, int):
        return -node.operand.value
    return None


def axis_sel(node, length):
    """selector on one axis -> ('index', Affine) | ('range', first Affine, step, count Affine) | ('newaxis',)"""
    if node is None:
        return ("range", Affine(0), 1, length)
    if isinstance(node, ast.Constant) and node.value is Ellipsis:
        return ("range", Affine(0), 1, length)
    c = const_int(node)
    if c is not None:
        return ("index", Affine(c) if c >= 0 else length + c)
    if isinstance(node, ast.Slice):
        try:
            lo, hi, st = slice_of(node)
            first, step, count = norm_slice(lo, hi, st, length)
        except (ValueError, TypeError) as e:
            raise StencilError("slice not affine: %s" % e)
        return ("range", first, step, count)
    if isinstance(node, ast.Attribute) and node.attr == "newaxis":
        return ("newaxis",)
    if isinstance(node, ast.Name):
        return ("name", node.id)
    raise StencilError("selector not understood: %s" % ast.dump(node)[:60])


def selectors(sub, loc):
    """(x selector, y selector) of a subscript on a 2-D array at location loc"""
    if sub is None:
        return axis_sel(None, XLEN[loc]), axis_sel(None, YLEN[loc])
    sl = sub.slice
    if isinstance(sl, ast.Tuple):
        elts = [e for e in sl.elts]
    else:
        elts = [sl]
    # drop newaxis entries (broadcast axes) but remember them
    real = [e for e in elts if not (isinstance(e, ast.Attribute) and e.attr == "newaxis")]
    if len(real) == 1 and isinstance(real[0], ast.Constant) and real[0].value is Ellipsis:
        return axis_sel(None, XLEN[loc]), axis_sel(None, YLEN[loc])
    if len(real) == 1:
        return axis_sel(real[0], XLEN[loc]), axis_sel(None, YLEN[loc])
    if len(real) != 2:
        raise StencilError("expected two selectors")
    return axis_sel(real[0], XLEN[loc]), axis_sel(real[1], YLEN[loc])


def first_of(sel):
    if sel[0] == "index":
        return sel[1]
    if sel[0] == "range":
        return sel[1]
    raise StencilError("selector has no first index")


def count_of(sel):
    if sel[0] == "index":
        return Affine(1)
    if sel[0] == "range":
        return sel[3]
    raise StencilError("selector has no count")


def offset(target_sel, target_half, op_sel, op_half):
    """logical offset (operand - target) along one axis; both selectors walk in step"""
    t0, o0 = first_of(target_sel), first_of(op_sel)
    d = o0 - t0
    if d.c1 != 0:
        raise StencilError("offset depends on the array size: %s" % d)
    if target_sel[0] == "range" and op_sel[0] == "range":
        if target_sel[2] != op_sel[2]:
            raise StencilError("different steps")
        if not (count_of(target_sel) == count_of(op_sel)):
            raise StencilError("different element counts: %s vs %s" % (count_of(target_sel), count_of(op_sel)))
    return d.c0 + op_half - target_half


def loc_array(node):
    """X.<loc>[...] or X.<loc>  -> (base expr node, loc, subscript node or None)"""
    sub = None
    if isinstance(node, ast.Subscript):
        sub = node
        node = node.value
    if isinstance(node, ast.Attribute) and node.attr in XHALF:
        return node.value, node.attr, sub
    return None
