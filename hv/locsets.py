"""E4b: location-set inference for MultiLocationArray fields of MeshRegion.

MultiLocationArray allocates a location lazily, as zeros, the first time it is read, and
its ufunc protocol computes a location only when every array operand already has it.
This module runs the per-region geometry phases (in the order the driver method calls
them, extracted from source) over the abstract domain

      field  ->  set of locations that hold *computed data*

A location assigned from an expression that reads a location without data does not
count as data (it is computed from lazily allocated zeros).  `if` arms that are not
decided by the arm seed (orthogonal / curvature type) are joined by intersection; arms
ending in `raise` are dropped.  Loops are entered once (nx, ny >= 1).

The rule armed on top: every field handed to the 2-D writer has data at every location
the writer reads.
"""
import ast
import re

from .model import Program, walk_own, is_self_attr, dotted
from .report import AnalysisError
from .model import key_in

ALL = frozenset(("centre", "xlow", "ylow", "corners"))
LOCS = ("centre", "xlow", "ylow", "corners")
MESH = "hypnotoad/core/mesh.py"


class _Raise(Exception):
    pass


class _Return(Exception):
    def __init__(self, value):
        self.value = value


class _Break(Exception):
    pass


class _Continue(Exception):
    pass


class Note:
    """why a location has no data"""

    def __init__(self):
        self.why = {}

    def set(self, name, loc, text):
        self.why.setdefault((name, loc), text)

    def get(self, name, loc):
        return self.why.get((name, loc), "never assigned")


class Interp:
    def __init__(self, prog, seeds, cls="MeshRegion"):
        self.prog = prog
        self.mod = prog.module(MESH)
        self.seeds = seeds
        self.cls = cls
        self.note = Note()
        self.assign_sites = {}
        self.bad_reads = []  # (site, text, name, loc)
        self.depth = 0
        self.calls = []
        self.last_return = None
        self.ret_counter = 0
        self.bad_refs = []
        # staleness tracking: version of every field, bumped by any store; a derived field
        # remembers the versions of the fields it was computed from
        self.version = {}
        self.mod_site = {}
        self.deps = {}

    # ------------------------------------------------------------------ state helpers
    def method(self, name):
        f = self.mod.funcs.get(self.cls + "." + name)
        return f

    def site(self, node):
        return "%s:%d" % (self.mod.rel, getattr(node, "lineno", 0))

    def text(self, node):
        return " ".join(self.mod.text(node).split())

    # ------------------------------------------------------------------ expressions
    def key_of(self, node, st):
        """state key of an MLA-holding lvalue/rvalue: 'self.X' or local name"""
        if isinstance(node, ast.Name):
            if node.id in st["alias"]:
                return None
            return node.id
        if isinstance(node, ast.Attribute) and isinstance(node.value, ast.Name):
            if node.value.id in st["alias"]:
                return st["alias"][node.value.id] + "." + node.attr
        if isinstance(node, ast.Attribute) and isinstance(node.value, ast.Call):
            # self.getNeighbour("upper").Bpxy
            d = dotted(node.value.func)
            if d and d.endswith(".getNeighbour"):
                return "nbr." + node.attr
        if isinstance(node, ast.Subscript):
            # region.__dict__[name] with constant name
            d = dotted(node.value)
            if d and d.endswith(".__dict__") and isinstance(node.slice, ast.Constant):
                return "self." + node.slice.value
        return None

    def locs(self, node, st, reads):
        """locations with data of an MLA-valued expression, or None for non-MLA"""
        data = st["data"]
        if isinstance(node, ast.Constant):
            return None
        k = self.key_of(node, st)
        if k is not None and k in data:
            return data[k]
        if k is not None and k.startswith("nbr.") and "self." + k[4:] in data:
            # a neighbouring region has run the same phases (symmetry)
            return data["self." + k[4:]]
        if isinstance(node, ast.Attribute):
            if node.attr in LOCS:
                base = self.locs(node.value, st, reads)
                if base is not None:
                    bk = self.key_of(node.value, st) or self.text(node.value)
                    if node.attr not in base:
                        reads.append((self.site(node), self.text(node), bk, node.attr))
                    return None
                return None
            if node.attr in ("_centre_array", "_xlow_array", "_ylow_array", "_corners_array", "attributes", "nx", "ny"):
                return None
            self.locs(node.value, st, reads)
            return None
        if isinstance(node, ast.BinOp):
            a = self.locs(node.left, st, reads)
            b = self.locs(node.right, st, reads)
            return _meet(a, b)
        if isinstance(node, ast.UnaryOp):
            return self.locs(node.operand, st, reads)
        if isinstance(node, ast.Compare):
            r = self.locs(node.left, st, reads)
            for c in node.comparators:
                r = _meet(r, self.locs(c, st, reads))
            return r
        if isinstance(node, ast.Subscript):
            v = self.locs(node.value, st, reads)
            self.locs(node.slice, st, reads)
            return None if v is None else v
        if isinstance(node, (ast.Tuple, ast.List)):
            for e in node.elts:
                self.locs(e, st, reads)
            return None
        if isinstance(node, ast.Call):
            return self.call(node, st, reads)
        if isinstance(node, ast.IfExp):
            self.locs(node.test, st, reads)
            return _meet(self.locs(node.body, st, reads), self.locs(node.orelse, st, reads))
        if isinstance(node, (ast.ListComp, ast.GeneratorExp, ast.JoinedStr, ast.Lambda, ast.Name, ast.Slice, ast.BoolOp, ast.Dict, ast.Starred)):
            for ch in ast.iter_child_nodes(node):
                if isinstance(ch, ast.expr):
                    self.locs(ch, st, reads)
            return None
        return None

    def call(self, node, st, reads):
        d = dotted(node.func)
        # constructor
        if d == "MultiLocationArray":
            return frozenset()
        if isinstance(node.func, ast.Attribute) and node.func.attr == "zero":
            base = self.locs(node.func.value, st, reads)
            if base is not None:
                return ALL
        if isinstance(node.func, ast.Attribute) and node.func.attr in ("copy",):
            base = self.locs(node.func.value, st, reads)
            if base is not None:
                return base
        if d in ("deepcopy", "copy.deepcopy") and node.args:
            return self.locs(node.args[0], st, reads)
        # finite differences of a '#name' expression
        if d and d.split(".")[-1] in ("DDX", "DDY") and st["alias"].get(d.split(".")[0]) == "self":
            return self.ddxy(d.split(".")[-1], node, st, reads)
        # methods of the same class
        if d and st["alias"].get(d.split(".")[0]) == "self" and len(d.split(".")) == 2:
            f = self.method(d.split(".")[1])
            if f is not None:
                return self.run_method(f, st, node)
        # local closures
        if isinstance(node.func, ast.Name) and node.func.id in st["closures"]:
            argl = [self.locs(a, st, reads) for a in node.args]
            return self.run_closure(st["closures"][node.func.id], st, argl, node)
        # anything else: elementwise / handleMultiLocationArray semantics
        r = None
        for a in list(node.args) + [k.value for k in node.keywords]:
            v = self.locs(a, st, reads)
            r = _meet(r, v)
        if isinstance(node.func, ast.Attribute):
            self.locs(node.func.value, st, reads)
        return r

    def ddxy(self, which, node, st, reads):
        if not node.args or not isinstance(node.args[0], ast.Constant) or not isinstance(node.args[0].value, str):
            raise AnalysisError("%s called with a non-literal expression at %s" % (which, self.site(node)))
        s = node.args[0].value
        names = re.findall(r"#(\w+)", s)
        src = re.sub(r"#(\w+)", r"self.\1", s)
        tree = ast.parse(src, mode="eval").body
        sub = []
        # evaluate in a pseudo-module: key_of works on the tree; site from the caller
        f_locs = self._locs_foreign(tree, st, sub)
        for n in names:
            if "self." + n not in st["data"]:
                self.bad_refs.append((self.site(node), which, s, n))
                f_locs = frozenset()
        fm = self.method(which)
        if fm is None:
            raise AnalysisError("method %s not found" % which)
        st2 = self.fresh_locals(st)
        st2["data"]["f"] = f_locs if f_locs is not None else frozenset()
        st2["fexpr"] = s
        return self.run_method(fm, st, node, preset=st2)

    def _locs_foreign(self, tree, st, reads):
        # text() of foreign nodes is unavailable; evaluate structurally
        data = st["data"]
        if isinstance(tree, ast.Attribute) and isinstance(tree.value, ast.Name) and tree.value.id == "self":
            return data.get("self." + tree.attr)
        if isinstance(tree, ast.BinOp):
            return _meet(self._locs_foreign(tree.left, st, reads), self._locs_foreign(tree.right, st, reads))
        if isinstance(tree, ast.UnaryOp):
            return self._locs_foreign(tree.operand, st, reads)
        if isinstance(tree, ast.Call):
            r = None
            for a in tree.args:
                r = _meet(r, self._locs_foreign(a, st, reads))
            return r
        return None

    # ------------------------------------------------------------------ callables
    def fresh_locals(self, st):
        d = {k: v for k, v in st["data"].items() if k.startswith(("self.", "nbr."))}
        return {"data": d, "alias": {"self": "self"}, "closures": {}}

    def run_method(self, f, st, callnode=None, preset=None):
        if self.depth > 8:
            raise AnalysisError("call depth exceeded at %s" % f.qualname)
        self.depth += 1
        self.calls.append(f.qualname)
        try:
            st2 = preset if preset is not None else self.fresh_locals(st)
            ret = None
            try:
                self.block(f.node.body, st2)
            except _Return as r:
                ret = r.value
            # publish self.* changes back
            for k, v in st2["data"].items():
                if k.startswith(("self.", "nbr.")):
                    st["data"][k] = v
            for k in list(st["data"]):
                if k.startswith(("self.", "nbr.")) and k not in st2["data"]:
                    del st["data"][k]
            return ret
        finally:
            self.depth -= 1

    def run_closure(self, fnode, st, argl, callnode):
        if self.depth > 8:
            raise AnalysisError("call depth exceeded in closure")
        self.depth += 1
        try:
            st2 = {"data": dict(st["data"]), "alias": dict(st["alias"]), "closures": dict(st["closures"])}
            params = [a.arg for a in fnode.args.args]
            for p, v in zip(params, argl):
                if v is not None:
                    st2["data"][p] = v
                else:
                    st2["data"].pop(p, None)
            try:
                self.block(fnode.body, st2)
            except _Return as r:
                return r.value
            return None
        finally:
            self.depth -= 1

    # ------------------------------------------------------------------ statements
    def block(self, stmts, st):
        for s in stmts:
            self.stmt(s, st)

    def decide(self, test, st):
        t = self.text(test)
        for key, val in self.seeds.items():
            if key_in(key, t):
                neg = isinstance(test, ast.UnaryOp) and isinstance(test.op, ast.Not)
                return (not val) if neg else val
        # `X.loc is not None` / `is None` on a lazily allocating property: never None
        if isinstance(test, ast.Compare) and len(test.ops) == 1 and isinstance(test.comparators[0], ast.Constant) and test.comparators[0].value is None:
            l = test.left
            if isinstance(l, ast.Attribute) and l.attr in LOCS:
                if isinstance(test.ops[0], ast.IsNot):
                    return True
                if isinstance(test.ops[0], ast.Is):
                    return False
        return None

    def stmt(self, s, st):
        data = st["data"]
        if isinstance(s, ast.Expr):
            r = []
            self.locs(s.value, st, r)
            return
        if isinstance(s, ast.Assign):
            for t in s.targets:
                self.assign(t, s.value, st, s)
            return
        if isinstance(s, ast.AugAssign):
            self.augassign(s, st)
            return
        if isinstance(s, ast.If):
            dec = self.decide(s.test, st)
            rr = []
            self.locs(s.test, st, rr)
            if dec is True:
                return self.block(s.body, st)
            if dec is False:
                return self.block(s.orelse, st)
            outcomes = []
            for arm in (s.body, s.orelse):
                c = _copy(st)
                try:
                    self.block(arm, c)
                    outcomes.append(("ok", c))
                except _Raise:
                    outcomes.append(("raise", None))
                except _Return as r:
                    outcomes.append(("return", r))
                except _Break:
                    outcomes.append(("break", c))
                except _Continue:
                    outcomes.append(("continue", c))
            oks = [c for k, c in outcomes if k == "ok"]
            if not oks:
                kinds = [k for k, _ in outcomes]
                if all(k == "raise" for k in kinds):
                    raise _Raise()
                for k, c in outcomes:
                    if k == "return":
                        raise c
                    if k == "break":
                        _assign_state(st, c)
                        raise _Break()
                    if k == "continue":
                        _assign_state(st, c)
                        raise _Continue()
            if len(oks) == 1:
                # a `return <value>` arm next to a normal arm is not modelled
                for k, c in outcomes:
                    if k == "return" and c.value is not None:
                        raise AnalysisError("conditional return of a value at %s" % self.site(s))
                _assign_state(st, oks[0])
                return
            _assign_state(st, _join(oks[0], oks[1], self.note, self.site(s)))
            return
        if isinstance(s, (ast.For, ast.While)):
            if isinstance(s, ast.For):
                rr = []
                self.locs(s.iter, st, rr)
                # `for t in [theta.centre, ...]`: elementwise in-place edits keep data
            try:
                self.block(s.body, st)
            except _Break:
                pass
            except _Continue:
                pass
            return
        if isinstance(s, ast.FunctionDef):
            st["closures"][s.name] = s
            return
        if isinstance(s, ast.Return):
            rr = []
            v = None if s.value is None else self.locs(s.value, st, rr)
            if s.value is not None and isinstance(s.value, ast.Name) and s.value.id in data:
                v = data[s.value.id]
                # keep the reasons for missing locations under a per-call key
                self.ret_counter += 1
                rk = "ret%d:%s" % (self.ret_counter, s.value.id)
                for (nm, loc), txt in list(self.note.why.items()):
                    if nm == s.value.id:
                        self.note.why[(rk, loc)] = txt
                        del self.note.why[(nm, loc)]
                self.last_return = rk
            raise _Return(v)
        if isinstance(s, ast.Raise):
            raise _Raise()
        if isinstance(s, ast.Break):
            raise _Break()
        if isinstance(s, ast.Continue):
            raise _Continue()
        if isinstance(s, ast.With):
            return self.block(s.body, st)
        if isinstance(s, ast.Try):
            return self.block(s.body, st)
        return

    def assign(self, t, value, st, s):
        data = st["data"]
        # alias tracking: region = self ; next_region = region.getNeighbour(..)
        if isinstance(t, ast.Name):
            if isinstance(value, ast.Name) and value.id in st["alias"]:
                st["alias"][t.id] = st["alias"][value.id]
                return
            if isinstance(value, ast.Call):
                d = dotted(value.func)
                if d and d.endswith(".getNeighbour") and d.split(".")[0] in st["alias"]:
                    st["alias"][t.id] = "nbr"
                    return
        # whole-object assignment
        k = self.key_of(t, st)
        if k is not None:
            reads = []
            v = self.locs(value, st, reads)
            if v is None:
                data.pop(k, None)
                if isinstance(t, ast.Name):
                    st["alias"].pop(t.id, None)
                return
            if reads:
                for site, text, nm, loc in reads:
                    self.bad_reads.append((site, text, nm, loc))
            data[k] = v
            self.assign_sites[k] = self.site(s)
            self._bump(k, s)
            ops = {}
            for n_ in ast.walk(value):
                if isinstance(n_, (ast.Name, ast.Attribute)):
                    ok_ = self.key_of(n_, st)
                    if ok_ is not None and ok_ in data and ok_ != k:
                        ops[ok_] = self.version.get(ok_, 0)
            self.deps[k] = (ops, self.site(s))
            for loc in (ALL - v if not (isinstance(value, ast.Call) and dotted(value.func) == "MultiLocationArray") else ()):
                why = None
                if isinstance(value, ast.Call) and self.last_return is not None:
                    why = self.note.why.get((self.last_return, loc))
                self.note.set(k, loc, (why or self._why_missing(value, st, loc)) + " [assigned at " + self.site(s) + "]")
            self.last_return = None
            return
        # location assignment  X.loc = / X.loc[...] =
        tgt = t
        if isinstance(tgt, ast.Subscript):
            tgt = tgt.value
        if isinstance(tgt, ast.Attribute) and tgt.attr in LOCS:
            k = self.key_of(tgt.value, st)
            if k is not None and k in data:
                self._bump(k, s)
                reads = []
                self.locs(value, st, reads)
                if isinstance(t, ast.Subscript):
                    self.locs(t.slice, st, reads)
                if reads:
                    site, text, nm, loc = reads[0]
                    self.note.set(k, tgt.attr, "computed from %s, which has no data (%s), at %s" % (text, self.note.get(nm, loc), self.site(s)))
                    for r in reads:
                        self.bad_reads.append(r)
                    if isinstance(t, ast.Subscript) and tgt.attr in data[k]:
                        # partial overwrite of a location that had data: now tainted
                        data[k] = data[k] - {tgt.attr}
                else:
                    data[k] = data[k] | {tgt.attr}
                return
        rr = []
        self.locs(value, st, rr)

    def _bump(self, k, s):
        self.version[k] = self.version.get(k, 0) + 1
        self.mod_site[k] = self.site(s)

    def stale(self):
        """(field, operand, site of the field's definition, site of the later store to the
        operand): the field was computed from a value of the operand that is no longer the
        one the region holds"""
        out = []
        for k, (ops, site) in sorted(self.deps.items()):
            for o, ver in sorted(ops.items()):
                if self.version.get(o, 0) > ver:
                    out.append((k, o, site, self.mod_site.get(o)))
        return out

    def augassign(self, s, st):
        data = st["data"]
        t = s.target
        k = self.key_of(t, st)
        if k is not None and k in data:
            self._bump(k, s)
            reads = []
            v = self.locs(s.value, st, reads)
            if v is not None:
                lost = data[k] - v
                for loc in lost:
                    self.note.set(k, loc, "in-place ufunc with operand lacking %s at %s" % (loc, self.site(s)))
                data[k] = data[k] & v
            return
        tgt = t.value if isinstance(t, ast.Subscript) else t
        if isinstance(tgt, ast.Attribute) and tgt.attr in LOCS:
            k = self.key_of(tgt.value, st)
            if k is not None and k in data:
                self._bump(k, s)
                reads = []
                self.locs(s.value, st, reads)
                if tgt.attr not in data[k]:
                    reads.append((self.site(s), self.text(tgt), k, tgt.attr))
                if reads:
                    site, text, nm, loc = reads[0]
                    self.note.set(k, tgt.attr, "updated from %s, which has no data, at %s" % (text, self.site(s)))
                    data[k] = data[k] - {tgt.attr}
                    self.bad_reads.extend(reads)
                return
        rr = []
        self.locs(s.value, st, rr)

    def _why_missing(self, value, st, loc):
        for n in ast.walk(value):
            k = self.key_of(n, st) if isinstance(n, (ast.Name, ast.Attribute)) else None
            if k is not None and k in st["data"] and loc not in st["data"][k]:
                return "operand %s has no %s data (%s)" % (k, loc, self.note.get(k, loc))
        return "expression yields no %s" % loc


def _meet(a, b):
    if a is None:
        return b
    if b is None:
        return a
    return a & b


def _copy(st):
    return {"data": dict(st["data"]), "alias": dict(st["alias"]), "closures": dict(st["closures"])}


def _assign_state(st, c):
    st["data"].clear()
    st["data"].update(c["data"])
    st["alias"].clear()
    st["alias"].update(c["alias"])
    st["closures"].update(c["closures"])


def _join(a, b, note, site):
    d = {}
    for k in a["data"]:
        if k in b["data"]:
            d[k] = a["data"][k] & b["data"][k]
            for loc in (a["data"][k] | b["data"][k]) - d[k]:
                note.set(k, loc, "assigned on only one arm of the test at " + site)
    al = {k: v for k, v in a["alias"].items() if b["alias"].get(k) == v}
    return {"data": d, "alias": al, "closures": {**a["closures"], **b["closures"]}}


# ---------------------------------------------------------------------------------
# driver: phase order from the mesh driver methods, then the writer's requirements
# ---------------------------------------------------------------------------------
def phase_order(prog, with_loops=False):
    """names of MeshRegion methods in the order Mesh.geometry (and the helper it calls)
    invokes them on every region; extracted from `for region in ...: region.m()` loops."""
    mod = prog.module(MESH)
    g = mod.funcs.get("Mesh.geometry")
    if g is None:
        raise AnalysisError("Mesh.geometry not found")
    order = []
    loops = []
    counter = [0]

    def visit(fn):
        for s in fn.node.body:
            for n in ast.walk(s) if not isinstance(s, ast.For) else [s]:
                pass
            _collect(s, fn)

    def _collect(s, fn):
        if isinstance(s, ast.For):
            tgt = s.target.id if isinstance(s.target, ast.Name) else None
            counter[0] += 1
            this_loop = counter[0]
            for b in s.body:
                if isinstance(b, ast.Expr) and isinstance(b.value, ast.Call):
                    d = dotted(b.value.func)
                    if d and tgt and d.startswith(tgt + "."):
                        order.append(d.split(".")[1])
                        loops.append(this_loop)
                    elif d and d.startswith("self."):
                        sub = mod.funcs.get("Mesh." + d.split(".")[1])
                        if sub is not None:
                            visit(sub)
                elif isinstance(b, ast.If):
                    for bb in b.body:
                        _collect_simple(bb)
        elif isinstance(s, ast.Expr) and isinstance(s.value, ast.Call):
            _collect_simple(s)

    def _collect_simple(s):
        if isinstance(s, ast.Expr) and isinstance(s.value, ast.Call):
            d = dotted(s.value.func)
            if d and d.startswith("self."):
                sub = mod.funcs.get("Mesh." + d.split(".")[1])
                if sub is not None and sub.name != "smoothnl":
                    visit(sub)

    visit(g)
    if with_loops:
        return order, loops
    return order


def writer_requirements(prog):
    """(fields passed to the 2-D collector with their guarding condition text,
        locations the 2-D writer reads)"""
    mod = prog.module(MESH)
    geo = mod.funcs.get("BoutMesh.geometry")
    if geo is None:
        raise AnalysisError("BoutMesh.geometry not found")
    fields = []

    def walk(stmts, cond):
        for s in stmts:
            if isinstance(s, ast.Expr) and isinstance(s.value, ast.Call) and isinstance(s.value.func, ast.Name):
                if s.value.func.id == "addFromRegions" and s.value.args and isinstance(s.value.args[0], ast.Constant):
                    fields.append((s.value.args[0].value, cond, s.lineno))
            elif isinstance(s, ast.If):
                t = " ".join(mod.text(s.test).split())
                walk(s.body, (cond + " and " if cond else "") + t)
                walk(s.orelse, (cond + " and " if cond else "") + "not (" + t + ")")

    walk(geo.node.body, "")
    wa = mod.funcs.get("BoutMesh.writeArray")
    if wa is None:
        raise AnalysisError("BoutMesh.writeArray not found")
    p = wa.node.args.args[2].arg
    locs = []
    for n in ast.walk(wa.node):
        if isinstance(n, ast.Attribute) and isinstance(n.value, ast.Name) and n.value.id == p and n.attr in LOCS:
            if n.attr not in locs:
                locs.append(n.attr)
    return fields, locs


ARMS = {
    "orthogonal": {"orthogonal": True, "shiftedmetric": True, 'curvature_type == "curl(b/B) with x-y derivatives"': False,
                   'curvature_type == "curl(b/B)"': True, "cap_Bp_ylow_xpoint": False, "hasattr": True, "yGroupIndex != 0": False,
                   "Bp_dot_grady < 0": False, "self.psi_vals[0] > self.psi_vals[-1]": False},
    "non-orthogonal": {"orthogonal": False, "shiftedmetric": True, 'curvature_type == "curl(b/B) with x-y derivatives"': False,
                       'curvature_type == "curl(b/B)"': True, "cap_Bp_ylow_xpoint": False, "hasattr": True, "yGroupIndex != 0": False,
                       "Bp_dot_grady < 0": False, "self.psi_vals[0] > self.psi_vals[-1]": False},
    "orthogonal/capBp": {"orthogonal": True, "shiftedmetric": True, 'curvature_type == "curl(b/B) with x-y derivatives"': False,
                         'curvature_type == "curl(b/B)"': True, "cap_Bp_ylow_xpoint": True, "hasattr": True, "yGroupIndex != 0": False,
                         "Bp_dot_grady < 0": False, "self.psi_vals[0] > self.psi_vals[-1]": False},
    "orthogonal/xy-curvature": {"orthogonal": True, "shiftedmetric": True, 'curvature_type == "curl(b/B) with x-y derivatives"': True,
                                "cap_Bp_ylow_xpoint": False, "hasattr": True, "yGroupIndex != 0": False,
                                "Bp_dot_grady < 0": False, "self.psi_vals[0] > self.psi_vals[-1]": False},
}

_cache = {}


def infer(prog, arm):
    key = (id(prog), arm)
    if key in _cache:
        return _cache[key]
    it = Interp(prog, ARMS[arm])
    st = {"data": {}, "alias": {"self": "self"}, "closures": {}}
    order = phase_order(prog)
    if len(order) < 6:
        raise AnalysisError("phase order extraction found only %s" % order)
    for name in order:
        f = it.method(name)
        if f is None:
            raise AnalysisError("phase method MeshRegion.%s not found" % name)
        try:
            it.run_method(f, st)
        except _Raise:
            raise AnalysisError("phase %s raises unconditionally on arm %s" % (name, arm))
    _cache[key] = (it, st, order)
    return _cache[key]


def check_fresh(prog, rep, rule, fields, arms):
    """obligation per (arm, field): nothing the field was computed from is stored to afterwards,
    so the arrays that reach the writer still satisfy the field's defining formula"""
    for arm in arms:
        it, st, order = infer(prog, arm)
        stale = {}
        for k, o, site, msite in it.stale():
            stale.setdefault(k, []).append((o, site, msite))
        for fld in fields:
            k = "self." + fld
            if k not in it.deps:
                rep.ob(rule, "%s: %s is computed in the geometry phases" % (arm, fld), False, MESH, "no assignment of self.%s seen on this arm" % fld, key="fresh/%s/%s/absent" % (arm, fld))
                continue
            bad = stale.get(k, [])
            rep.ob(rule, "%s: no operand of %s is modified after %s is computed (operands: %s)" % (arm, fld, fld, ", ".join(sorted(x[5:] for x in it.deps[k][0])) or "-"),
                   not bad, it.deps[k][1], "; ".join("%s is stored to at %s, after %s was computed at %s" % (o[5:], ms, fld, s_) for o, s_, ms in bad), key="fresh/%s/%s" % (arm, fld))


def check_fields(prog, rep, rule, fields, arms, need, prefix=""):
    """obligation per (arm, field, location): the field has computed data there"""
    wfields, wlocs = writer_requirements(prog)
    written = {n for n, c, l in wfields}
    for arm in arms:
        it, st, order = infer(prog, arm)
        rep.analysed_add("phases(" + arm + ")", order)
        for fld in fields:
            if fld not in written:
                rep.ob(rule, "%s: field %s is handed to the 2-D writer" % (arm, fld), False,
                       MESH, "no addFromRegions(%r) call found" % fld, key="%s/%s/unwritten" % (arm, fld))
                continue
            have = st["data"].get("self." + fld)
            if have is not None and "nbr." + fld in st["data"]:
                # fields initialised for the next region of a chain by its predecessor
                for loc in have - st["data"]["nbr." + fld]:
                    it.note.set("self." + fld, loc, "hand-over to the next region of the chain does not set %s (%s)" % (loc, it.note.get("nbr." + fld, loc)))
                have = have & st["data"]["nbr." + fld]
            if have is None:
                rep.ob(rule, "%s: %s is a MultiLocationArray field" % (arm, fld), False, MESH,
                       "self.%s is never assigned a MultiLocationArray on this arm" % fld, key="%s/%s/absent" % (arm, fld))
                continue
            for loc in need:
                ok = loc in have
                rep.ob(rule, "%s: %s has computed data at %s (written as %s%s)" % (arm, fld, loc, fld, "" if loc == "centre" else "_" + loc),
                       ok, it.assign_sites.get("self." + fld, MESH),
                       "" if ok else it.note.get("self." + fld, loc), key="%s/%s/%s" % (arm, fld, loc))
