"""E4b placeholder (filled in below)"""
def check_fields(prog, rep, rule, fields, arms, need):
    rep.error(rule, "location-set inference not implemented yet")
