"""hv driver: bin/hv <Cxx> [--tier quick|thorough] | bin/hv replay <path> | bin/hv all"""
import argparse
import importlib
import json
import os
import sys
import traceback

from .report import Report, AnalysisError


def run_property(pid, tier):
    seed = int(os.environ.get("VERIF_SEED", "0") or 0)
    rep = Report(pid, tier, seed)
    try:
        mod = importlib.import_module("hv.props.%s" % pid.lower())
    except ModuleNotFoundError:
        print("ANALYSIS-ERROR property=%s no check module" % pid)
        return 2
    try:
        expl = mod.run(rep, tier)
        if tier == "thorough" and not os.environ.get("HV_NO_SELFTEST"):
            from . import selftest
            os.environ["HV_NO_SELFTEST"] = "1"
            cat, res = selftest.run(pid)
            rep.selftest = {"summary": selftest.summary(res), "results": res}
            for r in res:
                if r["status"] in ("MISSED", "NOISY", "ERROR"):
                    rep.error("selftest", "%s: %s %s" % (r["id"], r["status"], r.get("first") or r.get("why")))
            print("selftest %s: %s" % (pid, selftest.summary(res)))
        return rep.finish(expl or mod.__doc__ or pid)
    except AnalysisError as e:
        rep.error("anchor", str(e))
        try:
            return rep.finish("analysis aborted: " + str(e))
        except Exception:
            traceback.print_exc()
            print("ANALYSIS-ERROR property=%s %s" % (pid, e))
            return 2
    except Exception as e:  # a traceback is an analysis error, not a violation
        traceback.print_exc()
        print("ANALYSIS-ERROR property=%s internal: %r" % (pid, e))
        rep.error("internal", repr(e))
        try:
            rc = rep.finish("analysis aborted by internal error")
        except Exception:
            rc = 2
        # violations established before the abort stand (VIOLATION lines were printed): exit 1
        return 1 if rc == 1 else 2


def main(argv=None):
    ap = argparse.ArgumentParser(prog="hv")
    ap.add_argument("what")
    ap.add_argument("path", nargs="?")
    ap.add_argument("--tier", default=os.environ.get("VERIF_TIER", "quick"))
    a = ap.parse_args(argv)
    tier = a.tier if a.tier in ("quick", "thorough") else "quick"
    if a.what == "replay":
        with open(a.path) as f:
            rec = json.load(f)
        print("replaying %s rule=%s instance=%s" % (rec["property"], rec["rule"], rec["instance"]))
        os.environ["HV_EVIDENCE_DIR"] = os.environ.get("HV_EVIDENCE_DIR", "/tmp/hv-replay-evidence")
        return run_property(rec["property"], rec.get("tier", "quick"))
    if a.what == "all":
        rc = 0
        for i in range(1, 21):
            pid = "C%02d" % i
            if os.path.exists(os.path.join(os.path.dirname(__file__), "props", pid.lower() + ".py")):
                rc = max(rc, run_property(pid, tier))
        return rc
    return run_property(a.what.upper(), tier)


if __name__ == "__main__":
    sys.exit(main())
