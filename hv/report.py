"""Obligation bookkeeping, evidence files, known findings, exit codes.

exit 0: every obligation holds (or fails only as a listed known finding)
exit 1: at least one unlisted violation (also when some other instance could not be decided); one line `VIOLATION property=<id> replay=<path>` each
exit 2: ANALYSIS-ERROR (anchor vanished, idiom not understood, instance count below floor)
"""
import hashlib
import json
import os
import re
import sys
import time

VERIF = os.path.dirname(os.path.dirname(os.path.abspath(__file__)))
EVIDENCE_DIR = os.environ.get("HV_EVIDENCE_DIR", os.path.join(VERIF, "evidence"))
KNOWN_FILE = os.path.join(VERIF, "known_findings.json")


class AnalysisError(Exception):
    pass


def norm_text(s):
    """normalised statement text used in finding keys (whitespace-insensitive)."""
    return re.sub(r"\s+", " ", s).strip()


class Obligation:
    __slots__ = ("rule", "instance", "ok", "site", "detail", "key", "status")

    def __init__(self, rule, instance, ok, site, detail, key):
        self.rule = rule
        self.instance = instance
        self.ok = ok
        self.site = site
        self.detail = detail
        self.key = key
        self.status = "held" if ok else "violated"

    def as_dict(self):
        return {
            "rule": self.rule,
            "instance": self.instance,
            "verdict": self.status,
            "site": self.site,
            "detail": self.detail,
            "key": self.key,
        }


_REF_COUNTS = None


def _reference_counts():
    global _REF_COUNTS
    if _REF_COUNTS is None:
        try:
            with open(os.path.join(os.path.dirname(os.path.dirname(os.path.abspath(__file__))), "reference", "obligation_counts.json")) as f:
                _REF_COUNTS = json.load(f)
        except (OSError, ValueError):
            _REF_COUNTS = {}
    return _REF_COUNTS


class Report:
    def __init__(self, pid, tier, seed=0):
        self.pid = pid
        self.tier = tier
        self.seed = seed
        self.t0 = time.time()
        self.obligations = []
        self.errors = []
        self.analysed = {}
        self.assumptions = []
        self.trusted = []
        self.relations = []
        self.notes = []
        self.floors = {}
        self.selftest = None
        self.not_decided = []
        self.rules_doc = {}

    # -- recording ---------------------------------------------------------------
    def rule(self, rid, text):
        self.rules_doc[rid] = text

    def ob(self, rule, instance, ok, site="", detail="", key=None):
        """record one obligation. key identifies the construct for known-findings."""
        if key is None:
            key = instance
        o = Obligation(rule, instance, bool(ok), site, detail, key)
        self.obligations.append(o)
        return o.ok

    def error(self, rule, msg, site=""):
        self.errors.append({"rule": rule, "message": msg, "site": site})

    def floor(self, rule, count, minimum):
        """instance-count floor: fewer matches than confirmed by hand is an analysis error."""
        self.floors[rule] = {"count": count, "floor": minimum}
        if count < minimum:
            self.error(rule, "instance count %d below confirmed floor %d" % (count, minimum))

    def analysed_add(self, kind, items):
        self.analysed.setdefault(kind, [])
        for i in items if isinstance(items, (list, tuple, set)) else [items]:
            if i not in self.analysed[kind]:
                self.analysed[kind].append(i)

    def assume(self, text):
        if text not in self.assumptions:
            self.assumptions.append(text)

    def trust(self, text):
        if text not in self.trusted:
            self.trusted.append(text)

    def undecided(self, text):
        if text not in self.not_decided:
            self.not_decided.append(text)

    # -- finishing ---------------------------------------------------------------
    def finish(self, explanation, technique="static analysis"):
        known = load_known()
        new_viol = []
        known_hit = []
        for o in self.obligations:
            if o.ok:
                continue
            k = match_known(known, self.pid, o.rule, o.key)
            if k is not None and k.get("status") == "known":
                o.status = "known-finding"
                known_hit.append((o, k))
            else:
                new_viol.append(o)
        # a rule instance that fails inside a function that has been restructured since the
        # instance was confirmed (hv/shape.py) cannot be matched any more: the check cannot
        # decide, which is an analysis error, not a violation
        import re as _re
        UNDECIDABLE = _re.compile(r"<opaque|not extractable|not representable|unmodelled|unbound name|undecided (branch|comparison|conditional)|non-numeric value")
        kept = []
        for o in new_viol:
            if UNDECIDABLE.search(str(o.detail)) or _re.search(r"(extractable|representable|evaluable)$", o.instance):
                o.status = "undecided-unrepresentable"
                self.errors.append({"rule": o.rule, "site": o.site, "message": "cannot evaluate \"%s\": %s" % (o.instance[:140], str(o.detail)[:200])})
            else:
                kept.append(o)
        new_viol = kept
        if new_viol and not os.environ.get("HV_NO_SHAPE"):
            kept = []
            for o in new_viol:
                # an algebraic identity that was extracted and then fails is a failure of the formulas
                # themselves, whatever the shape of the function: never demoted
                # ... and so is a construct that is wrong wherever it stands (a store guarded by a
                # test of its own existence, an in-place change of shared state): "definite: ..."
                algebraic = str(o.detail).startswith(("residual ", "g_12 - e_x", "x-y form ==", "difference ", "definite: "))
                d = None
                if not algebraic:
                    # the function the instance is anchored in, then every function this check
                    # recorded as analysed (an evaluation runs through several of them)
                    for site in [o.site] + [x for x in self.analysed.get("functions", []) if isinstance(x, str)]:
                        d = _restructured(site) if "(" in site or site == o.site else None
                        if d is not None:
                            break
                if d is not None:
                    o.status = "undecided-restructured"
                    self.errors.append({"rule": o.rule, "site": o.site,
                                        "message": "cannot decide \"%s\": %s has been restructured since this rule instance was confirmed (statement distance %s > %d); re-confirm the instance by reading"
                                        % (o.instance[:140], d[0], d[1], _shape_limit())})
                else:
                    kept.append(o)
            new_viol = kept
        # a summary obligation ("... /all", "... /none": no instance of a slip class anywhere) fails
        # exactly when one of its instances does; when every failing instance was found undecided
        # (or is a known finding), the summary has nothing definite left to report
        kept = []
        for o in new_viol:
            if str(o.key).rsplit("/", 1)[-1] in ("all", "none"):
                prefix = str(o.key).rsplit("/", 1)[0].split("/")[0]
                fam = [x for x in self.obligations if x is not o and x.rule == o.rule and str(x.key).split("/")[0] == prefix and not x.ok]
                definite = [x for x in fam if x in new_viol]
                if fam and not definite:
                    o.status = "undecided-summary"
                    self.errors.append({"rule": o.rule, "site": o.site, "message": "cannot decide \"%s\": every failing instance of this class was left undecided or is a known finding" % o.instance[:140]})
                    continue
            kept.append(o)
        new_viol = kept
        # no rule may lose instances silently: the number of obligations filed under each rule is
        # compared with the number on the tree the instances were confirmed on
        # (reference/obligation_counts.json, tools/gen_counts.py).  Fewer, with no analysis error
        # that explains it, means a rule skipped something without saying so.
        counts = {}
        for o in self.obligations:
            counts[o.rule] = counts.get(o.rule, 0) + 1
        self.rule_counts = counts
        if not os.environ.get("HV_NO_COUNTS"):
            ref = _reference_counts().get(self.pid, {})
            explained = {e.get("rule") for e in self.errors}
            for rule, c in sorted(ref.items()):
                got = counts.get(rule, 0)
                if got < c and not (explained & {rule, "internal", "anchor"}) and not any(str(r).startswith(rule + ".") for r in explained):
                    self.errors.append({"rule": rule, "site": "", "message": "%d obligation(s) evaluated under this rule, %d on the confirmed tree: rule instances vanished without a report" % (got, c)})
        os.makedirs(os.path.join(EVIDENCE_DIR, "replay"), exist_ok=True)
        lines = []
        for o, k in known_hit:
            lines.append(
                "KNOWN-FINDING: property=%s %s rule=%s key=%s at %s: fails \"%s\" -- %s"
                % (self.pid, k.get("id", ""), o.rule, o.key, o.site, o.instance, k.get("short", k.get("what", ""))[:160])
            )
        for o in new_viol:
            h = hashlib.sha1((self.pid + o.rule + o.key).encode()).hexdigest()[:12]
            path = os.path.join(EVIDENCE_DIR, "replay", "%s_%s.json" % (self.pid, h))
            with open(path, "w") as f:
                json.dump(
                    {"property": self.pid, "tier": self.tier, **o.as_dict()}, f, indent=1
                )
            print("  violated: [%s] %s\n     at %s\n     %s" % (o.rule, o.instance, o.site, o.detail))
            lines.append("VIOLATION property=%s replay=%s" % (self.pid, path))
        for e in self.errors:
            lines.append(
                "ANALYSIS-ERROR property=%s rule=%s %s %s"
                % (self.pid, e["rule"], e["site"], e["message"])
            )
        n = len(self.obligations)
        held = sum(1 for o in self.obligations if o.ok)
        distinct = len({(o.rule, o.key) for o in self.obligations})
        samples = []
        seen_rules = set()
        for o in self.obligations:
            if o.rule not in seen_rules:
                seen_rules.add(o.rule)
                samples.append(o.as_dict())
        for o in self.obligations:
            if not o.ok:
                samples.append(o.as_dict())
        cov = {
            "explanation": explanation,
            "obligations": n,
            "discharged": held,
            "evaluations": max(n, 1),
            "distinct_nontrivial": distinct,
            "rule": "one obligation per rule instance found in /repo's current source; "
            "distinct = distinct (rule, construct key) pairs; every one is non-trivial in "
            "the sense that it compares two independently written source constructs or a "
            "source construct with the property's closed form",
            "samples": samples[:40],
            "checker_cmd": "bin/hv %s --tier %s" % (self.pid, self.tier),
            "trusted_base": self.trusted,
            "exhaustive": True,
            "rules": self.rules_doc,
            "analysed": self.analysed,
            "floors": self.floors,
            "relations_used": self.relations,
            "known_findings_hit": [k.get("id") for _, k in known_hit],
            "new_violations": [o.as_dict() for o in new_viol],
            "analysis_errors": self.errors,
            "rule_counts": self.rule_counts,
            "not_decided": self.not_decided,
            "all_obligations": [o.as_dict() for o in self.obligations]
            if self.tier == "thorough"
            else None,
            "selftest": self.selftest,
            "notes": self.notes,
        }
        ev = {
            "property_id": self.pid,
            "tier": self.tier,
            "seed": self.seed,
            "level": "other",
            "coverage": cov,
            "assumptions": self.assumptions,
            "wall_s": round(time.time() - self.t0, 3),
            "violations": len(new_viol),
        }
        os.makedirs(EVIDENCE_DIR, exist_ok=True)
        with open(os.path.join(EVIDENCE_DIR, self.pid + ".json"), "w") as f:
            json.dump(ev, f, indent=1, default=str)
        print(
            "%s [%s]: %d obligations, %d held, %d known findings, %d new violations, "
            "%d analysis errors (%.2fs)"
            % (self.pid, self.tier, n, held, len(known_hit), len(new_viol), len(self.errors), time.time() - self.t0)
        )
        for l in lines:
            print(l)
        # a definite violation outranks an instance the analysis could not decide: the VIOLATION
        # lines above are the verdict, the ANALYSIS-ERROR lines say what else was left open
        if new_viol:
            return 1
        if self.errors:
            return 2
        return 0


_dist_cache = {}


def _shape_limit():
    from . import shape
    return shape.RESTRUCTURED


def _restructured(site):
    """(what, distance) when the function (or module) a site points to is farther from the
    reference shape than shape.RESTRUCTURED, else None"""
    import re as _re
    from . import shape
    from .model import Program
    if "d" not in _dist_cache:
        try:
            _dist_cache["d"] = shape.distances(Program())
        except Exception:
            _dist_cache["d"] = {}
    dist = _dist_cache["d"]
    m = _re.match(r"^([\w./-]+\.py)(?::\d+)?(?: \(([\w.<>]+)\))?", site or "")
    if not m:
        return None
    rel, qn = m.group(1), m.group(2)
    dd = dist.get(rel)
    if not dd:
        return None
    if qn and qn in dd or (qn and any(k.startswith(qn + ".") or qn.startswith(k + ".") for k in dd)):
        cand = [(k, v) for k, v in dd.items() if k == qn or k.startswith(qn + ".") or qn.startswith(k + ".")]
    elif qn:
        cand = [(k, v) for k, v in dd.items() if k.split(".")[-1] == qn.split(".")[-1]] or list(dd.items())
    else:
        cand = list(dd.items())
    worst = None
    for k, v in cand:
        if v is None:
            # a function nested in / enclosing the site that is new or has vanished: code was moved
            if qn and (k.startswith(qn + ".") or qn.startswith(k + ".")) or not qn:
                return ("%s (%s: function added or removed)" % (rel, k), "n/a")
            continue
        if v > shape.RESTRUCTURED and (worst is None or v > worst[1]):
            worst = ("%s (%s)" % (rel, k), v)
    return worst


def load_known():
    try:
        with open(KNOWN_FILE) as f:
            return json.load(f).get("findings", [])
    except FileNotFoundError:
        return []


def match_known(known, pid, rule, key):
    for k in known:
        if pid in k.get("properties", [k.get("property")]) and key in k.get("keys", []):
            rules = k.get("rules")
            if rules is None or rule in rules:
                return k
    return None



class Premise:
    """view of a Report that files another property's rule instances under one premise rule
    of this property (same obligations, rule id and keys prefixed), so that a property whose
    identity rests on another check's facts fails when those facts fail"""

    def __init__(self, rep, rule, prefix):
        self._rep, self._rule, self._prefix = rep, rule, prefix

    def rule(self, rid, text):
        pass

    def ob(self, rule, instance, ok, site="", detail="", key=None):
        return self._rep.ob(self._rule, "premise (%s.%s): %s" % (self._prefix, rule, instance), ok, site, detail, key="%s/%s" % (self._prefix, key if key is not None else instance))

    def error(self, rule, msg, site=""):
        return self._rep.error(self._rule, "%s.%s: %s" % (self._prefix, rule, msg), site)

    def floor(self, rule, count, minimum):
        return self._rep.floor("%s.%s.%s" % (self._rule, self._prefix, rule), count, minimum)

    def __getattr__(self, name):
        return getattr(self._rep, name)

    def __setattr__(self, name, value):
        if name.startswith("_"):
            object.__setattr__(self, name, value)
        else:
            setattr(self._rep, name, value)
